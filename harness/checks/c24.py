"""C24 -- argument binding of compiled functions matches CPython for every signature and call.

spec/ArgBind.tla: Bind(sig, call) = the language-reference binding algorithm (validated against a
declarative characterisation), plus an implementation-shaped transcription of the parsing code
DefNodeWrapper generates and of __Pyx_ParseKeywords (kwnames tuple / dict / dict -> **kw forms).
Every reachable TLC state is one (signature, call) case; TLC proves reference == declarative ==
implementation-shaped on the bounded family and publishes every case with its expected outcome.
B1: one compiled function per signature and call path (module-level def, tp_call slot wrapper of
the function type, functools.partial, literal keywords from CPython-compiled callers, method of a
Python class, method of a cdef class (bound / unbound), cpdef function / method, __call__ of a cdef
class) returning (parameter values, *args, **kw); every case runs through every path, with key
objects of the published kinds (interned / run-time built / str subclass / non-str), on modules
built in several configurations.  P = the same source exec'ed by CPython, all paths (S != P -> exit 2).
"""
import concurrent.futures
import json
import os
import random
import subprocess
import sys
import threading
import time

import core
import lib_argbind as L

PROP = "C24"

CONFIGS = {
    "default": {"dset": "std", "cflags": []},
    "novc": {"dset": "std", "cflags": ["-DCYTHON_VECTORCALL=0"]},
    "noui": {"dset": "std", "cflags": ["-DCYTHON_USE_UNICODE_INTERNALS=0"]},
    "abr": {"dset": "std", "cflags": ["-DCYTHON_AVOID_BORROWED_REFS=1"]},
    "aak": {"dset": "aak", "cflags": []},
    "nobind": {"dset": "nobind", "cflags": []},
}
DSETS = {"std": {}, "aak": {"always_allow_keywords": False}, "nobind": {"binding": False}}
PATHS = ["func", "tpcall", "partial", "literal", "cpdef", "pymeth", "cmeth", "cunbound", "cpmeth", "ccall"]
# functions that get the METH_O signature under always_allow_keywords=False (one argument besides self)
METH_O_PATHS = ["func", "tpcall", "partial", "literal", "cpdef", "cmeth", "cunbound", "cpmeth"]

# exhaustive families (cfg files; `bounds` = MaxPO, MaxPK, MaxKO of the union of the signature sets) and the
# budget for the sampled 6/6/6 family (spec SimSpec, TLC -simulate)
QUICK = {"cfg": ["ArgBind_quick"], "bounds": (1, 1, 2), "sim_s": 0, "sim_sigs": 0}
THOROUGH = {"cfg": ["ArgBind_quick", "ArgBind_t1", "ArgBind_t2", "ArgBind_k3"], "bounds": (2, 2, 2), "sim_s": 90, "sim_sigs": 60}


def chunks(seq, n):
    return [seq[i:i + n] for i in range(0, len(seq), n)]


class Builder(object):
    """Cython once per (module, directive set), gcc once per (module, configuration)."""

    def __init__(self, wd, jobs):
        self.wd = wd
        self.jobs = jobs
        self.modules = []    # (kind, name, source)
        self.errors = []

    def add_sigs(self, tag, sigs, call_sigs, per_mod=380, per_call_mod=120):
        for i, ch in enumerate(chunks(sigs, per_mod)):
            self.modules.append(("func", "c24f_%s%d" % (tag, i), L.source_funcs(ch)))
            self.modules.append(("meth", "c24m_%s%d" % (tag, i), L.source_methods(ch)))
        for i, ch in enumerate(chunks(call_sigs, per_call_mod)):
            self.modules.append(("call", "c24k_%s%d" % (tag, i), L.source_callables(ch)))

    def py_dir(self):
        d = os.path.join(self.wd, "py")
        os.makedirs(d, exist_ok=True)
        for kind, name, src in self.modules:
            with open(os.path.join(d, name + "_py.py"), "w") as f:
                f.write(L.as_python(src))
        return d

    def build(self, configs):
        """-> {config: [(kind, dir, name)]} ; failures are collected in self.errors"""
        dsets = sorted({CONFIGS[c]["dset"] for c in configs})
        specs = []
        for ds in dsets:
            for kind, name, src in self.modules:
                specs.append((ds, kind, name, core.BuildSpec(name, src, directives=DSETS[ds], cython_only=True)))
        cres = {}
        with concurrent.futures.ThreadPoolExecutor(max_workers=self.jobs) as ex:
            futs = {}
            for ds, kind, name, sp in specs:
                futs[ex.submit(core.build_one, sp, os.path.join(self.wd, "cy_" + ds))] = (ds, kind, name)
            ccf = {}
            for fu in concurrent.futures.as_completed(futs):
                ds, kind, name = futs[fu]
                b = fu.result()
                if not b.ok:
                    self.errors.append({"stage": "cython:" + b.stage, "module": name, "dset": ds, "errors": b.errors[-3000:]})
                    continue
                for c in configs:
                    if CONFIGS[c]["dset"] == ds:
                        ccf[ex.submit(self._cc, b.c_file, c, name)] = (c, kind, name)
            out = {c: [] for c in configs}
            for fu in concurrent.futures.as_completed(ccf):
                c, kind, name = ccf[fu]
                ok, d, err = fu.result()
                if ok:
                    out[c].append((kind, d, name))
                else:
                    self.errors.append({"stage": "cc", "module": name, "config": c, "errors": err[-3000:]})
        return out

    def _cc(self, c_file, config, name):
        d = os.path.join(self.wd, "so_" + config)
        os.makedirs(d, exist_ok=True)
        so = os.path.join(d, name + core.ext_suffix())
        cmd = ["gcc", "-O0", "-w", "-fPIC", "-shared", "-fno-strict-aliasing", "-I" + core.py_include()] + \
            CONFIGS[config]["cflags"] + [c_file, "-o", so]
        p = subprocess.run(cmd, capture_output=True, text=True)
        return p.returncode == 0, d, p.stdout + p.stderr


# paths that share a child process; a path whose compiled code corrupts memory cannot disturb another group
PATH_GROUPS = [["func", "partial", "literal", "cpdef"], ["tpcall"], ["pymeth", "cmeth", "cunbound", "cpmeth"], ["ccall"]]
MAX_CRASHES_PER_PATH = 3


def run_group(mode, mods, casesf, outdir, tag, paths, aak_off=False, timeout=1500):
    """Replay the cases file through `paths` in a child (restarted after crashes; a path that killed the child
    MAX_CRASHES_PER_PATH times is dropped for the rest of this replay).  -> (mismatches, stats, done, crashes, dropped)"""
    os.makedirs(outdir, exist_ok=True)
    metaf = os.path.join(outdir, tag + "_meta.json")
    outf = os.path.join(outdir, tag + "_out.ndjson")
    if os.path.exists(outf):
        os.unlink(outf)
    paths = list(paths)
    start, crashes, dropped, recs = 0, [], [], []
    while paths:
        with open(metaf, "w") as f:
            json.dump({"mods": [list(m) for m in mods], "paths": paths, "aak_off": aak_off, "meth_o_paths": METH_O_PATHS}, f)
        ch = core.run_child(L.CHILD, [mode, metaf, casesf, outf, str(start), "0"], timeout=timeout, mem_mb=6144)
        fatal = [j for j in ch.json_lines() if "fatal" in j]
        if fatal:
            core.die("replay child: %s" % fatal[0]["fatal"])
        recs = core.read_ndjson(outf) if os.path.exists(outf) else []
        if ch.rc == 0 and any("done" in r for r in recs):
            break
        if not ch.crashed and not ch.timed_out:
            core.die("replay child failed (rc=%s): %s" % (ch.rc, ch.err[-2000:]))
        # died in compiled code: find the case and the path
        last_p = max([r["p"] for r in recs if "p" in r] + [start])
        ch2 = core.run_child(L.CHILD, [mode, metaf, casesf, outf, str(last_p), "2001"], timeout=600, mem_mb=6144)
        recs = core.read_ndjson(outf)
        ats = [r for r in recs if "at" in r]
        if (ch2.crashed or ch2.timed_out) and ats:
            culprit, cpath = ats[-1]["at"], ats[-1].get("atpath", "?")
            crashes.append({"i": culprit, "signal": ch2.signal, "timeout": bool(ch2.timed_out), "path": cpath})
            start = culprit + 1
            if sum(1 for c in crashes if c["path"] == cpath) >= MAX_CRASHES_PER_PATH and cpath in paths:
                paths.remove(cpath)
                dropped.append({"path": cpath, "from_case": culprit})
                start = culprit
        else:
            start = last_p + 2001   # not reproducible in the careful run
            crashes.append({"i": last_p, "signal": ch.signal, "timeout": bool(ch.timed_out), "path": "?", "unreproducible": True})
        if len(crashes) >= 4 * MAX_CRASHES_PER_PATH:
            break
    mism, seen, stats, done = [], set(), {}, 0
    for r in recs:
        if "path" in r:
            k = (r["i"], r["path"])
            if k not in seen:
                seen.add(k)
                mism.append(r)
        elif "done" in r:
            done = max(done, r["done"])
            for p, n in r["stats"].items():
                stats[p] = stats.get(p, 0) + n
    return mism, stats, done, crashes, dropped


def run_cases(mode, mods, casesf, outdir, tag, aak_off=False, timeout=1500):
    """all path groups, each in its own child, concurrently.  -> (mismatches, stats, done, crashes, dropped)"""
    with concurrent.futures.ThreadPoolExecutor(max_workers=len(PATH_GROUPS)) as ex:
        futs = [ex.submit(run_group, mode, mods, casesf, outdir, "%s_g%d" % (tag, i), g, aak_off, timeout)
                for i, g in enumerate(PATH_GROUPS)]
        res = [f.result() for f in futs]
    mism, stats, crashes, dropped = [], {}, [], []
    done = None
    for m, st, d, cr, dr in res:
        mism += m
        for p, n in st.items():
            stats[p] = stats.get(p, 0) + n
        crashes += cr
        dropped += dr
        if not dr and not [c for c in cr if c.get("unreproducible")] and len(cr) < 4 * MAX_CRASHES_PER_PATH:
            done = d if done is None else min(done, d)
        elif d:
            done = d if done is None else min(done, d)
    return mism, stats, done or 0, crashes, dropped


def describe(case, path, config):
    kinds = sorted({k for _, k in case[7]})
    return {"config": config, "path": path, "spec_outcome": case[9], "star": bool(case[3]), "starstar": bool(case[5]),
            "posonly": case[0] > 0, "kwonly": len(case[4]) > 0, "key_kinds": "+".join(kinds) or "none",
            "has_keywords": len(case[7]) > 0}


def render(case):
    """a published case written out for a reader"""
    return {"def": "f(%s)" % L.params(L.sig_of_case(case))[0], "positional_values": list(range(1, case[6] + 1)),
            "keywords": [{"name": n, "key_kind": k, "value": 101 + j} for j, (n, k) in enumerate(case[7])],
            "expected": ({"params": case[10], "args": case[11], "kw": case[12]} if case[8] else "TypeError (%s)" % case[9])}


def obs_class(want, got):
    if isinstance(got, str) and got.startswith("CRASH"):
        return "crash"
    if isinstance(got, str) and got.startswith("E:"):
        if want == "E:TypeError":
            return "wrong-exception-type"
        return "error-instead-of-bound"
    if want == "E:TypeError":
        return "bound-instead-of-error"
    return "wrong-binding"


def corrupt(case, rng):
    """a wrong expectation for the binding self-test"""
    c = json.loads(json.dumps(case))
    if c[8]:
        choice = rng.randrange(3)
        if choice == 0 or not c[10]:
            c[8], c[9], c[10], c[11], c[12] = False, "corrupted", [], [], []
        elif choice == 1:
            c[10][rng.randrange(len(c[10]))] += 1000
        else:
            c[10] = c[10][::-1] if len(set(c[10])) > 1 else [v + 1 for v in c[10]]
    else:
        n = c[0] + c[1] + len(c[4])
        c[8], c[9] = True, "corrupted"
        c[10], c[11], c[12] = [201 + i for i in range(n)], [], []
    return c


def run(tier, seed):
    t0 = time.time()
    rng = random.Random(seed)
    rep = core.Reporter(PROP)
    wd = core.subdir("c24")
    plan = QUICK if tier == "quick" else THOROUGH
    jobs = max(4, min(16, core.NCPU))
    if tier == "quick":
        configs = ["default", "novc", ["noui", "aak", "nobind", "abr"][seed % 4]]
    else:
        configs = list(CONFIGS)

    cov = {"tlc": []}
    # ---- sampled large family first (its signatures are only known afterwards and must be built)
    sim_cases, sim_sigs = [], []
    if plan["sim_s"]:
        sim = core.tlc_simulate("ArgBind", "ArgBind_sim", seconds=plan["sim_s"], depth=9, workers=4, seed=seed, max_records=120000)
        if not sim.ok:
            sys.stderr.write(sim.out[-3000:])
            core.die("ArgBind simulation: %s" % sim.violation)
        seen = set()
        for c in sim.printed:
            k = json.dumps(c)
            if k in seen:
                continue
            seen.add(k)
            sg = L.sig_of_case(c)
            if sg[0] <= plan["bounds"][0] and sg[1] <= plan["bounds"][1] and len(sg[4]) <= plan["bounds"][2]:
                continue      # inside the exhaustive families
            if sg not in sim_sigs:
                if len(sim_sigs) >= plan["sim_sigs"]:
                    continue
                sim_sigs.append(sg)
            sim_cases.append(c)
        cov["simulation"] = {"records": len(sim.printed), "distinct_cases": len(sim_cases), "signatures": len(sim_sigs),
                             "wall_s": round(sim.wall, 1), "cmd": sim.cmd,
                             "max_params": max([sg[0] + sg[1] + len(sg[4]) for sg in sim_sigs] or [0])}
        del sim, seen

    # ---- signatures of the bounded family (enumerated independently of TLC), builds start right away
    sigs = L.all_sigs(*plan["bounds"])
    call_sigs = sorted(rng.sample(sigs, 72 if tier == "quick" else 240))
    bld = Builder(wd, jobs)
    bld.add_sigs("b", sigs, call_sigs)
    if sim_sigs:
        bld.add_sigs("s", sim_sigs, sim_sigs[:30], per_mod=60, per_call_mod=30)
    built = {}

    def do_build():
        built["main"] = bld.build(configs)
    th = threading.Thread(target=do_build, daemon=True)
    th.start()

    # ---- model checking
    casesf = os.path.join(wd, "cases.ndjson")
    ncases = 0
    classes = {}
    kinds_seen = {}
    nontrivial = 0
    sig_seen = set()
    samples = []
    actions = {}
    seen_keys = set()
    with open(casesf, "w") as cf:
        for cfg in plan["cfg"]:
            r = core.tlc_or_die("ArgBind", cfg=cfg, timeout=1500, workers=jobs)
            cov["tlc"].append(dict(r.summary(), config=cfg))
            for c in r.printed:
                if len(plan["cfg"]) > 1:
                    key = json.dumps(c, separators=(",", ":"))
                    if key in seen_keys:
                        continue      # the families overlap: each case is replayed once
                    seen_keys.add(key)
                cf.write(json.dumps(c, separators=(",", ":")) + "\n")
                ncases += 1
                classes[c[9]] = classes.get(c[9], 0) + 1
                for _, k in c[7]:
                    kinds_seen[k] = kinds_seen.get(k, 0) + 1
                if c[8] and c[11]:
                    classes["bound+args"] = classes.get("bound+args", 0) + 1
                if c[8] and c[12]:
                    classes["bound+kw"] = classes.get("bound+kw", 0) + 1
                if c[6] or c[7]:
                    nontrivial += 1
                # which actions of the spec built this state (vacuity guard on the model)
                if c[6]:
                    actions["AddPositional"] = actions.get("AddPositional", 0) + 1
                for n, k in c[7]:
                    a = "AddKwNonStr" if k == "ns" else "AddKwUnknown" if n == "zz" else "AddKwPosOnly" if n[0] == "p" else "AddKwParam"
                    actions[a] = actions.get(a, 0) + 1
                sig_seen.add(L.sig_of_case(c))
                if len(samples) < 4 and c[7] and rng.random() < 0.001:
                    samples.append(render(c))
            if r.distinct != len(r.printed):
                core.die("%s: %d distinct states but %d published cases" % (cfg, r.distinct, len(r.printed)))
            del r
        nbfs = ncases
        del seen_keys
        for c in sim_cases:
            cf.write(json.dumps(c, separators=(",", ":")) + "\n")
            ncases += 1
            if c[6] or c[7]:
                nontrivial += 1
            classes["sim:" + c[9]] = classes.get("sim:" + c[9], 0) + 1
    phase = {"tlc": round(time.time() - t0, 1)}
    # vacuity guard (model only)
    need = ["bound", "nonstr", "toomany", "multiple", "unexpected", "missing", "bound+args", "bound+kw"]
    if any(classes.get(k, 0) == 0 for k in need) or any(kinds_seen.get(k, 0) == 0 for k in ("lit", "rt", "sub", "ns")):
        core.die("vacuous model: classes %r kinds %r" % (classes, kinds_seen))
    for a in ("AddPositional", "AddKwParam", "AddKwPosOnly", "AddKwUnknown", "AddKwNonStr"):
        if actions.get(a, 0) == 0:
            core.die("vacuous model: no published state was built by action %s (%r)" % (a, actions))
    if sig_seen != set(sigs):
        core.die("signature family of the spec (%d) differs from the harness enumeration (%d)" % (len(sig_seen), len(sigs)))

    # ---- P: the same source under CPython, all paths
    pydir = bld.py_dir()
    pmods = [(kind, pydir, name) for kind, name, _ in bld.modules]
    pm, pstats, pdone, pcr, _ = run_cases("py", pmods, casesf, os.path.join(wd, "run"), "py")
    if pdone != ncases or pcr:
        core.die("P replay incomplete: %s of %d, crashes %r" % (pdone, ncases, pcr))
    for m in pm[:50]:
        rep.spec_drift("ArgBind.Bind vs CPython (%s)" % m["path"], {"case": m["case"], "spec": m["want"], "cpython": m["got"]})

    phase["cpython_oracle"] = round(time.time() - t0, 1)
    # ---- C: compiled modules
    th.join()
    phase["builds_done"] = round(time.time() - t0, 1)
    if bld.errors:
        for e in bld.errors[:5]:
            rep.disagree({"part": "build", "stage": e["stage"], "config": e.get("config", e.get("dset"))}, "build-failed", e)
    total_calls = 0
    per_config = {}
    results = {}

    def replay_config(c):
        mods = built["main"].get(c) or []
        if len(mods) != len(bld.modules):
            return None
        return run_cases("ext", mods, casesf, os.path.join(wd, "run"), c, aak_off=(c == "aak"))
    with concurrent.futures.ThreadPoolExecutor(max_workers=len(configs)) as ex:
        for c, res in zip(configs, ex.map(replay_config, configs)):
            results[c] = res
    for c in configs:
        res = results[c]
        if res is None:
            continue
        mism, stats, done, crashes, dropped = res
        per_config[c] = {"cases": done, "calls": sum(stats.values()), "by_path": stats, "mismatches": len(mism), "crashes": len(crashes),
                         "paths_dropped_after_repeated_crashes": dropped}
        total_calls += sum(stats.values())
        if done != ncases and not crashes:
            core.die("replay %s incomplete: %d of %d" % (c, done, ncases))
        for m in mism:
            rep.disagree(describe(m["case"], m["path"], c), obs_class(m["want"], m["got"]),
                         {"config": c, "path": m["path"], "sig": L.params(L.sig_of_case(m["case"]))[0], "case": m["case"],
                          "want": m["want"], "got": m["got"]})
        if crashes:
            allc = core.read_ndjson(casesf)
            for cr in crashes:
                case = allc[cr["i"]]
                rep.disagree(describe(case, cr.get("path", "?"), c), "crash", {"config": c, "case": case, "crash": cr,
                                                               "sig": L.params(L.sig_of_case(case))[0]})

    phase["replay"] = round(time.time() - t0, 1)
    # ---- binding self-test: corrupted expectations must be rejected by the replay machinery
    if built["main"].get("default") and len(built["main"]["default"]) == len(bld.modules):
        allc = core.read_ndjson(casesf) if ncases <= 400000 else core.read_ndjson(casesf)[:400000]
        pick = rng.sample(allc, 60)
        bad = [corrupt(c, rng) for c in pick]
        stf = os.path.join(wd, "selftest.ndjson")
        core.write_ndjson(stf, bad)
        sm = run_cases("ext", built["main"]["default"], stf, os.path.join(wd, "run"), "selftest")[0]
        rejected = {m["i"] for m in sm if m["path"] == "func"}
        if len(rejected) != len(bad):
            core.die("binding self-test: %d of %d corrupted expectations were accepted" % (len(bad) - len(rejected), len(bad)))
        cov["selftest_corrupted_rejected"] = len(rejected)
        del allc

    cov["phase_end_s"] = phase
    cov.update({
        "states": sum(t["states_generated"] for t in cov["tlc"]),
        "distinct_states": sum(t["distinct_states"] for t in cov["tlc"]),
        "transitions": sum(t["states_generated"] for t in cov["tlc"]),
        "traces_validated_against_impl": ncases * len(per_config),
        "evaluations": total_calls,
        "distinct_nontrivial": nontrivial,
        "exhaustive": True, "cases_exhaustive_families": nbfs, "cases_simulated_family": len(sim_cases),
        "signatures": len(sigs), "signatures_with_tp_call_class": len(call_sigs),
        "cases": ncases, "case_classes": classes, "key_kinds": kinds_seen, "action_coverage": actions,
        "configs": per_config, "cpython_oracle_calls": sum(pstats.values()),
        "rule": "every state of spec/ArgBind.tla within the cfg bounds is one (signature, call) case; each is executed through every "
                "applicable call path in every built configuration; non-trivial = distinct case whose call carries at least one argument",
        "samples": samples or [render(json.loads(open(casesf).readline()))],
    })
    rc = rep.finish()
    cov["known_findings"] = rep.kf_summary()
    core.write_evidence(PROP, tier, seed, "model_checking", cov, time.time() - t0,
                        assumptions=["default values, positional and keyword values are distinct small ints; parameters are untyped objects",
                                     "str subclass keys do not override __eq__/__hash__",
                                     "always_allow_keywords=False: one-argument functions reject keywords by documented design (TypeError expected)",
                                     "the cdef classes with __call__ (tp_call slot) cover a seeded sample of the signatures (72 quick / 240 thorough)"],
                        violations=rep.n_violations())
    return rc


def replay(path, seed):
    """Re-run the cases of a replay file (written by Reporter) on freshly built modules."""
    rec = json.load(open(path))
    details = [d for d in rec.get("cases", []) if isinstance(d, dict) and "case" in d]
    if not details:
        core.die("no replayable cases in %s" % path)
    cases = [d["case"] for d in details]
    configs = sorted({d.get("config") for d in details if d.get("config") in CONFIGS}) or ["default"]
    sigs = sorted({L.sig_of_case(c) for c in cases})
    wd = core.subdir("c24r")
    bld = Builder(wd, 8)
    bld.add_sigs("r", sigs, sigs)
    built = bld.build(configs)
    for e in bld.errors:
        print("build failed: %s %s\n%s" % (e["stage"], e["module"], e["errors"][-1500:]))
    casesf = os.path.join(wd, "cases.ndjson")
    core.write_ndjson(casesf, cases)
    bad = 1 if bld.errors else 0
    for c in configs:
        if len(built[c]) != len(bld.modules):
            continue
        mism, stats, done, crashes, _ = run_cases("ext", built[c], casesf, os.path.join(wd, "run"), c, aak_off=(c == "aak"))
        for m in mism:
            bad = 1
            print("config=%s path=%s def f(%s)  positional=%d keywords=%r  expected %r  got %r" % (
                c, m["path"], L.params(L.sig_of_case(m["case"]))[0], m["case"][6], m["case"][7], m["want"], m["got"]))
        for cr in crashes:
            bad = 1
            print("config=%s crash %r in case %r" % (c, cr, cases[cr["i"]] if cr["i"] < len(cases) else None))
    print("replay: %s" % ("disagreement reproduced" if bad else "all cases agree with the spec"))
    return bad
