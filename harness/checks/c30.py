"""C30 — cdef dataclasses behave like standard dataclasses.

spec/Dataclass.tla: PEP 557 / Lib/dataclasses.py as reference (definition-time errors, __init__
signature and argument binding, defaults / factories / class-attribute fallback, repr, tuple
comparison, the __hash__ action table, frozen, __match_args__) plus a transcription of
Cython/Compiler/Dataclass.py; the configurations where the transcription differs carry *hazards*.
TLC: (1) slices of the option lattice exhaustively (tables total and conflict-free, order laws,
transcription == reference exactly off the hazards); (2) for configurations sampled from the full
product (systematic one/two-option variations + seeded random points, <= 5 fields) every history
of operations up to the bound, with the expected observation vector after every step.
Binding B1: the sampled classes are rendered as `@dataclass cdef class` (batched; a class Cython
reports an error in counts as rejected and the rest is rebuilt) and as stdlib dataclasses; every
leaf history is replayed on both.  S (spec) vs P (stdlib) must agree everywhere (else exit 2);
C (compiled) vs S is the verdict.  Observations that read an attribute which does not exist in
Python (init=False without default) carry no demand on the compiled class.
"""
import concurrent.futures
import json
import os
import random
import sys
import time

import core
import lib_dataclass as L

PROP = "C30"
JOBS = int(os.environ.get("C30_JOBS", "0")) or min(8, core.NCPU)


def _tlc(cfgname, env=None, timeout=3000, workers=None):
    return core.tlc("Dataclass", cfg="Dataclass_" + cfgname, workers=workers or max(2, JOBS // 2), env=env, timeout=timeout, heap="3g")


def classify_want(w):
    if isinstance(w, str) and (w.startswith("E:") or w == "ok"):
        return w
    return "value"


def obs_class(aspect, want, got):
    if isinstance(got, str) and got.startswith("E:"):
        return "exception:" + got[2:]
    if aspect in ("new", "set", "del", "fill", "setself") and got == "ok":
        return "accepted"
    return "wrong-value"


def want_intro(c, r):
    return {"is_dataclass": True, "params": dict(r["intro"]["params"]),
            "fields": [dict(f, name=L.NAMES[k]) for k, f in enumerate(r["intro"]["fields"])]}


def intro_diff(want, got):
    """-> list of (what, want, got) for every differing part of the introspection record"""
    if not isinstance(got, dict):
        return [("introspection", "record", got)]
    out = []
    if got.get("is_dataclass") is not True:
        out.append(("is_dataclass", True, got.get("is_dataclass")))
    for k, v in want["params"].items():
        if got["params"].get(k) != v:
            out.append(("params." + k, v, got["params"].get(k)))
    if [f["name"] for f in got["fields"]] != [f["name"] for f in want["fields"]]:
        out.append(("field-names", [f["name"] for f in want["fields"]], [f["name"] for f in got["fields"]]))
    else:
        for fw, fg in zip(want["fields"], got["fields"]):
            for k in ("init", "repr", "cmp", "hash", "dflt"):
                if fw[k] != fg[k]:
                    out.append(("field." + k, fw[k], fg[k]))
    return out


def run(tier, seed):
    t0 = time.time()
    rng = random.Random(seed)
    rep = core.Reporter(PROP)
    quick = tier == "quick"
    cov = {"tlc": []}
    wd = core.subdir("c30")

    # ---- configurations for the replay, classified by the spec
    cfgs, n_sys = L.sample_configs(rng, 50 if quick else 400, 25 if quick else 100, 10 if quick else 30)
    by_id = {c["id"]: c for c in cfgs}
    casef = os.path.join(wd, "cases.ndjson")
    core.write_ndjson(casef, cfgs)
    t_c = _tlc("cfgonly", env={"CASES": casef}, timeout=900)
    if not t_c.ok:
        sys.stderr.write(t_c.out[-4000:])
        core.die("TLC (classification of the sampled configurations): %s" % (t_c.violation or t_c.rc))
    crec = {r["id"]: r for r in t_c.printed if r.get("kind") == "cfg"}
    if set(crec) != set(by_id):
        core.die("classification incomplete: %d of %d" % (len(crec), len(by_id)))
    cov["tlc"].append(dict(t_c.summary(), config="cases, MaxLen=0: classification of %d sampled configurations" % len(cfgs)))
    bares = {i: r["bare"] for i, r in crec.items()}
    hz = {i: ",".join(r["hz"]) for i, r in crec.items()}
    ok_ids = [i for i in by_id if crec[i]["deferr"] == "none" and "field-kw-only" not in crec[i]["hz"]]
    kwo_ids = [i for i in by_id if crec[i]["deferr"] == "none" and "field-kw-only" in crec[i]["hz"]]
    err_ids = [i for i in by_id if crec[i]["deferr"] != "none"]
    if len(ok_ids) < 40 or len(err_ids) < 10 or not kwo_ids:
        core.die("degenerate sample: %d ok, %d error, %d field-kw-only" % (len(ok_ids), len(err_ids), len(kwo_ids)))

    # ---- model checking and builds, side by side
    per_mod = 32 if quick else 45
    groups = []
    for k in range(0, len(ok_ids), per_mod):
        groups.append(("ok%d" % (k // per_mod), ok_ids[k:k + per_mod], False))
    for k in range(0, len(kwo_ids), 25):
        groups.append(("kwo%d" % (k // 25), kwo_ids[k:k + 25], False))
    for k in range(0, len(err_ids), 20):
        groups.append(("err%d" % (k // 20), err_ids[k:k + 20], True))
    lattice = [("sig2", "sig slice (init/kw_only x default/factory/init/kw_only fields), <= 2 fields, every call shape"),
               ("flags1", "flags slice (64 option sets x repr/compare/hash field flags), 1 field, histories <= 2"),
               ("deferr2", "definition-error slice (init/eq/order x 5 default kinds x init/kw_only/repr), <= 2 fields")]
    if not quick:
        lattice += [("sig3", "sig slice, <= 3 fields"), ("flags1all", "flags slice, all 256 option sets, 1 field, histories <= 3"),
                    ("flags2", "flags slice, 64 option sets, <= 2 fields"), ("deferr2all", "definition-error slice incl. kw_only/match_args, call shapes")]
    # thorough: deeper histories for the systematic configurations
    deep_ids = set() if quick else {c["id"] for c in cfgs[:26]}
    case_runs = [("cases3", [c for c in cfgs if c["id"] not in deep_ids and c["id"] not in err_ids])]
    if deep_ids:
        case_runs.append(("cases4", [c for c in cfgs if c["id"] in deep_ids and c["id"] not in err_ids]))
    futs = {}
    bdir = core.subdir("c30build")
    core.snapshot()
    with concurrent.futures.ThreadPoolExecutor(max_workers=max(2, JOBS // 2)) as ex:
        for name, sub in case_runs:
            f = os.path.join(wd, name + ".ndjson")
            core.write_ndjson(f, sub)
            futs[("cases", name)] = ex.submit(_tlc, name, {"CASES": f})
        for name, _ in lattice[3:]:       # the long ones first
            futs[("lattice", name)] = ex.submit(_tlc, name)
        for name, ids, cy_only in groups:
            futs[("build", name)] = ex.submit(L.build_with_rejects, "c30" + name, [by_id[i] for i in ids], bares, bdir, cy_only)
        for name, _ in lattice[:3]:
            futs[("lattice", name)] = ex.submit(_tlc, name)
        res = {k: f.result() for k, f in futs.items()}

    hists = []
    for name, sub in case_runs:
        r = res[("cases", name)]
        if not r.ok:
            sys.stderr.write(r.out[-4000:])
            core.die("TLC %s: %s" % (name, r.violation or r.rc))
        hists += [x for x in r.printed if x.get("kind") == "hist"]
        cov["tlc"].append(dict(r.summary(), config="%s: all histories of %d sampled configurations" % (name, len(sub))))
    for name, what in lattice:
        r = res[("lattice", name)]
        if not r.ok:
            sys.stderr.write(r.out[-4000:])
            core.die("TLC lattice run %s: %s" % (name, r.violation or r.rc))
        cov["tlc"].append(dict(r.summary(), config="lattice %s: %s" % (name, what)))
    # vacuity guard on what the model produced
    opc, resc, kinds = {}, {}, {}
    for h in hists:
        for st in h["h"]:
            opc[st["op"]] = opc.get(st["op"], 0) + 1
            resc[st["res"]] = resc.get(st["res"], 0) + 1
            for key in ("r", "h", "m"):
                for o in st["obs"][key]:
                    kinds[key + ":" + o["k"]] = kinds.get(key + ":" + o["k"], 0) + 1
            for key in ("eq", "lt"):
                for ch in st["obs"][key]:
                    kinds[key + ":" + ch] = kinds.get(key + ":" + ch, 0) + 1
    need = ["new", "set", "del", "fill", "setself"]
    needk = ["r:default", "r:fields", "r:unset", "h:unhashable", "h:identity", "h:tuple", "m:captures", "m:absent",
             "eq:T", "eq:F", "lt:T", "lt:F", "lt:E", "eq:U"]
    miss = [o for o in need if not opc.get(o)] + [k for k in needk if not kinds.get(k)] + \
           [r for r in ("ok", "TypeError", "FrozenInstanceError") if not resc.get(r)]
    if miss:
        core.die("vacuous model output: never produced %s" % miss)
    hz_classes = {}
    for i in by_id:
        for h in crec[i]["hz"]:
            hz_classes[h] = hz_classes.get(h, 0) + 1
    if len(hz_classes) < 7:
        core.die("sample does not reach every hazard class: %s" % hz_classes)

    # ---- child inputs
    histf = os.path.join(wd, "hists.ndjson")
    core.write_ndjson(histf, hists)
    child_cases = []
    for c in cfgs:
        r = crec[c["id"]]
        child_cases.append({"id": c["id"], "f": c["f"], "std": r["std"], "hashf": r["hashf"],
                            "pysrc": "\n".join(L.render_class(c, r["bare"], False)) + "\n"})
    ccasef = os.path.join(wd, "child_cases.ndjson")
    core.write_ndjson(ccasef, child_cases)
    pdir = os.path.join(wd, "py")
    os.makedirs(pdir, exist_ok=True)
    with open(os.path.join(pdir, "prelude.py"), "w") as f:
        f.write(L.PRELUDE_PY)

    def child(mode, moddir, modname, cf, hf, out, strict, timeout=3000):
        ch = core.run_child(L.CHILD, [mode, moddir, modname, cf, hf, out, "1" if strict else "0"], timeout=timeout)
        if ch.rc != 0 or not os.path.exists(out):
            return ch, None
        with open(out) as f:
            return ch, json.load(f)

    # ---- P: the stdlib must agree with the spec on everything
    ch, pres = child("py", pdir, "-", ccasef, histf, os.path.join(wd, "p.json"), True)
    if pres is None:
        core.die("stdlib replay failed: rc=%s %s" % (ch.rc, ch.err[-2000:]))
    for i in by_id:
        if pres["deferr"].get(str(i)) != crec[i]["deferr"]:
            rep.spec_drift("definition-time outcome: spec vs dataclasses", {"cfg": by_id[i], "spec": crec[i]["deferr"], "stdlib": pres["deferr"].get(str(i))})
        elif crec[i]["deferr"] == "none":
            want = [L.NAMES[k - 1] for k in crec[i]["margs"]["v"]] if crec[i]["margs"]["k"] == "names" else "absent"
            if pres["match_args"].get(str(i)) != want:
                rep.spec_drift("__match_args__: spec vs dataclasses", {"cfg": by_id[i], "spec": want, "stdlib": pres["match_args"].get(str(i))})
            d = intro_diff(want_intro(by_id[i], crec[i]), pres["intro"].get(str(i)))
            if d:
                rep.spec_drift("introspection: spec vs dataclasses", {"cfg": by_id[i], "diff": d})
    for b in pres["bad"][:20]:
        rep.spec_drift("history: spec vs dataclasses", {"cfg": by_id[hists[b["hist"]]["id"]], "bad": b,
                                                        "history": [[s["op"], s["i"], s["a"], s["kw"], s["s"]] for s in hists[b["hist"]]["h"]]})
    if rep.drift:
        rc = rep.finish()
    cov["stdlib_replay"] = pres["counts"]

    # ---- C: definition-time outcomes
    rejected, accepted, builds = {}, set(), []
    for name, ids, cy_only in groups:
        bb, rj, acc, problems = res[("build", name)]
        builds += bb
        rejected.update(rj)
        accepted.update(c["id"] for c in acc)
        for p in problems:
            if p["stage"] == "timeout":
                core.die("build of module %s timed out (machinery, not a verdict)" % name)
            rep.disagree({"aspect": "build", "stage": p["stage"], "hazards": ",".join(sorted({hz[i] for i in p["ids"]}))[:200]},
                         "build-failed", {"errors": p["errors"], "ids": p["ids"][:20]})
    n_def = 0
    for i, c in by_id.items():
        want = crec[i]["deferr"]
        if i in rejected:
            n_def += 1
            if want == "none":
                rep.disagree({"aspect": "define", "expected": "ok", "hazards": hz[i]}, "compile-error",
                             {"cfg": c, "source": "\n".join(L.render_class(c, bares[i], True)), "error": rejected[i]})
        elif i in accepted:
            n_def += 1
            if want != "none":
                rep.disagree({"aspect": "define", "expected": "E:" + want, "hazards": hz[i]}, "accepted",
                             {"cfg": c, "source": "\n".join(L.render_class(c, bares[i], True)), "stdlib": want})

    # ---- C: replay on every built module
    def run_mod(bc):
        b, mcfgs = bc
        ids = {c["id"] for c in mcfgs}
        cf = os.path.join(wd, b.name + "_cases.ndjson")
        core.write_ndjson(cf, [c for c in child_cases if c["id"] in ids])
        return child("so", os.path.dirname(b.so), b.name, cf, histf, os.path.join(wd, b.name + ".json"), False)

    n_hist = n_checks = n_steps = n_skip = 0
    nontrivial = 0
    replayed_ids = set()
    with concurrent.futures.ThreadPoolExecutor(max_workers=max(2, JOBS // 2)) as ex:
        cres = list(ex.map(run_mod, builds))
    for (b, mcfgs), (ch, r) in zip(builds, cres):
        if r is None:
            rep.disagree({"aspect": "run", "hazards": ""}, "crash" if ch.crashed else "error",
                         {"module": b.name, "rc": ch.rc, "signal": ch.signal, "stderr": ch.err[-2000:], "ids": [c["id"] for c in mcfgs][:40]})
            continue
        n_hist += r["counts"]["hist"]
        n_checks += r["counts"]["checks"]
        n_steps += r["counts"]["steps"]
        n_skip += r["counts"]["skipped_unset"]
        replayed_ids.update(r["classes"])
        for cid in r["classes"]:
            want = [L.NAMES[k - 1] for k in crec[cid]["margs"]["v"]] if crec[cid]["margs"]["k"] == "names" else "absent"
            got = r["match_args"].get(str(cid))
            if got != want:
                rep.disagree({"aspect": "match_args", "op": "static", "expected": "absent" if want == "absent" else "value", "hazards": hz[cid],
                              "classattr_default_live": False},
                             obs_class("match_args", want, got), {"cfg": by_id[cid], "want": want, "got": got,
                                                                  "source": "\n".join(L.render_class(by_id[cid], bares[cid], True))})
            n_checks += 1
            for what, w, g in intro_diff(want_intro(by_id[cid], crec[cid]), r["intro"].get(str(cid))):
                rep.disagree({"aspect": "introspection", "op": "static", "what": what, "expected": "value", "hazards": hz[cid],
                              "classattr_default_live": False}, "wrong-value",
                             {"cfg": by_id[cid], "what": what, "want": w, "got": g,
                              "source": "\n".join(L.render_class(by_id[cid], bares[cid], True))})
        for bd in r["bad"]:
            h = hists[bd["hist"]]
            st = h["h"][bd["step"]] if bd["step"] >= 0 else {"op": "?", "live": False}
            cid = h["id"]
            desc = {"aspect": bd["aspect"], "op": st["op"], "expected": classify_want(bd["want"]), "hazards": hz[cid],
                    "classattr_default_live": bool(st.get("live"))}
            rep.disagree(desc, obs_class(bd["aspect"], bd["want"], bd["got"]),
                         {"cfg": by_id[cid], "source": "\n".join(L.render_class(by_id[cid], bares[cid], True)),
                          "history": [[s["op"], s["i"], s["a"], s["kw"], s["s"], s["res"]] for s in h["h"]], "step": bd["step"],
                          "want": bd["want"], "got": bd["got"]})
    nontrivial = sum(1 for h in hists if h["id"] in replayed_ids and any(s["res"] == "ok" for s in h["h"]))

    # ---- binding demonstration: corrupted expectations must be rejected
    demo = {"tried": 0, "rejected": 0}
    clean = [c for b, mc in builds for c in mc if not hz[c["id"]]]
    if builds and clean:
        pick = {c["id"] for c in clean[:12]}
        hb = [h for h in hists if h["id"] in pick and h["h"][-1]["res"] == "ok" and h["h"][-1]["obs"]["v"] and h["h"][-1]["obs"]["v"][0]
              and h["h"][-1]["op"] != "setself"]
        hb = core.sample(hb, 24, rng)
        corrupted = []
        for k, h in enumerate(hb):
            h2 = json.loads(json.dumps(h))
            o = h2["h"][-1]["obs"]
            if k % 3 == 0:
                o["v"][0][0] = (o["v"][0][0] + 1) % 3 if o["v"][0][0] in (0, 1, 2) else 0
            elif k % 3 == 1:
                o["eq"] = o["eq"].translate({ord("T"): "F", ord("F"): "T"})
            else:
                h2["h"][-1]["res"] = "TypeError" if h2["h"][-1]["res"] == "ok" else "ok"
            corrupted.append(h2)
        cf2 = os.path.join(wd, "corrupt.ndjson")
        core.write_ndjson(cf2, corrupted)
        hit = set()
        for b, mcfgs in builds:
            if not ({c["id"] for c in mcfgs} & {h["id"] for h in corrupted}):
                continue
            cf = os.path.join(wd, b.name + "_cases.ndjson")
            ch, r = child("so", os.path.dirname(b.so), b.name, cf, cf2, os.path.join(wd, b.name + "_corrupt.json"), False)
            if r is None:
                core.die("binding demonstration child failed: %s" % ch.err[-1000:])
            hit.update(x["hist"] for x in r["bad"])
        demo = {"tried": len(corrupted), "rejected": len(hit)}
        if len(hit) != len(corrupted) or not corrupted:
            core.die("binding self-test failed: %d of %d corrupted histories rejected" % (len(hit), len(corrupted)))

    tl_all = [t_c] + [res[k] for k in res if k[0] in ("cases", "lattice")]
    smp = core.sample([h for h in hists if h["id"] in replayed_ids and len(h["h"]) >= 2], 3, rng)
    cov.update({
        "states": sum(t.generated for t in tl_all), "distinct_states": sum(t.distinct for t in tl_all),
        "transitions": sum(t.generated for t in tl_all),
        "traces_validated_against_impl": n_hist, "evaluations": n_checks, "distinct_nontrivial": nontrivial,
        "steps_replayed": n_steps, "observations_without_demand": n_skip,
        "configurations": {"sampled": len(cfgs), "systematic": n_sys, "definition_ok": len(ok_ids), "field_kw_only": len(kwo_ids),
                           "definition_error": len(err_ids), "definition_outcomes_compared": n_def, "classes_replayed": len(replayed_ids),
                           "modules": len(builds)},
        "model_ops": opc, "model_results": resc, "model_observation_kinds": kinds, "hazard_classes_in_sample": hz_classes,
        "binding_demo": demo, "exhaustive": False,
        "rule": "lattice slices exhaustive in TLC; replay on systematic one/two-option variations of a 3-field class, single field-flag "
                "variations and seeded random points of the full product (<= 5 fields, 4 field types); per class every call shape "
                "(positional count x keyword sets of <= MaxKw names) and every history up to MaxLen over new/set/del/fill/setself; "
                "non-trivial = history replayed on compiled code that constructs at least one instance",
        "samples": [{"class": "\n".join(L.render_class(by_id[h["id"]], bares[h["id"]], True)),
                     "history": [[s["op"], s["i"], s["a"], s["kw"], s["s"], s["res"]] for s in h["h"]],
                     "expected_last": {k: h["h"][-1]["obs"][k] for k in ("v", "eq", "lt")}} for h in smp],
    })
    rc = rep.finish()
    cov["known_findings"] = rep.kf_summary()
    core.write_evidence(PROP, tier, seed, "model_checking", cov, time.time() - t0,
                        assumptions=["field values are totally ordered, hashable Python values of one type per field (C long / C double / str / 1-tuples); "
                                     "type checks of typed fields are outside the property",
                                     "an attribute that does not exist in Python (init=False without default) has no demanded value on the "
                                     "extension type (C slots always exist)",
                                     "definition-time exceptions of the stdlib correspond to compile errors attributed to the class's source lines",
                                     "inheritance, InitVar/ClassVar, __post_init__, slots and user-defined special methods are not generated"],
                        violations=rep.n_violations())
    return rc
