"""C25 -- compiled functions report faithful names and signatures.

spec/Signature.tla, mode "expr": default-value expressions as trees built node by node (TLC states); the
reference printer follows Python's grammar and TLC decides Parse(Print(e)) = e; an implementation-shaped
transcription of CodeWriter.ExpressionWriter (as repaired for KF-C25-1..6) predicts which trees the embedded
signature gets wrong and TLC decides that every such tree carries a catalogued root cause (only "inlist" is
left; the six repaired classes -- one-element tuples, comparison chains, same-precedence operands, conditional
expressions, primary bases, negative bases of ** -- stay as tags: replay strata + vacuity).  The model's text is
also compared with the real text token by token (evidence counters).  Mode "sig": parameter lists x nesting
paths with QualName(path).
Binding B1: every published case is rendered as source (defaults in module, class and nested scopes; functions
on every nesting path), compiled with binding=True / embedsignature (formats python, c, clinic) and observed in
a child process: inspect.signature (names, kinds, default values), __name__/__qualname__/__module__/__doc__,
and the embedded signature text, parsed by CPython's `ast` and compared with the specification's TREE in
semantic normal form (not with a string).  S = tree from TLC (value: the tree evaluated by CPython's
evaluator), P = the same source exec'ed by CPython + ast.parse of the reference text, C = compiled module.
"""
import ast
import inspect
import json
import os
import random
import sys
import time

import warnings

import core
import lib_signature as L

warnings.filterwarnings("ignore", category=SyntaxWarning)

PROP = "C25"

# n_expr: trees replayed per format; n_sig: signature/nesting cases (all in the python build, every 2nd / 3rd in the c / plain builds)
QUICK = {"cfgs": [("Signature_quick", 600)],
         "fe_fmts": ["python"], "n_expr": {"python": 800}, "n_sig": 80, "per_fn": 10, "per_mod": 200, "jobs": None}
THOROUGH = {"cfgs": [("Signature_t2", 3000), ("Signature_t3", 3000)],
            "fe_fmts": ["python", "c"], "n_expr": {"python": 3000, "c": 1000}, "n_sig": 300, "per_fn": 10, "per_mod": 150, "jobs": None}

SIG_DEFAULTS = ["100", "'s'", "None", "(1, 2)", "-1.5", "K"]
HAZARD_TAGS = ["assoc", "chain", "cond", "inlist", "negpow", "primary", "tuple1"]     # Tags(e) of the spec: classes at stake
CAUSES = ["inlist"]                 # Causes of the spec: what the current writer still gets wrong (KF-C25-10)
SCOPES = ["module", "class", "nested"]
LAYOUTS = [["pk"] * 10, ["po"] * 3 + ["pk"] * 3 + ["ko"] * 4, ["pk"] * 5 + ["ko"] * 5]


# ---------------------------------------------------------------------------------------------
# model checking

def run_tlc(cfgs, cov):
    out = []
    for cfg, tmo in cfgs:
        r = core.tlc_or_die("Signature", cfg=cfg, timeout=tmo, workers=int(os.environ.get("VERIF_TLC_WORKERS", "0")) or None)
        cov["tlc"].append(dict(r.summary(), config=cfg, published=len(r.printed)))
        out.extend(r.printed)
    return out


def vacuity(expr_cases, sig_cases):
    """Counts of case classes of the MODEL: every constructor kind, every class of Tags alone on a tree the model makes a
    prediction for (a hazard for the root causes left, a faithful text for the repaired classes), every nesting kind and
    parameter kind must occur."""
    kinds = {}

    def walk(e):
        kinds[e["k"]] = kinds.get(e["k"], 0) + 1
        for c in e["c"]:
            walk(c)
    for c in expr_cases:
        walk(c["ast"])
    need = ["name", "num", "atom", "opq", "un", "bin", "bool", "cmp", "cond", "tuple", "list", "dict", "attr", "sub",
            "call", "kw", "slice"]
    miss = [k for k in need if not kinds.get(k)]
    single = {t: sum(1 for c in expr_cases if c["hazard"] and c["tags"] == [t]) for t in CAUSES}
    miss += ["hazard:" + t for t, n in single.items() if not n]
    alone = {t: sum(1 for c in expr_cases if not c["foldish"] and c["tags"] == [t] and c["hazard"] == (t in CAUSES))
             for t in HAZARD_TAGS}
    miss += ["class:" + t for t, n in alone.items() if not n]
    if not any(not c["hazard"] and c["nops"] >= 2 and not c["foldish"] for c in expr_cases):
        miss.append("clean-2-operator-tree")
    pk = {}
    for c in sig_cases:
        for p in c["params"]:
            pk[(p["kind"], p["dflt"])] = 1
        for s in c["path"]:
            pk[s] = 1
        pk[c["leaf"]] = 1
    for k in [("po", True), ("po", False), ("pk", True), ("ko", True), ("ko", False), ("va", False), ("vk", False),
              "fn", "cls", "ccls", "static", "classm", "def"]:
        if k not in pk:
            miss.append("sig:%s" % (k,))
    return kinds, single, alone, miss


# ---------------------------------------------------------------------------------------------
# rendering

def layout_expr_functions(cases, per_fn, rng):
    """-> list of functions: {"fid", "scope", "params": [(name, kind, case)]}"""
    fns = []
    order = list(cases)
    rng.shuffle(order)
    for i in range(0, len(order), per_fn):
        chunk = order[i:i + per_fn]
        j = len(fns)
        lay = LAYOUTS[j % len(LAYOUTS)]
        # kinds must stay ordered when the chunk is short
        kinds = lay[:len(chunk)]
        fns.append({"fid": "e%d" % j, "scope": SCOPES[(j // len(LAYOUTS)) % len(SCOPES)],
                    "params": [("q%d_" % k, kinds[k], c) for k, c in enumerate(chunk)]})
    return fns


def render_expr_fn(g, fn):
    plist = [(n, k, c["src"]) for n, k, c in fn["params"]]
    fid = fn["fid"]
    doc = "    %r" % ("doc of " + fid)
    if fn["scope"] == "module":
        g.add(fid, ["def %s(%s):" % (fid, L.render_params(plist)), doc], [("attr", fid)])
    elif fn["scope"] == "class":
        g.add(fid, ["class C_%s:" % fid,
                    "    def %s(%s):" % (fid, L.render_params([("self", "po" if plist[0][1] == "po" else "pk", None)] + plist)),
                    "    " + doc], [("attr", "C_" + fid), ("attr", fid)])
    else:
        g.add(fid, ["def o_%s():" % fid, "    def %s(%s):" % (fid, L.render_params(plist)), "    " + doc,
                    "    return " + fid], [("attr", "o_" + fid), ("call",)])


def sig_plist(case):
    path, leaf = case["path"], case["leaf"]
    in_class = bool(path) and path[-1] in ("cls", "ccls")
    first = "self" if (in_class and leaf == "def") else ("cls" if leaf == "classm" else None)
    has_po = any(p["kind"] == "po" for p in case["params"])
    pl = []
    if first:
        pl.append((first, "po" if has_po else "pk", None))
    for i, p in enumerate(case["params"]):
        pl.append(("q%d_" % i, p["kind"], SIG_DEFAULTS[i % len(SIG_DEFAULTS)] if p["dflt"] else None))
    return pl


def render_sig_case(g, cid, case):
    sfx = "_c%d" % cid
    path, leaf = case["path"], case["leaf"]
    names = [("f%d" % (i + 1) if s == "fn" else "C%d" % (i + 1)) + sfx for i, s in enumerate(path)]
    leafname = "m" + sfx
    doc = L.DOCS[cid % len(L.DOCS)]
    lines = []
    for i, (s, nm) in enumerate(zip(path, names)):
        ind = "    " * i
        if s == "fn" and i > 0 and path[i - 1] == "ccls":
            lines.append(ind + "@staticmethod")      # a def in a cdef class needs `self` otherwise
        lines.append(ind + {"fn": "def %s():", "cls": "class %s:", "ccls": "cdef class %s:"}[s] % nm)
    ind = "    " * len(path)
    if leaf == "static":
        lines.append(ind + "@staticmethod")
    elif leaf == "classm":
        lines.append(ind + "@classmethod")
    lines.append(ind + "def %s(%s):" % (leafname, L.render_params(sig_plist(case))))
    lines.append(ind + "    " + (L.doc_literal(doc) if doc is not None else "pass"))
    for i in reversed(range(len(path))):
        if path[i] == "fn":
            lines.append("    " * (i + 1) + "return " + (names[i + 1] if i + 1 < len(path) else leafname))
    acc = [("attr", names[0] if path else leafname)]
    for i in range(len(path)):
        child = names[i + 1] if i + 1 < len(path) else leafname
        acc.append(("call",) if path[i] == "fn" else ("attr", child))
    g.add("s%d" % cid, lines, acc)
    return {"doc": doc, "leafname": leafname, "cls": names[-1] if (path and path[-1] != "fn") else None,
            "qualname": ".".join(x if x == "<locals>" else x + sfx for x in case["qualname"])}


def expected_sig(case, ns):
    """S: what inspect.signature must report, from the specification's case."""
    pl = sig_plist(case)
    if case["leaf"] == "classm":
        pl = pl[1:]        # a bound method
    return [[n, k, None if d is None else ns["canon"](eval(d, ns))] for n, k, d in pl]


# ---------------------------------------------------------------------------------------------
# building and observing

class Mod(object):
    def __init__(self, name, gen, directives, tag):
        self.name, self.gen, self.directives, self.tag = name, gen, directives, tag
        self.build = None
        self.dropped = {}          # fid -> compiler message


def build_modules(mods, wd, jobs, rep):
    """Build; a module that the compiler rejects is rebuilt once without the functions the messages point at."""
    import re

    def specs(ms):
        return [core.BuildSpec(m.name, m.gen.pyx(), directives=m.directives) for m in ms]
    res = core.build_many(specs(mods), workdir=wd, jobs=jobs, timeout=1800)
    retry = []
    for m, b in zip(mods, res):
        m.build = b
        if b.ok or b.stage != "cython":
            continue
        bad = {}
        for line in (b.errors or "").split("\n"):
            mm = re.search(r"%s\.pyx:(\d+):(\d+): ([^\n]*)" % re.escape(m.name), line)
            if mm and not line.startswith("warning:"):
                bad.setdefault(int(mm.group(1)), mm.group(3))
        if not bad:
            continue
        g2 = BlockGen()
        line_no = len(g2.lines) + 1
        for fid, lines, acc in m.gen.blocks:
            hit = [bad[x] for x in range(line_no, line_no + len(lines) + 1) if x in bad]
            line_no += len(lines) + 1
            if hit:
                m.dropped[fid] = hit[0]
            else:
                g2.add(fid, lines, acc["path"])
        if m.dropped:
            m.gen = g2
            retry.append(m)
    if retry:
        res2 = core.build_many(specs(retry), workdir=os.path.join(wd, "retry"), jobs=jobs, timeout=1800)
        for m, b in zip(retry, res2):
            m.build = b
    return mods


class BlockGen(L.Gen):
    def __init__(self):
        L.Gen.__init__(self)
        self.blocks = []

    def add(self, fid, lines, path):
        L.Gen.add(self, fid, lines, path)
        self.blocks.append((fid, list(lines), self.acc[-1]))


def observe(modname, moddir, acc, ext, wd, timeout=900):
    """Run the observer child; restart after a crash.  -> {fid: record}"""
    os.makedirs(wd, exist_ok=True)
    if not os.path.exists(os.path.join(moddir, "symh.py")):
        with open(os.path.join(moddir, "symh.py"), "w") as f:
            f.write(L.SYMH)
    recs = {}
    todo = list(acc)
    crashes = 0
    while todo:
        accf = os.path.join(wd, "%s_acc%d.json" % (modname, crashes))
        with open(accf, "w") as f:
            json.dump(todo, f)
        ch = core.run_child(L.OBSERVER, [modname, accf, "1" if ext else "0"], paths=[moddir], timeout=timeout)
        got = ch.json_lines()
        fatal = [j for j in got if "fatal" in j]
        if fatal:
            core.die("observer: %s" % fatal[0]["fatal"])
        for r in got:
            recs[r["id"]] = r
        if ch.rc == 0:
            break
        if not (ch.crashed or ch.timed_out):
            if not ext:
                core.die("CPython twin of %s failed: %s" % (modname, ch.err[-2000:]))
            # import-time exception of the compiled module: every function is unobservable
            for a in todo:
                recs.setdefault(a["id"], {"id": a["id"], "error": "module failed: " + ch.err.strip().split("\n")[-1][:300]})
            break
        done = {r["id"] for r in got}
        rest = [a for a in todo if a["id"] not in done]
        if not rest:
            break
        recs[rest[0]["id"]] = {"id": rest[0]["id"], "crash": "TIMEOUT" if ch.timed_out else "CRASH:%d" % ch.signal}
        core.CRASH_LOGS.append({"call": [modname, rest[0]["id"]], "stderr": ch.err[-2000:]})
        todo = rest[1:]
        crashes += 1
        if crashes > 5:
            break
    return recs


def frontend_docs(cases, fmt, wd, tag, per_fn=10, per_file=300):
    """Render ALL cases as module-level functions and run the real front end up to EmbedSignature on them (child
    processes, no code generation).  -> list of jobs (callable returning [(function, docs-or-None)])"""
    os.makedirs(wd, exist_ok=True)
    fns = []
    for i in range(0, len(cases), per_fn):
        chunk = cases[i:i + per_fn]
        fns.append({"fid": "g%d" % (i // per_fn), "params": [("q%d_" % k, "pk" if k < 5 else "ko", c) for k, c in enumerate(chunk)]})
    jobs_ = []
    dirs = {"binding": True, "embedsignature": True, "embedsignature.format": fmt}
    for fi in range(0, len(fns), per_file):
        part = fns[fi:fi + per_file]
        lines = ["# cython: language_level=3", "from symh import K, L, M", ""]
        for fn in part:
            lines.append("def %s(%s):" % (fn["fid"], L.render_params([(n, k, c["src"]) for n, k, c in fn["params"]])))
            lines.append("    'd'")
        path = os.path.join(wd, "c25fe_%s_%s%d.pyx" % (tag, fmt, fi // per_file))
        with open(path, "w") as f:
            f.write("\n".join(lines) + "\n")

        def job(path=path, part=part):
            outf = path[:-4] + ".json"
            ch = core.run_child(L.FRONTEND, [path, json.dumps(dirs), outf], with_snapshot=True, cwd=wd, timeout=1800)
            if ch.rc != 0 or not os.path.exists(outf):
                return part, None, (ch.err or ch.out)[-1500:]
            with open(outf) as f:
                return part, json.load(f), ""
        jobs_.append(job)
    return jobs_


# ---------------------------------------------------------------------------------------------
# comparison

NS = L.sym_namespace()
BY_VALUE = []


def check_embedded_default(case, text):
    """C text of one default vs the specification's tree.  -> None or (obs_class, detail)"""
    try:
        c_ast = ast.parse("(" + text + ")", mode="eval").body if text.strip() else None
    except (SyntaxError, ValueError) as ex:
        return "embed-unparseable", {"text": text, "error": str(ex)[:100]}
    if c_ast is None:
        return "embed-unparseable", {"text": text}
    if L.sem_equal(case["s_norm"], L.norm(c_ast)) or (not case["has_opq"] and L.sem_equal(case["s_norm"], L.norm(c_ast, True))):
        return None
    if case["foldish"] and not case["has_opq"]:
        # the compiler folded constants in a way the normal form does not know (e.g. `(1).real`): the text is still the
        # same default if CPython computes the same value from it (operands record every operation applied to them)
        try:
            if L.eval_default(c_ast, dict(NS)) == case["s_val"]:
                BY_VALUE.append(text)
                return None
        except Exception:
            pass
    return "embed-mismatch", {"text": text, "parses_as": ast.unparse(c_ast)}


# leaves whose source text the writer reproduces verbatim (other literals are re-spelled: 0x1F, 1_000, 'ab' "cd", -0, ...)
VERBATIM = {"K", "L", "M", "i1", "ibig", "f15", "s_a", "None", "True", "False", "Ellipsis", "lambda", "walrus", "fstring"}


def leaves(e, out=None):
    out = set() if out is None else out
    if e["k"] in ("name", "num", "atom", "opq"):
        out.add(e["v"][0])
    for x in e["c"]:
        leaves(x, out)
    return out


def model_text_differs(case, text):
    """The text PI (the transcription of the writer in the specification) prints vs the real text, modulo blanks.
    -> None (no statement: foldable tree / re-spelled literal), False (same), True (differs)"""
    if case["foldish"] or not leaves(case["ast"]) <= VERBATIM:
        return None
    return "".join(L.token_text(t) for t in case["impl"]).replace(" ", "") != text.replace(" ", "")


def bool_index(e):
    """spec-side: some subscript index / slice bound is a bool-typed expression (not x, a comparison, True/False)"""
    def is_bool(x):
        if x["k"] == "bool":
            return any(is_bool(y) for y in x["c"])
        if x["k"] == "cond":
            return is_bool(x["c"][0]) or is_bool(x["c"][2])
        return (x["k"] == "un" and x["v"][0] == "not") or x["k"] == "cmp" or (x["k"] == "atom" and x["v"][0] in ("True", "False"))
    if e["k"] == "sub":
        idx = e["c"][1]
        parts = idx["c"] if idx["k"] == "slice" else [idx]
        if any(is_bool(x) for x in parts):
            return True
    return any(bool_index(x) for x in e["c"])


def expr_desc(case, check, fmt, scope):
    if check == "value":
        return {"part": "expr", "check": check, "fmt": fmt, "scope": scope, "bool_index": bool_index(case["ast"]),
                "top": case["ast"]["k"]}
    return {"part": "expr", "check": check, "fmt": fmt, "scope": scope, "nested": scope == "nested", "tags": "+".join(case["tags"]),
            "predicted": ("unknown" if case["foldish"] else bool(case["hazard"])), "top": case["ast"]["k"]}


def split_doc(doc):
    """(signature line, rest) of a docstring with an embedded signature"""
    if not isinstance(doc, str):
        return None, None
    i = doc.find("\n")
    return (doc, "") if i < 0 else (doc[:i], doc[i:])


def cmp_sig_lists(want, got):
    if isinstance(got, str) or got is None:
        return "signature unavailable: %s" % (got,)
    if [w[:2] for w in want] != [g[:2] for g in got]:
        return "names/kinds %s != %s" % ([w[:2] for w in want], [g[:2] for g in got])
    for w, g in zip(want, got):
        if w[2] != g[2]:
            return "default of %s: %s != %s" % (w[0], w[2], g[2])
    return None


# ---------------------------------------------------------------------------------------------

def run(tier, seed):
    t0 = time.time()
    rng = random.Random(seed)
    rep = core.Reporter(PROP)
    P = QUICK if tier == "quick" else THOROUGH
    jobs = int(os.environ.get("VERIF_JOBS", "0")) or P["jobs"] or min(core.NCPU, 8)
    cov = {"tlc": []}
    ns = NS
    del BY_VALUE[:]

    # ---- model checking: TLC enumerates the cases, decides the invariants, publishes
    phase = {}
    printed = run_tlc(P["cfgs"], cov)
    phase["tlc"] = round(time.time() - t0, 1)
    expr_all, seen = [], set()
    for c in printed:
        if c.get("mode") in ("expr", "lit"):
            key = json.dumps(c["ast"], sort_keys=True)
            if key not in seen:
                seen.add(key)
                expr_all.append(c)
    sig_all = [c for c in printed if c.get("mode") == "sig"]
    kinds, single, alone, miss = vacuity(expr_all, sig_all)
    if miss:
        core.die("vacuity guard: the model never produced %s" % miss)

    # ---- S vs P on every published tree: the reference text, parsed by CPython, is the tree (no drift);
    #      trees whose evaluation raises at definition time are not cases
    n_raise = 0
    expr_ok = []
    for c in expr_all:
        try:
            s_ast = L.node2ast(c["ast"])
        except L.Unknown as ex:
            core.die("specification leaf unknown to the harness: %s" % ex)
        c["src"] = L.tokens_to_source(c["ref"])
        try:
            p_ast = ast.parse("(" + c["src"] + ")", mode="eval").body
        except SyntaxError as ex:
            rep.spec_drift("reference text is not Python", {"src": c["src"], "error": str(ex)})
            continue
        if ast.dump(p_ast) != ast.dump(s_ast):
            rep.spec_drift("Parse(Print(e)) by CPython differs from e", {"src": c["src"], "tree": ast.dump(s_ast)[:300],
                                                                           "cpython": ast.dump(p_ast)[:300]})
            continue
        try:
            c["s_val"] = L.eval_default(s_ast, ns)
        except Exception:
            n_raise += 1
            continue
        c["s_norm"] = L.norm(s_ast, True)       # a literal `...` of the tree is a constant; not printable leaves are not
        c["has_opq"] = '"opq"' in json.dumps(c["ast"])
        expr_ok.append(c)

    # ---- selection for replay: every hazard class and every clean class, sampled (seeded)
    def stratum(c):
        return (tuple(c["tags"]), c["hazard"], c["foldish"], c["ast"]["k"], c["nops"])
    strata = {}
    for c in expr_ok:
        strata.setdefault(stratum(c), []).append(c)
    chosen = []
    keys = sorted(strata, key=repr)
    n_expr = max(P["n_expr"].values())
    quota = max(1, n_expr // max(1, len(keys)))
    left = []
    for k in keys:
        lst = strata[k]
        rng.shuffle(lst)
        chosen += lst[:quota]
        left += lst[quota:]
    rng.shuffle(left)
    chosen += left[:max(0, n_expr - len(chosen))]
    sig_chosen = core.sample(sig_all, P["n_sig"], rng)
    # the cdef-class / module-level cases without nesting can also be built without binding (clinic format)
    for i, c in enumerate(sig_chosen):
        c["cid"] = i

    # ---- render
    wd = core.subdir("c25")
    mods = []
    fns = layout_expr_functions(chosen, P["per_fn"], rng)
    per_mod = P["per_mod"]
    expr_mods = []
    for fmt in sorted(P["n_expr"], reverse=True):
        ffns = fns[:(P["n_expr"][fmt] + P["per_fn"] - 1) // P["per_fn"]]
        for mi in range(0, len(ffns), per_mod):
            g = BlockGen()
            for fn in ffns[mi:mi + per_mod]:
                render_expr_fn(g, fn)
            m = Mod("c25e_%s%d" % (fmt, mi // per_mod), g, {"binding": True, "embedsignature": True,
                                                           "embedsignature.format": fmt}, ("expr", fmt))
            m.fns = ffns[mi:mi + per_mod]
            mods.append(m)
            expr_mods.append(m)
    sig_mods = []
    SIGCFG = [("python", {"binding": True, "embedsignature": True, "embedsignature.format": "python"}, None),
              ("c", {"binding": True, "embedsignature": True, "embedsignature.format": "c"}, lambda c: c["cid"] % 2 == 0),
              ("plain", {"binding": True, "embedsignature": False}, lambda c: c["cid"] % 3 == 0),
              ("clinic", {"binding": False, "embedsignature": True, "embedsignature.format": "clinic"},
               lambda c: c["path"] in ([], ["ccls"]) and c["leaf"] == "def")]
    for tag, dirs, flt in SIGCFG:
        sel = [c for c in sig_chosen if flt is None or flt(c)]
        for ci in range(0, len(sel), 250):
            # a small batch shares the module of the expression cases built with the same directives
            host = next((x for x in expr_mods if x.directives == dirs and not hasattr(x, "meta")
                         and len(x.gen.acc) + len(sel[ci:ci + 250]) <= 320), None)
            g = host.gen if host else BlockGen()
            meta = {}
            for c in sel[ci:ci + 250]:
                meta[c["cid"]] = render_sig_case(g, c["cid"], c)
            m = host or Mod("c25s_%s%d" % (tag, ci // 250), g, dirs, ("sig", tag))
            m.meta = meta
            if not host:
                mods.append(m)
            sig_mods.append(m)

    phase["prepare"] = round(time.time() - t0 - sum(phase.values()), 1)
    import concurrent.futures
    fe_jobs = []
    for fmt in P["fe_fmts"]:
        fe_cases = expr_ok if fmt == "python" else core.sample(expr_ok, 3000, rng)
        fe_jobs += [(fmt, j) for j in frontend_docs(fe_cases, fmt, os.path.join(wd, "fe"), tier)]
    fe_pool = concurrent.futures.ThreadPoolExecutor(max_workers=max(2, jobs // 2))
    fe_futs = [(fmt, fe_pool.submit(j)) for fmt, j in fe_jobs]
    build_modules(mods, os.path.join(wd, "build"), jobs, rep)
    phase["build"] = round(time.time() - t0 - sum(phase.values()), 1)

    n_obs = 0
    n_eval = 0
    nontriv = set()
    samples = []
    stale = {}
    textcmp = {"compared": 0, "differs": []}
    # ---- P: the CPython twins (one per distinct source)
    pydir = os.path.join(wd, "py")
    os.makedirs(pydir, exist_ok=True)
    p_recs = {}
    with open(os.path.join(pydir, "symh.py"), "w") as f:
        f.write(L.SYMH)
    for m in mods:
        with open(os.path.join(pydir, m.name + "_py.py"), "w") as f:
            f.write(m.gen.py())
    import concurrent.futures
    with concurrent.futures.ThreadPoolExecutor(max_workers=jobs) as ex:
        pf = {m.name: ex.submit(observe, m.name + "_py", pydir, m.gen.acc, False, os.path.join(wd, "obs")) for m in mods}
        cf = {m.name: ex.submit(observe, m.name, m.build.dir, m.gen.acc, True, os.path.join(wd, "obs")) for m in mods if m.build.ok}
        p_recs = {k: f.result() for k, f in pf.items()}
        c_recs = {k: f.result() for k, f in cf.items()}

    n_compile_rejects = 0
    rejects = []
    for m in mods:
        b = m.build
        if not b.ok:
            rep.disagree({"part": "build", "module": m.tag[0], "fmt": m.tag[1], "stage": b.stage}, "build-failed",
                         {"module": m.name, "errors": (b.errors or "")[-3000:]})
            continue
        m.c_recs = c_recs[m.name]

    phase["observe"] = round(time.time() - t0 - sum(phase.values()), 1)

    # ---- record validation: the text the real EmbedSignature produces for EVERY valid published tree
    n_fe = 0
    for fmt, fut in fe_futs:
        part, res, err = fut.result()
        if res is None or res.get("errors"):
            rep.disagree({"part": "frontend", "fmt": fmt}, "frontend-failed", {"errors": err or res})
            continue
        for fn in part:
            n_obs += 1
            names = [n for n, _, _ in fn["params"]]
            doc = res["docs"].get(fn["fid"])
            sigline, rest = split_doc(doc)
            parts = L.split_embedded(sigline or "", names) if rest == "\n\nd" else None
            for n, k, c in fn["params"]:
                n_fe += 1
                n_eval += 1
                nontriv.add((c["src"], fmt))
                r_ = ("embed-missing", {"doc": doc}) if parts is None else check_embedded_default(c, parts[n])
                if r_:
                    rep.disagree(dict(expr_desc(c, "embed", fmt, "module"), via="frontend"), r_[0], dict(r_[1], src=c["src"]))
                if not c["foldish"] and bool(r_) != bool(c["hazard"]):
                    stale.setdefault("predicted" if c["hazard"] else "unpredicted", []).append(c["src"])
                td = None if parts is None else model_text_differs(c, parts[n])
                if td is not None:
                    textcmp["compared"] += 1
                    if td:
                        textcmp["differs"].append({"src": c["src"], "fmt": fmt, "real": parts[n],
                                                   "model": " ".join(L.token_text(t) for t in c["impl"])})
    fe_pool.shutdown()
    phase["frontend_wait"] = round(time.time() - t0 - sum(phase.values()), 1)

    # ---- expression cases
    for m in expr_mods:
        if not m.build.ok:
            continue
        fmt = m.tag[1]
        for fn in m.fns:
            fid = fn["fid"]
            names = [n for n, _, _ in fn["params"]]
            if fid in m.dropped:
                # the compiler rejects one of the defaults (valid Python): not a statement about signatures; counted
                n_compile_rejects += 1
                rejects.append({"message": m.dropped[fid], "defaults": [x[2]["src"] for x in fn["params"]]})
                continue
            cr = m.c_recs.get(fid, {"error": "no record"})
            pr = p_recs[m.name].get(fid, {})
            if "crash" in cr or "error" in cr:
                for n, k, c in fn["params"]:
                    rep.disagree(expr_desc(c, "observe", fmt, fn["scope"]), "crash" if "crash" in cr else "unobservable",
                                 {"src": c["src"], "record": cr})
                continue
            n_obs += 1
            # (a) inspect.signature: S (tree evaluated) vs P (CPython's function) vs C
            extra = [["self", "po" if fn["params"][0][1] == "po" else "pk", None]] if fn["scope"] == "class" else []
            want = extra + [[n, k, c["s_val"]] for n, k, c in fn["params"]]
            dp = cmp_sig_lists(want, pr.get("sig"))
            if dp:
                rep.spec_drift("inspect.signature of the CPython twin differs from the specification", {"fn": fid, "diff": dp})
                continue
            got = cr.get("sig")
            if isinstance(got, str) or got is None or [w[:2] for w in want] != [g[:2] for g in got]:
                for n, k, c in fn["params"]:
                    rep.disagree(expr_desc(c, "signature", fmt, fn["scope"]), "sig-mismatch",
                                 {"src": c["src"], "want": [w[:2] for w in want], "got": got if isinstance(got, str) else [g[:2] for g in (got or [])]})
            else:
                for (n, k, c), w, g in zip(fn["params"], want[len(extra):], got[len(extra):]):
                    n_eval += 1
                    if w[2] != g[2]:
                        rep.disagree(expr_desc(c, "value", fmt, fn["scope"]), "default-value-mismatch",
                                     {"src": c["src"], "want": w[2], "got": g[2]})
            # (b) names
            exp_q = {"module": fid, "class": "C_%s.%s" % (fid, fid), "nested": "o_%s.<locals>.%s" % (fid, fid)}[fn["scope"]]
            for at, wv in (("__name__", fid), ("__qualname__", exp_q), ("__module__", m.name)):
                if cr.get(at) != wv:
                    rep.disagree({"part": "names", "attr": at, "scope": fn["scope"], "fmt": fmt}, "name-mismatch",
                                 {"fn": fid, "want": wv, "got": cr.get(at)})
            # (c) embedded text, default by default
            sigline, rest = split_doc(cr.get("__doc__"))
            if cr.get("__doc__") == "doc of " + fid:
                rep.disagree({"part": "expr", "check": "embed", "fmt": fmt, "scope": fn["scope"], "nested": fn["scope"] == "nested"},
                             "embed-missing", {"fn": fid, "doc": cr.get("__doc__")})
                continue
            if sigline is None or rest != "\n\ndoc of " + fid:
                rep.disagree({"part": "doc", "fmt": fmt, "scope": fn["scope"]}, "doc-mismatch",
                             {"fn": fid, "doc": cr.get("__doc__")})
            parts = L.split_embedded(sigline or "", names)
            for n, k, c in fn["params"]:
                n_eval += 1
                nontriv.add((c["src"], fmt))
                if parts is None:
                    res = ("embed-missing", {"sigline": sigline})
                else:
                    res = check_embedded_default(c, parts[n])
                if res:
                    rep.disagree(expr_desc(c, "embed", fmt, fn["scope"]), res[0], dict(res[1], src=c["src"], fn=fid))
                if not c["foldish"] and bool(res) != bool(c["hazard"]):
                    stale.setdefault("predicted" if c["hazard"] else "unpredicted", []).append(c["src"])
                if len(samples) < 4 and (res or rng.random() < 0.002):
                    samples.append({"default": c["src"], "embedded": parts[n] if parts else None, "tags": c["tags"],
                                    "model_predicts_hazard": c["hazard"], "verdict": res[0] if res else "faithful"})

    # ---- signature / nesting cases
    for m in sig_mods:
        if not m.build.ok:
            continue
        tag = m.tag[1]
        for c in sig_chosen:
            cid = c["cid"]
            if cid not in m.meta:
                continue
            fid = "s%d" % cid
            meta = m.meta[cid]
            desc = {"part": "sig", "fmt": tag, "path": "/".join(c["path"]), "leaf": c["leaf"], "nested": "fn" in c["path"],
                    "kinds": "".join(sorted({p["kind"] for p in c["params"]}))}
            if fid in m.dropped:
                rep.disagree(desc, "compile-error", {"case": c, "message": m.dropped[fid]})
                continue
            cr = m.c_recs.get(fid, {"error": "no record"})
            pr = p_recs[m.name].get(fid, {})
            if "crash" in cr or "error" in cr:
                rep.disagree(desc, "crash" if "crash" in cr else "unobservable", {"case": c, "record": cr})
                continue
            n_obs += 1
            nontriv.add(("sig", tag, cid))
            want = expected_sig(c, ns)
            # S vs P
            dp = cmp_sig_lists(want, pr.get("sig"))
            if dp or pr.get("__qualname__") != meta["qualname"] or pr.get("__name__") != meta["leafname"] \
                    or pr.get("__doc__") != meta["doc"]:
                rep.spec_drift("CPython twin differs from the specification", {"case": c, "diff": dp, "p": pr, "meta": meta})
                continue
            # C vs S: names
            for at, wv in (("__name__", meta["leafname"]), ("__qualname__", meta["qualname"]), ("__module__", m.name)):
                if tag == "clinic" and at == "__module__":
                    continue      # binding=False: builtin method descriptors have no __module__ (outside the property)
                n_eval += 1
                if cr.get(at) != wv:
                    rep.disagree(dict(desc, attr=at), "name-mismatch", {"case": c, "want": wv, "got": cr.get(at)})
            if tag == "clinic" and want and want[0][0] == "self":
                want[0][1] = "po"     # CPython reports `$self` of a builtin's text signature as positional-only
            # inspect.signature
            n_eval += 1
            d = cmp_sig_lists(want, cr.get("sig"))
            if d:
                rep.disagree(desc, "sig-mismatch", {"case": c, "diff": d, "type": cr.get("type"),
                                                    "text_signature": cr.get("__text_signature__")})
            # __doc__ and the embedded text
            doc = cr.get("__doc__")
            srcdoc = meta["doc"]
            clean = inspect.cleandoc(srcdoc) if srcdoc else None
            n_eval += 1
            if tag == "plain":
                if doc != srcdoc:
                    rep.disagree(desc, "doc-mismatch", {"case": c, "want": srcdoc, "got": doc})
                continue
            if tag == "clinic":
                sigline = cr.get("__text_signature__")
                if (doc or None) != (clean or None):
                    rep.disagree(desc, "doc-mismatch", {"case": c, "want": clean, "got": doc})
                sigtext = ("m" + sigline) if isinstance(sigline, str) else None
            else:
                if doc == srcdoc:
                    # nothing was embedded at all
                    rep.disagree(desc, "embed-missing", {"case": c, "doc": doc})
                    continue
                sigline, rest = split_doc(doc)
                if sigline is None or rest != ("\n\n" + clean if clean else ""):
                    rep.disagree(desc, "doc-mismatch", {"case": c, "want_tail": clean, "got": doc})
                sigtext = sigline
                if sigline is not None:
                    nm = sigline.split("(")[0]
                    ok_names = [meta["leafname"]] + ([meta["cls"] + "." + meta["leafname"]] if (tag == "c" and meta["cls"]) else [])
                    if nm not in ok_names:
                        rep.disagree(desc, "embed-name-mismatch", {"case": c, "sigline": sigline, "want": ok_names})
            if sigtext is None:
                rep.disagree(desc, "embed-missing", {"case": c, "doc": doc})
                continue
            try:
                got = L.parse_sig_text(sigtext)
            except SyntaxError as ex:
                rep.disagree(desc, "embed-unparseable", {"case": c, "sigline": sigtext, "error": str(ex)[:100]})
                continue
            # the text shows the function as defined (with self / cls)
            full = sig_plist(c)
            wtxt = [(n, k, None if dd is None else ast.dump(L.norm(ast.parse(dd, mode="eval").body))) for n, k, dd in full]
            gtxt = [(n, k, None if dd is None else ast.dump(L.norm(dd))) for n, k, dd in got]
            if tag == "clinic" and wtxt and wtxt[0][0] in ("self", "cls"):
                pass
            if wtxt != gtxt:
                rep.disagree(desc, "embed-mismatch", {"case": c, "sigline": sigtext, "want": wtxt, "got": gtxt})
            if len(samples) < 7 and rng.random() < 0.02:
                samples.append({"path": c["path"], "leaf": c["leaf"], "params": c["params"], "fmt": tag, "doc_line": sigtext,
                                "qualname": cr.get("__qualname__")})

    # ---- binding self-test: corrupted expectations must be rejected
    probe = next((c for c in chosen if not c["hazard"] and not c["foldish"] and c["nops"] >= 1 and c["ast"]["k"] == "bin"), None)
    if probe is not None:
        bad = dict(probe)
        sw = dict(probe["ast"])
        sw["c"] = list(reversed(sw["c"]))
        if sw["c"] != probe["ast"]["c"]:
            bad["s_norm"] = L.norm(L.node2ast(sw), True)
            if check_embedded_default(bad, probe["src"]) is None:
                core.die("binding self-test failed: swapped operands accepted")
    if cmp_sig_lists([["a", "pk", None]], [["a", "ko", None]]) is None or cmp_sig_lists([["a", "pk", ["int", "1"]]], [["a", "pk", ["int", "2"]]]) is None:
        core.die("binding self-test failed: signature comparison")

    while len(samples) < 3 and chosen:
        c = chosen[len(samples)]
        samples.append({"default": c["src"], "tags": c["tags"], "model_predicts_hazard": c["hazard"]})
    cov.update({
        "states": sum(t["states_generated"] for t in cov["tlc"]),
        "distinct_states": sum(t["distinct_states"] for t in cov["tlc"]),
        "transitions": sum(t["states_generated"] for t in cov["tlc"]),
        "traces_validated_against_impl": n_obs,
        "evaluations": n_eval, "distinct_nontrivial": len(nontriv),
        "expr_defaults_validated_on_front_end": n_fe, "foldable_texts_accepted_by_value": len(BY_VALUE),
        "foldable_texts_accepted_by_value_examples": sorted(set(BY_VALUE))[:8],
        "expr_cases_published": len(expr_all), "expr_cases_raising_at_definition": n_raise, "expr_cases_replayed": len(chosen),
        "sig_cases_published": len(sig_all), "sig_cases_replayed": len(sig_chosen),
        "model_node_kinds": kinds, "model_single_cause_hazards": single, "model_single_class_cases": alone,
        "model_hazards_published": sum(1 for c in expr_all if c["hazard"]),
        "impl_model_vs_real": {"hazard_predicted_but_text_faithful": len(stale.get("predicted", [])),
                               "text_wrong_but_not_predicted": len(stale.get("unpredicted", [])),
                               "front_end_texts_compared_with_model_text": textcmp["compared"],
                               "front_end_text_differs_from_model_text": len(textcmp["differs"]),
                               "text_difference_examples": textcmp["differs"][:5],
                               "examples": {k: v[:5] for k, v in stale.items()}},
        "phase_s": phase,
        "functions_rejected_by_compiler": n_compile_rejects, "compiler_rejections": rejects[:6],
        "modules": [{"name": m.name, "ok": bool(m.build and m.build.ok), "functions": len(m.gen.acc)} for m in mods],
        "rule": "every valid published tree goes through the real front end (text of the embedded default); compiled replay = seeded sample over the strata (root-cause tags, model hazard, foldable, top constructor, number of operator "
                "nodes) of the trees TLC published; non-trivial = distinct (default expression, format) pairs whose embedded text was "
                "compared + distinct (signature case, build) pairs",
        "samples": samples,
    })
    if os.environ.get("VERIF_C25_DUMP"):
        core.write_ndjson(os.environ["VERIF_C25_DUMP"], [{"desc": d, "detail": x} for d, x in rep.violations])
        core.write_ndjson(os.environ["VERIF_C25_DUMP"] + ".text", textcmp["differs"])
        core.write_ndjson(os.environ["VERIF_C25_DUMP"] + ".kf", [{"kf": k, "detail": x} for k, v in rep.kf_hits.items() for x in v])
    if n_compile_rejects > 0.05 * max(1, len(fns)):
        core.die("the compiler rejected %d of %d generated functions: %s" % (n_compile_rejects, len(fns), rejects[:3]))
    rc = rep.finish()
    cov["known_findings"] = rep.kf_summary()
    core.write_evidence(PROP, tier, seed, "model_checking", cov, time.time() - t0,
                        assumptions=["leaves are opaque atoms in the specification; their source text lives in harness/lib_signature.py",
                                     "names in defaults are symbolic objects (every operator defined, the value records the operations)",
                                     "two texts are the same default if their semantic normal forms agree (closed sub-expressions "
                                     "evaluated, and/or flattened, not-in/is-not rewriting); a not printable default (lambda, f-string, "
                                     "walrus) must show the placeholder `...`",
                                     "annotations and return annotations are outside the property (strings by design)"],
                        violations=rep.n_violations())
    return rc
