"""C09 -- compile-time constants keep their exact Python values.

Three specifications, each explored by TLC with the cases as states, each bound to the code
built from the working tree (B1 replay on compiled modules; B3 facts from the real pool):

* spec/ConstLiteral.tla -- numeric literals (all bases, underscores, leading zeros, floats,
  imaginary, integers far beyond 2**64 as limbs): reference value per the lexical grammar,
  implementation-shaped Utils.str_to_number and IntNode.value_as_c_integer_string.
  Binding: the real str_to_number / value_as_c_integer_string on every literal, and compiled
  modules that return the literal in five syntactic forms (object constant, C literal via `~`,
  negated, inside a tuple, folded `+ 1`).
* spec/ConstFold.tla -- constant expressions in postfix construction, exact Python semantics
  on int/bool/dyadic floats with signed zeros; implementation-shaped `folded` rule and the C
  helper for double %, proven equal to the reference.  Binding: every published expression
  compiled and evaluated.  A "wide" family (values beyond TLC's 32-bit integers) takes its
  expectation from Python integers.
* spec/ConstPool.tla -- the constant pool as a state machine with the transcription of
  ExprNodes.make_dedup_key; TLC decides for ordered pairs whether they share a slot and whether
  CPython distinguishes them, and proves that the pool never hands out a distinguishable
  constant.  Binding: modules in which the pair's constants are met in that order (pairs that
  Python considers equal although they differ first); B3: the slot groups of the real pool
  (GlobalState.get_py_const recorded in a child) are fed back to TLC (mode "real") and judged
  with the same ObsEq, the model's sharing verdict is compared with the real slots.
* spec/ConstSeq.tla -- constant tuples / lists with repeat factors and their compile-time
  consumers; implementation-shaped _calculate_constant_seq, proven equal to the reference.

The implementation-shaped parts predict NO deviation any more (the defects they described were
repaired): every difference between compiled code and the reference is a violation, and the
`model_fidelity` counters (real behaviour the transcription does not predict) must be 0.

S = spec, P = CPython evaluating the same source text, C = code generated from the tree.
"""
import concurrent.futures
import json
import os
import random
import sys
import time
import warnings

import core
import lib_constpool as L

PROP = "C09"
WORKERS = 4


def tlc_job(module, cfg, env=None, timeout=1500, coverage=False):
    return core.tlc(module, cfg=cfg, workers=WORKERS, env=env, timeout=timeout, coverage=coverage, heap="3g")


def py_obs(text):
    """P: CPython evaluates the same text"""
    with warnings.catch_warnings():
        warnings.simplefilter("ignore")
        try:
            return L.jnorm(L.obs(eval(compile(text, "<c09>", "eval"), {})))
        except BaseException as e:      # noqa
            return "E:" + type(e).__name__


def classify(got, want):
    if isinstance(got, str):
        if got.startswith("E:"):
            return "exception"
        return "crash"
    if got is None:
        return "no-observation"
    if isinstance(got, list) and isinstance(want, list) and got[:1] != want[:1]:
        return "wrong-type"
    if isinstance(got, list) and isinstance(want, list) and zero_sign_only(got, want):
        return "zero-sign"
    return "wrong-value"


def zero_sign_only(a, b):
    """observations equal up to the sign of float zeros"""
    def z(x):
        if isinstance(x, list):
            if len(x) == 2 and x[0] == "float" and x[1] in ("0x0.0p+0", "-0x0.0p+0"):
                return ["float", "0"]
            r = [z(i) for i in x]
            if r and r[0] == "frozenset":
                r = ["frozenset"] + sorted(r[1:], key=repr)
            return r
        return x
    return z(a) == z(b)


class Modules(object):
    """Collects list-modules, builds them together, runs each in a child."""

    def __init__(self):
        self.specs = []
        self.meta = {}        # name -> (index, nfun, cases, source)
        self.solo = {}        # name -> function numbers that run in a child of their own

    def add(self, name, exprs, cases, per_fun=120, solo=()):
        """solo: positions of expressions that may kill the process (each runs in a child of its own)"""
        src, index, nfun, solo_funs = L.list_module(exprs, per_fun, solo)
        self.specs.append(core.BuildSpec(name, src, kind="py"))
        self.meta[name] = (index, nfun, cases, src)
        self.solo[name] = solo_funs

    def build_and_run(self, jobs):
        t0 = time.time()
        results = core.build_many(self.specs, jobs=jobs)
        out = {}

        def run_one(b):
            index, nfun, cases, src = self.meta[b.name]
            if not b.ok:
                return b.name, None, "build:%s:%s" % (b.stage, (b.errors or "")[-1500:])
            per_fun = {}

            def child(funs, tag):
                outf = os.path.join(b.dir, "obs_%s.json" % tag)
                ch = core.run_child(L.RUN_LISTS_CHILD, [os.path.dirname(b.so), b.name, json.dumps(funs), outf], timeout=600)
                if ch.rc == 0 and os.path.exists(outf):
                    with open(outf) as f:
                        per_fun.update(json.load(f))
                    return None
                if ch.timed_out:
                    return "TIMEOUT"
                if ch.crashed:
                    core.CRASH_LOGS.append({"module": b.name, "functions": funs[:5], "stderr": ch.err[-1500:]})
                    return "CRASH:%d" % ch.signal
                return "run:rc=%s %s" % (ch.rc, ch.err[-800:])
            solo = set(self.solo.get(b.name, ()))
            main = [i for i in range(nfun) if i not in solo]
            st = child(main, "main") if main else None
            if st is not None and not st.startswith("run:"):
                # the process died: every function in a child of its own, the observation of a dead one is the signal
                for i in main:
                    st_i = child([i], "f%d" % i)
                    if st_i is not None:
                        per_fun[str(i)] = st_i
            elif st is not None:
                return b.name, None, st
            for i in sorted(solo):
                st_i = child([i], "f%d" % i)
                if st_i is not None:
                    per_fun[str(i)] = st_i
            obs = []
            for (fn, j, line) in index:
                r = per_fun.get(str(fn))
                obs.append(r if (isinstance(r, str) or r is None) else r[j])
            return b.name, obs, None

        with concurrent.futures.ThreadPoolExecutor(max_workers=jobs) as ex:
            for name, obs, err in ex.map(run_one, results):
                out[name] = (obs, err)
        self.results = {b.name: b for b in results}
        self.wall = time.time() - t0
        return out


# ---------------------------------------------------------------------------


def run(tier, seed):
    t0 = time.time()
    quick = tier == "quick"
    rng = random.Random(seed)
    rep = core.Reporter(PROP)
    cov = {"tlc": []}
    jobs = min(core.NCPU, 8 if quick else 14)

    lit_cfgs = ["ConstLiteral_q5"] if quick else ["ConstLiteral_int7", "ConstLiteral_flt6", "ConstLiteral_big4"]
    fold_cfgs = ["ConstFold_q"] if quick else ["ConstFold_t3", "ConstFold_t4", "ConstFold_t5"]
    seq_cfgs = ["ConstSeq_q"] if quick else ["ConstSeq_t"]
    pool_cfgs = ["ConstPool_q"] if quick else ["ConstPool_t", "ConstPool_t2"]
    todo = [("ConstLiteral", c) for c in lit_cfgs] + [("ConstFold", c) for c in fold_cfgs] + [("ConstPool", c) for c in pool_cfgs] + \
        [("ConstSeq", c) for c in seq_cfgs]
    tl = {}
    with concurrent.futures.ThreadPoolExecutor(max_workers=4) as ex:
        futs = {ex.submit(tlc_job, m, c, None, 1700, True): (m, c) for m, c in todo}
        for fu in concurrent.futures.as_completed(futs):
            m, c = futs[fu]
            r = fu.result()
            if not r.ok:
                sys.stderr.write(r.out[-5000:])
                core.die("TLC failed (%s): %s" % (r.violation or r.rc, r.cmd))
            tl[c] = r
            cov["tlc"].append(dict(r.summary(), config=c, published=len(r.printed)))

    # vacuity guard on the models: every named action taken, every case class present
    need = {"ConstLiteral": {"Digit", "HexLetter", "Underscore", "BasePrefix", "Dot", "Exponent", "ExpSign", "Imag", "Block"},
            "ConstFold": {"Push", "Unary", "Binary", "Compare", "Chain", "Member", "Cond"},
            "ConstPool": {"InternFirst", "InternEqualVariant", "InternAny"},
            "ConstSeq": {"Make", "Repeat", "Consume"}}
    action_cov = {}
    for m, c in todo:
        for a, (d, t) in tl[c].coverage.items():
            if a in need[m]:
                action_cov[m + "." + a] = action_cov.get(m + "." + a, 0) + d
    missing = [m + "." + a for m in need for a in need[m] if not action_cov.get(m + "." + a)]
    if missing:
        core.die("vacuous model: actions never taken: %s" % missing)
    cov["action_coverage"] = action_cov

    mods = Modules()
    plans = []            # callbacks that judge the observations once everything ran

    lit_stats = plan_literals(tier, rng, rep, [tl[c] for c in lit_cfgs], mods, plans)
    fold_stats = plan_fold(tier, rng, rep, [tl[c] for c in fold_cfgs], mods, plans)
    pool_stats = plan_pool(tier, rng, rep, [tl[c] for c in pool_cfgs], mods, plans)
    seq_stats = plan_seq(tier, rng, rep, [tl[c] for c in seq_cfgs], mods, plans)

    out = mods.build_and_run(jobs)
    judged = {"n": 0, "samples": [], "nontrivial": set()}
    for p in plans:
        p(out, mods, judged)
    pool_real = real_pool_check(tier, rng, rep, mods, pool_stats, cov)

    # binding demonstration: a corrupted expectation must be rejected by the comparison used above
    demo = judged.get("demo")
    if not demo or demo[0] == demo[1]:
        core.die("binding self-test failed")

    states = sum(t.generated for t in tl.values()) + pool_real.get("states", 0)
    cov.update({
        "states": states, "distinct_states": sum(t.distinct for t in tl.values()) + pool_real.get("distinct", 0),
        "transitions": states,
        "traces_validated_against_impl": judged["n"] + pool_real.get("groups", 0),
        "evaluations": judged["n"] + lit_stats["direct"] + pool_real.get("groups", 0),
        "distinct_nontrivial": len(judged["nontrivial"]),
        "exhaustive": False,
        "literals": lit_stats, "fold": fold_stats, "pool": {k: v for k, v in pool_stats.items() if not k.startswith("_")},
        "seq": seq_stats,
        "pool_real": pool_real,
        # model vs real: what the implementation-shaped transcriptions predict and the real code does not do, or the
        # other way round (every summand is 0 when the transcriptions describe the code)
        "model_fidelity_total": sum(v for st in (fold_stats, seq_stats, pool_stats, pool_real)
                                    for k, v in (st.get("model_fidelity") or {}).items() if k != "pairs") +
        lit_stats["c_literal_text_differs_from_transcription"],
        "modules_built": len(mods.specs), "build_and_run_wall_s": round(mods.wall, 1),
        "rule": "literals: every accepted literal of the character-level grammar automaton up to the length bound (+ block-built "
                "big integers); fold: every postfix-built expression within the token bound; pool: every ordered pair of the "
                "universe that Python considers equal (+ all pairs of the depth-1 core universe in the model); replay of a seeded "
                "sample of these on compiled code; non-trivial = distinct source text of a replayed case that is not a bare "
                "single-digit literal",
        "samples": judged["samples"][:8],
    })
    rc = rep.finish()
    cov["known_findings"] = rep.kf_summary()
    core.write_evidence(PROP, tier, seed, "model_checking", cov, time.time() - t0,
                        assumptions=["float literals: the specification gives (decimal mantissa, power of ten); the harness rounds it to "
                                     "the nearest double with fractions.Fraction (round-half-even), CPython is the cross-check",
                                     "floats in constant expressions are decided on dyadic rationals n/2^d with n <= 2^15, d <= 12 and signed "
                                     "zeros; expressions that raise in Python (zero division) have no value and are not cases",
                                     "integer expressions beyond 2^31 (TLC integers are 32-bit) take their expectation from Python integers; "
                                     "the C-overflow prediction for them is a Python mirror of the spec's `folded` rule",
                                     "set iteration order and object identity of constants are not observations",
                                     "`**` with negative or non-integer exponents belongs to C07 (cpow), negative shift counts raise in "
                                     "Python: both outside the domain"],
                        violations=rep.n_violations())
    return rc


# ---------------------------------------------------------------------------
# part 1: literals


def plan_literals(tier, rng, rep, tlcs, mods, plans):
    quick = tier == "quick"
    recs = {}
    for t in tlcs:
        for r in t.printed:
            if "text" in r:
                recs.setdefault(r["text"], r)
    recs = list(recs.values())
    kinds = {}
    for r in recs:
        kinds[r["kind"]] = kinds.get(r["kind"], 0) + 1
    if min(kinds.get(k, 0) for k in ("int", "float", "imag")) < 20 or len(recs) < 1000:
        core.die("ConstLiteral published too few literals: %s" % kinds)
    big = [r for r in recs if r["kind"] == "int" and len(r["limbs"]) > 4]
    if len(big) < 20:
        core.die("ConstLiteral published too few big literals (%d)" % len(big))

    # S vs P on every literal
    svals = {}
    for r in recs:
        s = L.literal_value(r)
        svals[r["text"]] = s
        so, po = L.jnorm(L.obs(s)), py_obs(r["text"])
        if so != po:
            rep.spec_drift("ConstLiteral value vs CPython", {"text": r["text"], "spec": so, "python": po})

    # direct binding: real Utils.str_to_number and IntNode.value_as_c_integer_string on every integer literal
    ints = [r for r in recs if r["kind"] == "int"]
    d = core.subdir("c09lit")
    inf, outf = os.path.join(d, "texts.json"), os.path.join(d, "s2n.json")
    with open(inf, "w") as f:
        json.dump([r["text"] for r in ints], f)
    ch = core.run_child(L.STR_TO_NUMBER_CHILD, [inf, outf], with_snapshot=True, timeout=900)
    if ch.rc != 0 or not os.path.exists(outf):
        core.die("str_to_number child failed: rc=%s %s" % (ch.rc, ch.err[-1500:]))
    with open(outf) as f:
        direct = json.load(f)
    fidelity_cl = 0
    for r, (n, cl, ty) in zip(ints, direct):
        v = svals[r["text"]]
        desc = {"part": "literal", "kind": "int", "base": r["base"], "form": "str_to_number", "underscore": "_" in r["text"],
                "size": size_class(v)}
        if n != str(v):
            rep.disagree(desc, "exception" if n.startswith("E:") else "wrong-value", {"text": r["text"], "want": str(v), "got": n})
        if abs(v) < (1 << 31):
            # the C literal the compiler writes for this value must denote it (and it must be typed as a C integer)
            try:
                cv = L.c_literal_value(cl)
            except ValueError:
                cv = None
            if cv != v:
                rep.disagree(dict(desc, form="c_integer_string"), "wrong-value", {"text": r["text"], "want": v, "c_literal": cl})
            if r["cl"] and r["cl"] != cl:
                fidelity_cl += 1
        elif ty != "object":
            rep.disagree(dict(desc, form="node_type"), "wrong-type", {"text": r["text"], "value": str(v), "node_type": ty})

    # compiled modules
    n_ret = 1800 if quick else 3500
    n_form = 300 if quick else 900
    cases = []       # (rec, form)
    n_lzu = sum(1 for r in recs if r["lzu"])
    recs = [r for r in recs if not r["lzu"]]        # valid Python that Cython's lexer rejects: no run-time value to compare
    # an imaginary literal beyond the double range (1e999j) makes Cython write `PyComplex_FromDoubles(0.0, inf)`:
    # C compile error, again a rejected program without a run-time value
    n_infj = sum(1 for r in recs if r["kind"] == "imag" and svals[r["text"]].imag == float("inf"))
    recs = [r for r in recs if not (r["kind"] == "imag" and svals[r["text"]].imag == float("inf"))]
    must = core.sample(big, 150 if quick else 450, rng) + \
        core.sample([r for r in recs if r["kind"] != "int" and ("e" in r["text"].lower())], 50, rng)
    base = core.sample(recs, n_ret, rng)
    seen = set()
    for r in must + base:
        if r["text"] not in seen:
            seen.add(r["text"])
            cases.append((r, "ret"))
    for form in ("inv", "neg", "tup", "add"):
        pool_ = [r for r in recs if form in ("neg", "tup") or r["kind"] == "int"]
        for r in core.sample(pool_, n_form, rng) + (core.sample(big, 40, rng) if form != "tup" else []):
            if form in ("inv", "add") and r["kind"] != "int":
                continue
            cases.append((r, form))
    rng.shuffle(cases)
    per_mod = 3000
    names = []
    for k in range(0, len(cases), per_mod):
        chunk = cases[k:k + per_mod]
        name = "c09lit%d" % (k // per_mod)
        mods.add(name, [L.LITERAL_FORMS[f][0] % r["text"] for r, f in chunk], chunk)
        names.append(name)
    # table shapes: modules whose numeric constant table contains only some size classes
    shapes = literal_shapes(recs, svals, rng, 3 if quick else 5)
    for i, (shape, chunk) in enumerate(shapes):
        name = "c09shape%d" % i
        mods.add(name, [r["text"] for r, f in chunk], chunk, per_fun=7)
        names.append(name)

    def judge(out, mods_, judged):
        for name in names:
            obs, err = out[name]
            chunk = mods_.meta[name][2]
            if err:
                rep.disagree({"part": "literal", "form": "module", "stage": err.split(":")[0]}, "build-failed",
                             {"module": name, "error": err, "first_cases": [r["text"] for r, f in chunk[:5]]})
                continue
            for (r, form), o in zip(chunk, obs):
                v = svals[r["text"]]
                want = L.jnorm(L.obs(L.LITERAL_FORMS[form][1](v)))
                if form == "tup":
                    want = ["tuple", L.jnorm(L.obs(v)), ["NoneType", "None"]]
                src = L.LITERAL_FORMS[form][0] % r["text"]
                p = py_obs(src)
                if p != want:
                    rep.spec_drift("literal form vs CPython", {"src": src, "spec": want, "python": p})
                judged["n"] += 1
                if len(r["text"]) > 1:
                    judged["nontrivial"].add(src)
                if o != want:
                    desc = {"part": "literal", "kind": r["kind"], "base": r["base"], "form": form, "underscore": "_" in r["text"],
                            "size": size_class(v) if r["kind"] == "int" else "float"}
                    rep.disagree(desc, classify(o, want), {"src": src, "want": want, "got": o, "module": name})
                elif len(judged["samples"]) < 3 and len(r["text"]) > 3:
                    judged["samples"].append({"part": "literal", "src": src, "expected": want, "got": o})
                if o == want and r["kind"] == "int" and "demo" not in judged:
                    # the same comparison with a corrupted expectation (value + 1) must not agree
                    judged["demo"] = (o, L.jnorm(L.obs(L.LITERAL_FORMS[form][1](v + 1))))
    plans.append(judge)
    return {"published": len(recs), "by_kind": kinds, "big_integers": len(big), "direct": len(ints), "compiled_cases": len(cases),
            "table_shape_modules": len(shapes), "c_literal_text_differs_from_transcription": fidelity_cl,
            "valid_python_rejected_by_cython_lexer_not_replayed": n_lzu, "infinite_imaginary_literals_not_replayed": n_infj}


def size_class(v):
    b = abs(v).bit_length() if isinstance(v, int) else 0
    for lim, nm in ((7, "i8"), (15, "i16"), (31, "i32"), (63, "i64")):
        if b <= lim:
            return nm
    return "large"


def literal_shapes(recs, svals, rng, n):
    """subsets of {i8, i16, i32, i64, large, float}: the per-module table of numeric constants
    (Code.GlobalState.generate_num_constants) is laid out by size class"""
    by = {}
    for r in recs:
        v = svals[r["text"]]
        c = size_class(v) if r["kind"] == "int" else ("float" if r["kind"] == "float" else None)
        if c:
            by.setdefault(c, []).append(r)
    classes = [c for c in ("i8", "i16", "i32", "i64", "large", "float") if by.get(c)]
    subsets = []
    for mask in range(1, 1 << len(classes)):
        subsets.append([c for i, c in enumerate(classes) if mask >> i & 1])
    rng.shuffle(subsets)
    out = []
    for sub in subsets[:n]:
        chunk = []
        for c in sub:
            for r in core.sample(by[c], rng.choice([1, 2, 5]), rng):
                chunk.append((r, "ret"))
        rng.shuffle(chunk)
        out.append(("+".join(sub), chunk))
    return out


# ---------------------------------------------------------------------------
# part 2: constant expressions


def plan_fold(tier, rng, rep, tlcs, mods, plans):
    quick = tier == "quick"
    cases = {}
    skipped = 0
    for t in tlcs:
        for r in t.printed:
            if "rpn" in r:
                cases.setdefault(L.render_rpn(r["rpn"]), r)
            elif "skipped" in r:
                skipped += 1
    if len(cases) < 2000:
        core.die("ConstFold published only %d cases" % len(cases))
    folded = sum(1 for r in cases.values() if r["folded"])
    kinds = {}
    for r in cases.values():
        kinds[r["val"]["k"]] = kinds.get(r["val"]["k"], 0) + 1
    negzero = sum(1 for r in cases.values() if r["val"]["k"] == "float" and r["val"]["n"] == 0 and r["val"]["s"] == 1)
    if min(kinds.get(k, 0) for k in ("int", "bool", "float")) < 100 or negzero < 10 or folded in (0, len(cases)):
        core.die("ConstFold case classes missing: kinds=%s negzero=%d folded=%d" % (kinds, negzero, folded))
    # S vs P on every published expression
    for s, r in cases.items():
        so, po = L.fold_value_obs(r["val"]), py_obs(s)
        if so != po:
            rep.spec_drift("ConstFold value vs CPython", {"src": s, "spec": so, "python": po})

    n_rep = 2500 if quick else 6000
    # the cases the implementation evaluates at run time (float results are never folded) first: the C helpers
    unfolded_mod = [s for s, r in cases.items() if not r["folded"] and L.rpn_top(r["rpn"]) == "%"]
    chosen = set(core.sample(unfolded_mod, 300 if quick else 1200, rng))
    chosen.update(core.sample([s for s in cases if s not in chosen], n_rep, rng))
    chosen = sorted(chosen)
    rng.shuffle(chosen)
    names = []
    per_mod = 2500
    for k in range(0, len(chosen), per_mod):
        chunk = chosen[k:k + per_mod]
        name = "c09fold%d" % (k // per_mod)
        mods.add(name, chunk, chunk)
        names.append(name)
    wide = L.wide_cases(rng, 300 if quick else 1300)
    wtexts = {}
    for e in wide:
        wtexts.setdefault(e.text(), e)
    wl = sorted(wtexts)
    seqs = sorted(set(L.seq_cases(rng, 250 if quick else 1100)))
    wl = wl + seqs
    wnames = []
    for k in range(0, len(wl), per_mod):
        name = "c09wide%d" % (k // per_mod)
        chunk = wl[k:k + per_mod]
        # where the model reaches C undefined behaviour the process may die (7 // ((~7) << 63) divides by a C zero)
        risky = [i for i, t_ in enumerate(chunk) if t_ in wtexts and wtexts[t_].model()[2] and ("//" in t_ or "%" in t_)]
        mods.add(name, chunk, chunk, solo=risky)
        wnames.append(name)
    stats = {"published": len(cases), "skipped_by_spec": skipped, "by_kind": kinds, "folded_in_model": folded, "negative_zero_results": negzero, "replayed": len(chosen), "wide_cases": len(wtexts), "sequence_cases": len(seqs)}

    def judge(out, mods_, judged):
        dev = 0
        for name in names:
            obs, err = out[name]
            chunk = mods_.meta[name][2]
            if err:
                rep.disagree({"part": "fold", "form": "module", "stage": err.split(":")[0]}, "build-failed",
                             {"module": name, "error": err})
                continue
            for s, o in zip(chunk, obs):
                r = cases[s]
                want = L.fold_value_obs(r["val"])
                judged["n"] += 1
                judged["nontrivial"].add(s)
                if o != want:
                    dev += 1
                    desc = {"part": "fold", "folded": r["folded"], "top": L.rpn_top(r["rpn"]), "result": r["val"]["k"]}
                    rep.disagree(desc, classify(o, want), {"src": s, "want": want, "got": o, "ops": L.rpn_ops(r["rpn"])})
                elif len([x for x in judged["samples"] if x["part"] == "fold"]) < 3 and len(r["rpn"]) >= 4:
                    judged["samples"].append({"part": "fold", "src": s, "expected": want, "got": o})
        wbad = wpred = 0
        for name in wnames:
            obs, err = out[name]
            chunk = mods_.meta[name][2]
            if err:
                rep.disagree({"part": "wide", "form": "module", "stage": err.split(":")[0]}, "build-failed", {"module": name, "error": err})
                continue
            for s, o in zip(chunk, obs):
                want = py_obs(s)
                judged["n"] += 1
                judged["nontrivial"].add(s)
                if s not in wtexts:
                    if isinstance(want, str):
                        continue        # raises in Python (index out of range): no value, not a case
                    if o != want:
                        rep.disagree({"part": "seq", "form": s.split("(")[0] or "tuple"}, classify(o, want), {"src": s, "want": want, "got": o})
                    continue
                e = wtexts[s]
                lit, ctyped, ov = e.model()
                if ov and o == want:
                    wpred += 1        # the mirror of `folded` predicted a C overflow that did not happen
                if o != want:
                    wbad += 1
                    desc = {"part": "wide", "model": "unfolded-clong-overflow" if ov else "none", "folded": lit, "top": e.op}
                    rep.disagree(desc, classify(o, want), {"src": s, "want": want, "got": o})
        # model-vs-real: the transcription (ConstFold.tla, WNode.model) predicts agreement everywhere
        stats["model_fidelity"] = {"deviations_not_predicted": dev + wbad, "predicted_overflow_not_observed": wpred}
    plans.append(judge)
    return stats


# ---------------------------------------------------------------------------
# part 4: repeated constant sequences


def plan_seq(tier, rng, rep, tlcs, mods, plans):
    quick = tier == "quick"
    cases = {}
    for t in tlcs:
        for r in t.printed:
            if "cons" in r:
                cases.setdefault(L.render_seq_case(r), r)
    # reference-side class that matters most: the repeat changed the value and the consumer is decided at compile time
    folded_in = [s for s, r in cases.items() if r["repeated"] and r["cons"]["c"] not in ("ret", "len", "in")]
    consumers = {r["cons"]["c"] for r in cases.values()}
    if len(cases) < 1000 or len(folded_in) < 200 or len(consumers) < 11 or len(folded_in) > (3 * len(cases)) // 4:
        core.die("ConstSeq published %d cases, %d repeated with a compile-time consumer, consumers %s" %
                 (len(cases), len(folded_in), sorted(consumers)))
    for s, r in cases.items():
        so, po = L.seq_result_obs(r["res"], r["kind"]), py_obs(s)
        if so != po:
            rep.spec_drift("ConstSeq result vs CPython", {"src": s, "spec": so, "python": po})
    chosen = set(core.sample(folded_in, 500 if quick else 1500, rng))
    chosen.update(core.sample([s for s in cases if s not in chosen], 700 if quick else 1500, rng))
    chosen = sorted(chosen)
    rng.shuffle(chosen)
    names = []
    per_mod = 3000
    for k in range(0, len(chosen), per_mod):
        name = "c09seq%d" % (k // per_mod)
        mods.add(name, chosen[k:k + per_mod], chosen[k:k + per_mod])
        names.append(name)
    stats = {"published": len(cases), "repeated_with_compile_time_consumer": len(folded_in), "replayed": len(chosen)}

    def judge(out, mods_, judged):
        dev = 0
        for name in names:
            obs, err = out[name]
            chunk = mods_.meta[name][2]
            if err:
                rep.disagree({"part": "seq", "form": "module", "stage": err.split(":")[0]}, "build-failed", {"module": name, "error": err})
                continue
            for s, o in zip(chunk, obs):
                r = cases[s]
                want = L.seq_result_obs(r["res"], r["kind"])
                judged["n"] += 1
                judged["nontrivial"].add(s)
                if o != want:
                    dev += 1
                    desc = {"part": "seq", "consumer": r["cons"]["c"], "kind": r["kind"], "repeated": r["repeated"]}
                    rep.disagree(desc, classify(o, want), {"src": s, "want": want, "got": o})
                elif len([x for x in judged["samples"] if x["part"] == "seq"]) < 1 and r["repeated"]:
                    judged["samples"].append({"part": "seq", "src": s, "expected": want, "got": o})
        stats["model_fidelity"] = {"deviations_not_predicted": dev}      # ConstSeq.ImplAgrees: none is predicted
    plans.append(judge)
    return stats


# ---------------------------------------------------------------------------
# part 3: the constant pool


def plan_pool(tier, rng, rep, tlcs, mods, plans):
    quick = tier == "quick"
    consts = {}     # key -> record {c, obs, tc, tobs, dedup, diff}
    pairs = {}      # (keya, keyb) -> record
    for t in tlcs:
        for r in t.printed:
            if "c" in r:
                consts.setdefault(L.const_key(r["c"]), r)
            elif "a" in r:
                pairs.setdefault((L.const_key(r["a"]), L.const_key(r["b"])), r)
    if len(consts) < 300 or len(pairs) < 1000:
        core.die("ConstPool published %d constants, %d pairs" % (len(consts), len(pairs)))
    # reference-side classes of the pairs: how two constants that Python considers equal differ for CPython
    diffs = {}
    for r in pairs.values():
        diffs[r["diff"]] = diffs.get(r["diff"], 0) + 1
    n_near_model = sum(1 for r in pairs.values() if r["near"])
    if min(diffs.get(k, 0) for k in ("zero-sign", "fset-order", "num-type", "none")) < 20 or n_near_model < 100:
        core.die("ConstPool pair classes missing: %s near=%d" % (diffs, n_near_model))
    # ConstPool.SharedImpliesObsEq, seen from the published records
    if any(r["shared"] and not r["obseq"] for r in pairs.values()):
        core.die("ConstPool: the model shares a pair that CPython distinguishes (invariant SharedImpliesObsEq should have failed)")
    missed = sum(1 for r in pairs.values() if r["obseq"] and not r["shared"])
    # S vs P on every constant: Obs(c) against CPython evaluating the rendered text (plain and tagged form)
    TAG0 = 1000
    text_of, want_of = {}, {}
    for k, r in consts.items():
        text_of[k] = L.render_const(r["c"])
        want_of[k] = L.const_obs(r["obs"])
        p = py_obs(text_of[k])
        if p != want_of[k]:
            rep.spec_drift("ConstPool.Obs vs CPython", {"src": text_of[k], "spec": want_of[k], "python": p})
        tt, tw = L.render_const(r["tc"], TAG0), L.const_obs(r["tobs"], TAG0)
        p = py_obs(tt)
        if p != tw:
            rep.spec_drift("ConstPool.Obs(Tagged) vs CPython", {"src": tt, "spec": tw, "python": p})
    for (ka, kb), r in pairs.items():
        if ka not in consts or kb not in consts:
            core.die("ConstPool: pair member was not published as a constant")
        if r["obseq"] != (want_of[ka] == want_of[kb]):
            rep.spec_drift("ConstPool.ObsEq vs observations", {"a": text_of[ka], "b": text_of[kb], "obseq": r["obseq"]})

    def sigs(c, acc):
        if c["k"] != "atom":
            acc.add(L.eq_signature(c))
            for x in c["items"]:
                sigs(x, acc)
        return acc

    def hazard(p):      # sensitive: merging by Python equality would hand out a distinguishable constant somewhere
        return pairs[p]["diff"] not in ("none", "unequal") or consts[p[0]]["diff"] != "none" or consts[p[1]]["diff"] != "none"

    def prio(p):
        r = pairs[p]
        return 0 if hazard(p) else 1 if r["near"] else 2 if r["shared"] else 3

    def round_robin(ps, cls):
        groups = {}
        for p in ps:
            groups.setdefault(cls(p), []).append(p)
        out, k = [], 0
        top = max([len(v) for v in groups.values()] or [0])
        while k < top:
            for g in sorted(groups):
                if k < len(groups[g]):
                    out.append(groups[g][k])
            k += 1
        return out

    def shape(p):       # class of a pair: kinds, repeat factors, length, nesting, cause
        a, b = pairs[p]["a"], pairs[p]["b"]
        return json.dumps([a["k"], a["m"], b["k"], b["m"], len(a["items"]), sorted({x["k"] for x in a["items"]}),
                           pairs[p]["diff"]])
    order = sorted(pairs)
    rng.shuffle(order)
    hz = round_robin([p for p in order if prio(p) == 0], shape)
    nm = round_robin([p for p in order if prio(p) == 1], shape)
    sh = round_robin([p for p in order if prio(p) == 2], shape)
    eq = round_robin([p for p in order if prio(p) == 3], shape)

    # (1) plain pairs: two pairs may share a module only if no container inside one is Python-equal to a
    #     container inside the other (then their pool entries cannot interfere)
    front = []
    for i in range(max(len(hz), len(nm))):
        front += hz[i:i + 1] + nm[i:i + 1]
    n_mod = 3 if quick else 4
    cap = 300 if quick else 450
    layers = [[] for _ in range(n_mod)]
    used = [set() for _ in range(n_mod)]
    start = 0
    for p in front + sh + eq:
        sg = sigs(pairs[p]["a"], set()) | sigs(pairs[p]["b"], set())
        if not sg:
            sg = {"atom:" + L.eq_signature(pairs[p]["a"]), "atom:" + L.eq_signature(pairs[p]["b"])}   # keep equal atoms apart as well
        for t in range(n_mod):
            i = (start + t) % n_mod
            if len(layers[i]) < cap and not (used[i] & sg):
                layers[i].append(p)
                used[i] |= sg
                start = i + 1
                break
    # (2) tagged pairs (ConstPool.TaggingLemma): a fresh int per pair inside every container, any number per module
    def taggable(p):
        return pairs[p]["taggable"] and pairs[p]["a"]["k"] != "atom" and pairs[p]["b"]["k"] != "atom"
    per_tagged = 450
    n_tagged = 2 if quick else 4
    quota = per_tagged * n_tagged
    chosen = []
    for lst, share in ((hz, 0.3), (nm, 0.4), (sh, 0.15), (eq, 0.15)):
        chosen += [p for p in lst if taggable(p)][:int(quota * share)]
    rng.shuffle(chosen)
    names, tnames = [], []
    count = {"plain": 0, "tagged": 0, "hazard": 0, "near": 0, "by_diff": {}}

    def tally(p, kind):
        count[kind] += 1
        if hazard(p):
            count["hazard"] += 1
        count["by_diff"][pairs[p]["diff"]] = count["by_diff"].get(pairs[p]["diff"], 0) + 1
        if pairs[p]["near"]:
            count["near"] += 1
    for i, layer in enumerate(layers):
        if not layer:
            continue
        rng.shuffle(layer)
        exprs, cases = [], []
        for (ka, kb) in layer:
            exprs += [text_of[ka], text_of[kb]]
            cases += [(ka, kb, 0, None), (ka, kb, 1, None)]
            tally((ka, kb), "plain")
        name = "c09pool%d" % i
        mods.add(name, exprs, cases, per_fun=100)
        names.append(name)
    tag = TAG0
    for i in range(0, len(chosen), per_tagged):
        exprs, cases = [], []
        for (ka, kb) in chosen[i:i + per_tagged]:
            tag += 1
            exprs += [L.render_const(consts[ka]["tc"], tag), L.render_const(consts[kb]["tc"], tag)]
            cases += [(ka, kb, 0, tag), (ka, kb, 1, tag)]
            tally((ka, kb), "tagged")
        name = "c09tpool%d" % (i // per_tagged)
        mods.add(name, exprs, cases, per_fun=100)
        tnames.append(name)
    if count["hazard"] < 40 or count["near"] < 40:
        core.die("ConstPool: only %d sensitive pairs / %d near misses could be scheduled" % (count["hazard"], count["near"]))
    if min(count["by_diff"].get(k, 0) for k in ("zero-sign", "fset-order", "num-type")) < 10:
        core.die("ConstPool: sensitive pair classes not scheduled: %s" % count["by_diff"])
    stats = {"constants": len(consts), "pairs_in_model": len(pairs), "pair_diff_classes_in_model": diffs, "near_miss_pairs_in_model": n_near_model,
             "shared_pairs_in_model": sum(1 for r in pairs.values() if r["shared"]),
             "indistinguishable_pairs_not_shared_in_model": missed,
             "pairs_replayed_plain": count["plain"], "pairs_replayed_tagged": count["tagged"],
             "sensitive_pairs_replayed": count["hazard"], "replayed_by_diff_class": count["by_diff"],
             "near_miss_pairs_replayed": count["near"],
             "_consts": consts, "_pairs": pairs, "_names": names, "_text": text_of, "_want": want_of}

    def judge(out, mods_, judged):
        dev = 0
        for name in names + tnames:
            obs, err = out[name]
            chunk = mods_.meta[name][2]
            if err:
                rep.disagree({"part": "pool", "form": "module", "stage": err.split(":")[0]}, "build-failed", {"module": name, "error": err})
                continue
            for (ka, kb, which, tg), o in zip(chunk, obs):
                r = pairs[(ka, kb)]
                if tg is None:
                    wa, wb = want_of[ka], want_of[kb]
                    ta, tb = text_of[ka], text_of[kb]
                else:
                    wa, wb = L.const_obs(consts[ka]["tobs"], tg), L.const_obs(consts[kb]["tobs"], tg)
                    ta, tb = L.render_const(consts[ka]["tc"], tg), L.render_const(consts[kb]["tc"], tg)
                want = wb if which else wa
                judged["n"] += 1
                judged["nontrivial"].add(ta + "|" + tb + "|%d" % which)
                if o != want:
                    dev += 1
                    # the model (ConstPool.PoolSound) predicts the constant as written; "cause" is the reference-side
                    # class of the pair (of the constant itself for the first function)
                    desc = {"part": "pool", "cause": r["diff"] if which else consts[ka]["diff"], "shared_in_model": r["shared"],
                            "kind": r["a"]["k"], "near_miss": r["near"], "position": "second" if which else "first", "tagged": tg is not None}
                    rep.disagree(desc, "value-of-first-constant" if (which and o == wa) else classify(o, want),
                                 {"first": ta, "second": tb, "returned_by": "second" if which else "first",
                                  "want": want, "got": o, "module": name})
                elif which and r["shared"] and r["obseq"] and len([x for x in judged["samples"] if x["part"] == "pool"]) < 2:
                    judged["samples"].append({"part": "pool", "first": ta, "second": tb, "expected": want, "got": o})
        stats["model_fidelity"] = {"deviations_not_predicted": dev}
    plans.append(judge)
    return stats


def real_pool_check(tier, rng, rep, mods, ps, cov):
    """B3: record GlobalState.get_py_const of the real compiler for some pool modules, feed the slot groups
    (the constants the compiler mapped to one slot, in order) to ConstPool.tla in mode "real"."""
    quick = tier == "quick"
    names = [n for n in ps["_names"] if mods.results.get(n) is not None and mods.results[n].ok]
    names = core.sample(names, 2 if quick else 4, rng)
    if not names:
        return {"groups": 0, "note": "no pool module was built"}
    d = core.subdir("c09real")
    consts, pairs = ps["_consts"], ps["_pairs"]
    records = []
    unmapped = 0
    fidelity = {"pairs": 0, "model_shared_real_not": 0, "real_shared_model_not": 0}

    def facts(name):
        src = os.path.join(d, name + ".py")
        with open(src, "w") as f:
            f.write(mods.meta[name][3])
        outf = os.path.join(d, name + "_facts.json")
        ch = core.run_child(L.POOL_FACTS_CHILD, [src, outf], with_snapshot=True, timeout=900)
        if ch.rc != 0 or not os.path.exists(outf):
            core.die("pool facts child failed for %s: rc=%s %s" % (name, ch.rc, ch.err[-1500:]))
        with open(outf) as f:
            return name, json.load(f)

    with concurrent.futures.ThreadPoolExecutor(max_workers=4) as ex:
        allfacts = list(ex.map(facts, names))
    for name, fj in allfacts:
        index, nfun, cases, src = mods.meta[name]
        first_on_line = {}
        for r in fj["records"]:
            if r.get("line") is not None and r["line"] not in first_on_line:
                first_on_line[r["line"]] = r
        groups = {}
        slot_of = {}
        for (fn, j, line), (ka, kb, which, _tg) in zip(index, cases):
            k = kb if which else ka
            c = consts[k]["c"]
            r = first_on_line.get(line)
            kind_prefix = {"tuple": "tuple", "fset": "frozenset", "slice": "slice"}.get(c["k"])
            if kind_prefix is None or (c["k"] == "tuple" and not c["items"]):
                continue
            if r is None or r["prefix"] != kind_prefix or not r["keyed"]:
                unmapped += 1
                continue
            groups.setdefault(r["slot"], []).append(c)
            slot_of[(ka, kb, which)] = r["slot"]
        for (ka, kb, which, _tg) in cases:
            if which and (ka, kb, 0) in slot_of and (ka, kb, 1) in slot_of:
                fidelity["pairs"] += 1
                real = slot_of[(ka, kb, 0)] == slot_of[(ka, kb, 1)]
                model = pairs[(ka, kb)]["shared"]
                if model and not real:
                    fidelity["model_shared_real_not"] += 1
                if real and not model:
                    fidelity["real_shared_model_not"] += 1
        for slot, cs in groups.items():
            records.append({"slot": name + ":" + slot, "consts": cs})
    recf = os.path.join(d, "groups.ndjson")
    core.write_ndjson(recf, records)
    r = core.tlc("ConstPool", cfg="ConstPool_real", workers=WORKERS, env={"RECORDS": recf}, timeout=1500, heap="3g")
    if not r.ok:
        sys.stderr.write(r.out[-4000:])
        core.die("TLC failed on the real pool records (%s)" % (r.violation or r.rc))
    verdicts = [p for p in r.printed if "slot" in p]
    if len(verdicts) != len(records):
        core.die("real pool: %d groups sent, %d verdicts" % (len(records), len(verdicts)))
    bad = 0
    by_slot = {x["slot"]: x for x in records}
    for v in verdicts:
        if not v["ok"]:
            bad += 1
            cs = by_slot[v["slot"]]["consts"]
            causes = sorted(c for c in v["causes"] if c != "none")
            desc = {"part": "pool-real", "cause": causes[0] if len(causes) == 1 else "+".join(causes) or "unexplained",
                    "shared_in_model": v["model_shared"], "kind": cs[0]["k"]}
            rep.disagree(desc, "slot-shared", {"slot": v["slot"], "constants": [L.render_const(c) for c in cs][:8]})
    cov["tlc"].append(dict(r.summary(), config="ConstPool_real", published=len(verdicts)))
    return {"modules": len(names), "groups": len(records), "groups_with_distinguishable_constants": bad, "unmapped_constants": unmapped,
            "states": r.generated, "distinct": r.distinct, "model_fidelity": fidelity}


def replay(path, seed):
    """Re-run the cases of a replay file: every source text in it is compiled from the working tree and
    compared with CPython (exit 1 if any still differs)."""
    with open(path) as f:
        d = json.load(f)
    groups = []
    for c in d.get("cases", []):
        if "src" in c:
            groups.append([c["src"]])
        elif "first" in c and "second" in c:
            groups.append([c["first"], c["second"]])
    if not groups:
        print("nothing to replay in %s" % path)
        return 2
    bad = 0
    for i, g in enumerate(groups):            # one module per case: the pool of a module is part of the case
        mods = Modules()
        mods.add("c09replay%d" % i, g, g)
        obs, err = mods.build_and_run(2)["c09replay%d" % i]
        for j, s in enumerate(g):
            want = py_obs(s)
            got = err if err else obs[j]
            ok = got == want
            bad += 0 if ok else 1
            print("%s %s\n    cpython  %s\n    compiled %s" % ("ok  " if ok else "DIFF", s, json.dumps(want), json.dumps(got)[:600]))
    print("VIOLATION property=%s replay=%s" % (PROP, path) if bad else "no difference left")
    return 1 if bad else 0
