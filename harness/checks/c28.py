"""C28 -- operators on extension types dispatch like on the equivalent Python classes.

spec/BinopSlot.tla    (+ - * @ // ** << & ... and their in-place forms): reference = binary-operator protocol of the
                      language reference; implementation-shaped = CPython's binary_op1 / slot_nb_<op> plus the slot
                      function Cython generates from Utility/ExtensionTypes.c "BinopSlot".
spec/BinopSlotCmp.tla (< <= == != > >=, 64 method subsets, total_ordering): reference = data-model comparison protocol,
                      object defaults, functools.total_ordering; implementation-shaped = do_richcompare plus the
                      tp_richcompare function of ModuleNode.generate_richcmp_function.
TLC enumerates configurations x operand pairs x operator kind and, lazily, the outcome (value / NotImplemented) of every
method that the reference or the implementation-shaped model calls; every terminal state is a case, published with
(result, ordered call log) of both models.  TLC proves Imp = Ref outside structurally described hazard classes, refutes
it inside (strict configs) and proves that CPython's algorithm on plain classes equals the reference formulation.
B1: each case is replayed on generated `cdef class` families (C) and on the identical plain Python classes (P):
S != P -> spec drift (exit 2); C != S -> disagreement.  Descriptors carry the hazard class and whether the
implementation-shaped model predicts exactly the observed (result, log); the known findings match on those.
"""
import concurrent.futures
import json
import os
import random
import sys
import time

import core
import lib_binop as lb

PROP = "C28"
ORD = ("lt", "le", "gt", "ge")
CMPS = [n for n, _ in lb.CMP]

# families of comparison-method subsets (mirror of the definitions at the end of BinopSlotCmp.tla; the check dies if a
# published case needs a class that was not generated)
ALL6 = frozenset(CMPS)
TINY = [frozenset(), ALL6]
FOUR = [frozenset(), frozenset(["lt"]), frozenset(["eq"]), frozenset(["le", "ne"])]
FIVE = [frozenset(), frozenset(["lt"]), frozenset(["eq"]), frozenset(["lt", "eq"]), frozenset(["le", "ne"]), ALL6]
SMALL = [frozenset(), frozenset(["lt"]), frozenset(["eq"]), frozenset(["lt", "eq"]), frozenset(["le", "ne"]),
         frozenset(["gt", "eq", "ne"]), ALL6]
MEDIUM = SMALL + [frozenset(x) for x in (["ne"], ["ge", "eq"], ["lt", "gt"], ["eq", "ne"], ["lt", "le", "gt", "ge"], ["le", "eq"])]


def all64():
    out = []
    for m in range(64):
        out.append(frozenset(n for n in CMPS if m & lb.CBITS[n]))
    return out


TIERS = {
    # cmp: (family of C, family of S, family of D) per group of pairs -- mirror of Fam() in BinopSlotCmp.tla
    "quick": {
        "ops": [o[0] for o in lb.OPS[:8]], "depth3_ops": [],
        "tlc_bin": "BinopSlot_quick", "tlc_cmp": "BinopSlotCmp_quick", "strict": False,
        "cmp": [(all64(), [], []), (FOUR, FOUR, [])], "complete_ops": ["add"],
        "cmp_modules": 6,
    },
    "thorough": {
        "ops": [o[0] for o in lb.OPS], "depth3_ops": ["add"],
        "tlc_bin": "BinopSlot_deep", "tlc_cmp": "BinopSlotCmp_thorough", "strict": True,
        "cmp": [(all64(), [], TINY), (FIVE, FIVE, TINY)], "complete_ops": [o[0] for o in lb.OPS[:8]],
        "cmp_modules": 12,
    },
}


def valid_to(chain_defs):
    """functools.total_ordering raises ValueError unless an ordering method is in reach"""
    return any(n in d for d in chain_defs for n in ORD)


def cmp_class_universe(cfgs):
    """All class names the comparison configs can need: {C name: set of class names living with it}, D names."""
    groups, dnames = {}, set()
    for famc, fams, famd in cfgs:
        for dc in famc:
            for tc in (0, 1):
                if tc and not valid_to([dc]):
                    continue
                cn = "C_%d_%d" % (lb.cbits(dc), tc)
                g = groups.setdefault(cn, set([cn]))
                for ds in fams:
                    for ts in (0, 1):
                        if ts and not (valid_to([ds, dc])):
                            continue
                        g.add("S_%d_%d_%d_%d" % (lb.cbits(dc), tc, lb.cbits(ds), ts))
        for dd in famd:
            for td in (0, 1):
                if td and not valid_to([dd]):
                    continue
                dnames.add("D_%d_%d" % (lb.cbits(dd), td))
    return groups, dnames


# --------------------------------------------------------------------------
def obs_class_arith(case, got):
    res, log = got["res"], got["log"]
    dedup = []
    for e in log:
        if e not in dedup:
            dedup.append(e)
    if res.startswith("E:") or res.startswith("?"):
        return "unexpected-" + res
    if res == case["res"] and dedup == case["log"] and len(dedup) < len(log):
        return "method-called-twice"
    if case["rel"] == "same_type" and any(e.endswith(":RL") for e in log):
        return "calls-reflected-for-same-type"
    return "wrong-dispatch" if res != case["res"] else "wrong-call-sequence"


def hazard_arith(case):
    hs = [n for n, f in (("same_type", case["hsame"]), ("chained", case["hchained"])) if f]
    return "+".join(hs) or "none"


def obs_class_cmp(case, got):
    res = got["res"]
    if res.startswith("E:") or res.startswith("?"):
        return "unexpected-" + res
    if res == case["res"]:
        return "call-log-differs"
    if res == "TypeError":
        return "TypeError-instead-of-value"
    if case["res"] == "TypeError":
        return "value-instead-of-TypeError"
    return "wrong-value"


def norm_log(case, key):
    if case.get("same"):
        return [e[:-2] + "XX" for e in case[key]]
    return case[key]


def run_children(jobs, nthreads=8):
    """jobs: list of (key, script, args, outfile).  Returns {key: result dict or ChildResult on failure}."""
    def one(job):
        key, script, args, out = job
        if os.path.exists(out):
            os.unlink(out)
        ch = core.run_child(script, args, timeout=1500, mem_mb=8192)
        if ch.rc != 0 or not os.path.exists(out):
            return key, ch
        with open(out) as f:
            return key, json.load(f)
    with concurrent.futures.ThreadPoolExecutor(max_workers=nthreads) as ex:
        return dict(ex.map(one, jobs))


def run(tier, seed):
    t0 = time.time()
    rng = random.Random(seed)
    rep = core.Reporter(PROP)
    T = TIERS[tier]
    wd = core.subdir("c28")
    pydir = os.path.join(wd, "py")
    os.makedirs(pydir, exist_ok=True)
    cov = {"tlc": []}
    pool = concurrent.futures.ThreadPoolExecutor(max_workers=8)

    # ---- builds start right away (the class families do not depend on TLC's output)
    bin_mods = []          # (modname, op, cs, depth3); operators outside complete_ops get the reduced class family
    full = {"cs": range(8), "ss": range(8), "ds": range(8)}
    for op in T["ops"]:
        if op in T["depth3_ops"]:
            for c in range(8):
                bin_mods.append(("c28_%s_c%d" % (op, c), op, [c], True))
        else:
            bin_mods.append(("c28_%s" % op, op, list(range(8)) if op in T["complete_ops"] else list(lb.REDUCED["cs"]), False))

    def fam(op):
        return full if op in T["complete_ops"] else lb.REDUCED

    def in_family(case, op):
        f, d = fam(op), case["defs"]
        return (("C" not in d or lb.bits(d["C"]) in f["cs"]) and ("S" not in d or lb.bits(d["S"]) in f["ss"])
                and ("D" not in d or lb.bits(d["D"]) in f["ds"]))
    groups, dnames = cmp_class_universe(T["cmp"])
    nmod = T["cmp_modules"]
    cmp_mod_classes = [set(dnames) for _ in range(nmod)]
    cmp_mod_of = {}
    for i, cn in enumerate(sorted(groups)):
        cmp_mod_classes[i % nmod] |= groups[cn]
        cmp_mod_of[cn] = i % nmod
    specs = [core.BuildSpec(name, lb.binop_source(op, True, depth3=d3, cs=cs, ss=fam(op)["ss"], ds=fam(op)["ds"])) for name, op, cs, d3 in bin_mods]
    specs += [core.BuildSpec("c28_cmp%d" % i, lb.cmp_source(cl, True)) for i, cl in enumerate(cmp_mod_classes)]
    for name, op, cs, d3 in bin_mods:
        with open(os.path.join(pydir, "p" + name[1:] + ".py"), "w") as f:
            f.write(lb.binop_source(op, False, depth3=d3, cs=cs, ss=fam(op)["ss"], ds=fam(op)["ds"]))
    for i, cl in enumerate(cmp_mod_classes):
        with open(os.path.join(pydir, "p28_cmp%d.py" % i), "w") as f:
            f.write(lb.cmp_source(cl, False))
    phase = {}

    def timed_build():
        r = core.build_many(specs, None, 14 if tier == "quick" else 16, timeout=3000)
        phase["builds_done_at"] = round(time.time() - t0, 1)
        return r
    fut_build = pool.submit(timed_build)

    # ---- model checking (concurrently)
    def tl(module, cfg, must_fail=None):
        r = core.tlc(module, cfg=cfg, workers=8, timeout=3000)
        if must_fail:
            if r.violation != must_fail:
                sys.stderr.write(r.out[-3000:])
                core.die("TLC %s/%s: expected violation of %s, got %s" % (module, cfg, must_fail, r.violation or r.rc))
        elif not r.ok:
            sys.stderr.write(r.out[-3000:])
            core.die("TLC failed (%s): %s" % (r.violation or r.rc, r.cmd))
        return r
    futs = [("arith: cases published; CPython's algorithm on plain classes = reference; Imp = Ref outside HSame/HChained",
             pool.submit(tl, "BinopSlot", T["tlc_bin"])),
            ("cmp: cases published; Imp = Ref outside the total_ordering hazards", pool.submit(tl, "BinopSlotCmp", T["tlc_cmp"]))]
    if T["strict"]:
        futs += [("arith: Imp = Ref refuted on cdef classes", pool.submit(tl, "BinopSlot", "BinopSlot_strict", "ImplAgrees")),
                 ("cmp: Imp = Ref refuted (total_ordering)", pool.submit(tl, "BinopSlotCmp", "BinopSlotCmp_strict", "ImplAgrees"))]
    tl_res = []
    for what, f in futs:
        r = f.result()
        tl_res.append((what, r))
        cov["tlc"].append(dict(r.summary(), config=what, violation=r.violation))
    phase["tlc_done_at"] = round(time.time() - t0, 1)
    bin_cases = tl_res[0][1].printed
    cmp_cases = tl_res[1][1].printed
    if not bin_cases or not cmp_cases:
        core.die("no cases published")
    for c in bin_cases:
        c["beh"] = c["beh"] if isinstance(c["beh"], dict) else {}
    for c in cmp_cases:
        c["beh"] = c["beh"] if isinstance(c["beh"], dict) else {}

    # vacuity guard on the model: every class of case must be present
    def cnt(cases, pred):
        return sum(1 for c in cases if pred(c))
    vac = {
        "arith_cases": len(bin_cases), "cmp_cases": len(cmp_cases),
        "arith_typeerror": cnt(bin_cases, lambda c: c["res"] == "TypeError"),
        "arith_reflected_first": cnt(bin_cases, lambda c: c["log"] and c["log"][0].endswith(":RL") and len(c["log"]) > 1),
        "arith_inplace_hit": cnt(bin_cases, lambda c: c["ip"] and c["res"].endswith(".iop")),
        "arith_inplace_fallback": cnt(bin_cases, lambda c: c["ip"] and len(c["log"]) > 1 and c["log"][0].split(":")[0].endswith(".iop")),
        "arith_three_calls": cnt(bin_cases, lambda c: len(c["log"]) == 3),
        "arith_model_deviates": cnt(bin_cases, lambda c: (c["res"], c["log"]) != (c["ires"], c["ilog"])),
        "arith_impl_only_calls": cnt(bin_cases, lambda c: set(e.split(":")[0] for e in c["ilog"]) - set(e.split(":")[0] for e in c["log"])),
        "cmp_typeerror": cnt(cmp_cases, lambda c: c["res"] == "TypeError"),
        "cmp_identity_default": cnt(cmp_cases, lambda c: not c["log"] and c["op"] in ("eq", "ne")),
        "cmp_same_object": cnt(cmp_cases, lambda c: c["same"]),
        "cmp_total_ordering": cnt(cmp_cases, lambda c: any(c["tos"].values())),
        "cmp_no_total_ordering": cnt(cmp_cases, lambda c: not any(c["tos"].values())),
        "cmp_subclass_first": cnt(cmp_cases, lambda c: c["rel"] == "right_is_subclass" and c["log"] and c["log"][0].endswith(":RL")),
        "cmp_model_deviates": cnt(cmp_cases, lambda c: (c["res"], c["log"]) != (c["ires"], c["ilog"])),
    }
    for k in ("same_type", "right_is_subclass", "left_is_subclass", "unrelated"):
        vac["arith_rel_" + k] = cnt(bin_cases, lambda c: c["rel"] == k)
        vac["cmp_rel_" + k] = cnt(cmp_cases, lambda c: c["rel"] == k)
    subsets_c = set(tuple(sorted(c["defs"]["C"])) for c in cmp_cases if "C" in c["defs"] and not c["tos"]["C"])
    vac["cmp_subsets_of_C_without_total_ordering"] = len(subsets_c)
    vac["cmp_subsets_of_C_with_total_ordering"] = len(set(tuple(sorted(c["defs"]["C"])) for c in cmp_cases if "C" in c["defs"] and c["tos"]["C"]))
    for k, v in vac.items():
        if not v:
            core.die("vacuous model: no case of class %s" % k)
    if vac["cmp_subsets_of_C_without_total_ordering"] != 64 or vac["cmp_subsets_of_C_with_total_ordering"] != 60:
        core.die("comparison subsets incomplete: %r" % vac)
    cov["case_classes"] = vac

    # ---- case files per module
    def bin_mod_for(case, op):
        if op in T["depth3_ops"]:
            return "c28_%s_c%d" % (op, lb.bits(case["defs"].get("C")))
        return "c28_%s" % op
    bin_files = {}
    for name, op, cs, d3 in bin_mods:
        sel = [i for i, c in enumerate(bin_cases) if (d3 or "T" not in c["defs"]) and bin_mod_for(c, op) == name and in_family(c, op)]
        path = os.path.join(wd, name + ".ndjson")
        core.write_ndjson(path, [bin_cases[i] for i in sel])
        bin_files[name] = (path, sel)
    cmp_files = {}
    built_names = [set(cl) for cl in cmp_mod_classes]
    per_mod = [[] for _ in range(nmod)]
    for i, c in enumerate(cmp_cases):
        names = lb.cmp_class_names(c)
        m = cmp_mod_of[names["C"]] if "C" in names else 0
        if not set(names.values()) <= built_names[m]:
            core.die("case needs classes that were not generated: %r" % names)
        per_mod[m].append(i)
    for m in range(nmod):
        path = os.path.join(wd, "c28_cmp%d.ndjson" % m)
        core.write_ndjson(path, [cmp_cases[i] for i in per_mod[m]])
        cmp_files["c28_cmp%d" % m] = (path, per_mod[m])

    # ---- P: the same classes as plain Python classes
    def jobs_for(mode, dirs):
        jobs = []
        for name, op, cs, d3 in bin_mods:
            path, sel = bin_files[name]
            if not sel:
                continue
            o = lb.OPD[op]
            mn = name if mode == "compiled" else "p" + name[1:]
            jobs.append((name, lb.BIN_CHILD, [mode, dirs(name), mn, op, path, os.path.join(wd, "%s_%s.json" % (mode, name)), str(seed), o[2], o[3], o[4]],
                         os.path.join(wd, "%s_%s.json" % (mode, name))))
        for m in range(nmod):
            name = "c28_cmp%d" % m
            path, sel = cmp_files[name]
            if not sel:
                continue
            mn = name if mode == "compiled" else "p" + name[1:]
            out = os.path.join(wd, "%s_%s.json" % (mode, name))
            jobs.append((name, lb.CMP_CHILD, [mode, dirs(name), mn, path, out, str(seed)], out))
        return jobs
    pres = run_children(jobs_for("python", lambda n: pydir))
    n_p = 0
    for name, res in pres.items():
        if not isinstance(res, dict):
            core.die("P run of %s failed: rc=%s %s" % (name, res.rc, res.err[-1500:]))
        n_p += res["n"]
        cases, sel = (bin_cases, bin_files[name][1]) if name in bin_files else (cmp_cases, cmp_files[name][1])
        for bd in res["bad"][:3]:
            rep.spec_drift("reference vs plain Python classes (%s)" % name, {"case": cases[sel[bd["i"]]], "python": bd})

    phase["python_oracle_done_at"] = round(time.time() - t0, 1)
    # ---- C: compiled extension types
    builds = {b.name: b for b in fut_build.result()}
    pool.shutdown()
    for b in builds.values():
        if not b.ok and b.stage == "timeout":
            core.die("build of %s timed out (machine overloaded?)" % b.name)
        if not b.ok:
            rep.disagree({"part": "build", "module": b.name, "stage": b.stage}, "build-failed", {"errors": (b.errors or "")[-2000:]})
    okmods = {n for n, b in builds.items() if b.ok}
    cres = run_children([j for j in jobs_for("compiled", lambda n: os.path.dirname(builds[n].so) if builds[n].ok else "") if j[0] in okmods])
    n_c = 0
    agree_model = 0
    dev_by_class = {}
    nontrivial = set()
    for name, res in cres.items():
        is_bin = name in bin_files
        cases, sel = (bin_cases, bin_files[name][1]) if is_bin else (cmp_cases, cmp_files[name][1])
        op = next(o for n, o, _, _ in bin_mods if n == name) if is_bin else None
        if not isinstance(res, dict):
            rep.disagree({"part": "run", "module": name}, "crash" if res.crashed else "error", {"rc": res.rc, "stderr": res.err[-1500:]})
            continue
        n_c += res["n"]
        agree_model += res["agree_model"]
        for bd in res["bad"]:
            case = cases[sel[bd["i"]]]
            predicted = (bd["res"], bd["log"]) == (case["ires"], norm_log(case, "ilog"))
            if is_bin:
                desc = {"part": "arith", "op": op, "inplace": case["ip"], "relation": case["rel"], "left": case["l"], "right": case["r"],
                        "hazard": hazard_arith(case), "model_predicts": predicted}
                oc = obs_class_arith(case, bd)
            else:
                desc = {"part": "cmp", "op": case["op"], "relation": case["rel"], "left": case["l"], "right": case["r"],
                        "to_tags": case["tags"].strip().replace(" ", "+") or "none", "model_predicts": predicted}
                oc = obs_class_cmp(case, bd)
            dev_by_class[(desc["part"], desc.get("hazard") or desc.get("to_tags"), oc)] = dev_by_class.get((desc["part"], desc.get("hazard") or desc.get("to_tags"), oc), 0) + 1
            rep.disagree(desc, oc, {"operator": lb.OPD[op][1] + ("=" if case["ip"] else "") if is_bin else dict(lb.CMP)[case["op"]],
                                    "left": case["l"], "right": case["r"], "same_object": case.get("same", False),
                                    "defs": case["defs"], "total_ordering": case.get("tos"), "behaviour": case["beh"],
                                    "want": {"res": case["res"], "log": norm_log(case, "log")}, "got": bd,
                                    "model": {"res": case["ires"], "log": norm_log(case, "ilog")}})
        for i in sel:
            c = cases[i]
            if c["log"]:
                nontrivial.add((name.split("_c")[0] if is_bin else "cmp", json.dumps([c["l"], c["r"], c.get("ip"), c.get("op"), c.get("same"), c["defs"], c.get("tos"), c["beh"]], sort_keys=True)))

    # ---- binding demonstration: corrupted expectations must be rejected
    st_ok = None
    if okmods:
        name = sorted(n for n in okmods if n in bin_files and bin_files[n][1])[0]
        path, sel = bin_files[name]
        pick = [bin_cases[i] for i in rng.sample(sel, min(60, len(sel)))]
        bad_by = {bd["i"] for bd in cres[name]["bad"]} if isinstance(cres.get(name), dict) else set()
        pick = [dict(c) for c in pick]
        cor = []
        for k, c in enumerate(pick):
            c = dict(c)
            if k % 2 == 0:
                c["log"] = c["log"][:-1] if c["log"] else ["C.op:LR"]
            else:
                c["res"] = "TypeError" if c["res"] != "TypeError" else "C.op"
            cor.append(c)
        cf = os.path.join(wd, "selftest.ndjson")
        core.write_ndjson(cf, cor)
        op = next(o for n, o, _, _ in bin_mods if n == name)
        o = lb.OPD[op]
        out = os.path.join(wd, "selftest.json")
        r = run_children([("st", lb.BIN_CHILD, ["compiled", os.path.dirname(builds[name].so), name, op, cf, out, str(seed), o[2], o[3], o[4]], out)])["st"]
        st_ok = isinstance(r, dict) and len(r["bad"]) == len(cor)
        if not st_ok:
            core.die("binding self-test failed: %r" % (r if isinstance(r, dict) else r.err[-500:]))

    phase["replay_done_at"] = round(time.time() - t0, 1)
    cov["phases_s"] = phase
    states = sum(r.generated for _, r in tl_res)
    cov.update({
        "states": states, "distinct_states": sum(r.distinct for _, r in tl_res), "transitions": states,
        "traces_validated_against_impl": n_c, "evaluations": n_c + n_p, "replayed_on_python_classes": n_p,
        "distinct_nontrivial": len(nontrivial),
        "exhaustive": True,
        "operators": [lb.OPD[o][1] for o in T["ops"]], "depth3_operators": T["depth3_ops"],
        "compiled_modules": len(specs), "compiled_observations_equal_to_impl_model": agree_model,
        "deviation_classes": {"%s/%s/%s" % k: v for k, v in sorted(dev_by_class.items())},
        "corrupted_expectations_rejected": st_ok,
        "rule": "arithmetic: every subset of {__op__, __rop__, __iop__} on each class in the ancestry of the operands (C, S(C)%s cdef; D "
                "unrelated cdef; O unrelated Python class), all ordered operand pairs, binary and in-place, every execution path over "
                "{value, NotImplemented}, for each listed operator; comparisons: all 64 subsets of the six methods on C (60 with "
                "total_ordering), reduced subset families on S(C) / D / O, six operators, every execution path over {True, False, "
                "NotImplemented}, distinct and identical operands; non-trivial = at least one method call expected" % (", T(S)" if T["depth3_ops"] else ""),
        "samples": [{k: c[k] for k in ("l", "r", "ip", "defs", "beh", "res", "log")} for c in rng.sample(bin_cases, 2)]
                   + [{k: c[k] for k in ("l", "r", "op", "same", "defs", "tos", "beh", "res", "log")} for c in rng.sample(cmp_cases, 2)],
    })
    rc = rep.finish()
    cov["known_findings"] = rep.kf_summary()
    core.write_evidence(PROP, tier, seed, "model_checking", cov, time.time() - t0,
                        assumptions=["comparison methods return True / False / NotImplemented (truth values; raw non-bool results are not compared)",
                                     "methods have no side effects other than the call log; methods undecided by both models get seeded random outcomes",
                                     "c_api_binop_methods=False (default); CPython 3.12 static type slots (CYTHON_USE_TYPE_SLOTS=1)",
                                     "Python subclasses of the extension types (P(C)) are only part of the model-internal reference cross-check: "
                                     "their slots are set up by CPython's update_one_slot, which re-enters the base slot (observed, not judged)"],
                        violations=rep.n_violations())
    return rc


def replay(path, seed):
    """Re-run the cases of a replay file on freshly built classes; exit 1 if they still deviate."""
    with open(path) as f:
        rp = json.load(f)
    desc = rp["descriptor"]
    wd = core.subdir("c28replay")
    still = 0
    for k, det in enumerate(rp["cases"]):
        if "defs" not in det:
            print("not a replayable case: %r" % desc)
            return 1
        base = {"l": det["left"], "r": det["right"], "defs": det["defs"], "beh": det["behaviour"], "res": det["want"]["res"],
                "log": det["want"]["log"], "ires": det["model"]["res"], "ilog": det["model"]["log"]}
        cf = os.path.join(wd, "case%d.ndjson" % k)
        out = os.path.join(wd, "out%d.json" % k)
        if desc["part"] == "arith":
            op, d = desc["op"], det["defs"]
            case = dict(base, ip=desc["inplace"])
            name = "c28r%d_%s" % (k, op)
            src = lb.binop_source(op, True, depth3="T" in d, cs=[lb.bits(d.get("C"))], ss=[lb.bits(d.get("S"))], ds=[lb.bits(d.get("D"))])
            o = lb.OPD[op]
            args = lambda so: ["compiled", os.path.dirname(so), name, op, cf, out, str(seed), o[2], o[3], o[4]]
            child = lb.BIN_CHILD
        else:
            case = dict(base, op=desc["op"], same=False, tos=det["total_ordering"])   # logs of same-object cases are already normalised
            if det.get("same_object"):
                case["same"] = True
            name = "c28r%d_cmp" % k
            src = lb.cmp_source(set(lb.cmp_class_names(case).values()), True)
            args = lambda so: ["compiled", os.path.dirname(so), name, cf, out, str(seed)]
            child = lb.CMP_CHILD
        core.write_ndjson(cf, [case])
        b = core.build_many([core.BuildSpec(name, src)])[0]
        if not b.ok:
            print("build failed: %s" % (b.errors or "")[-1000:])
            return 1
        r = run_children([("r", child, args(b.so), out)])["r"]
        if not isinstance(r, dict):
            print("child failed: rc=%s %s" % (r.rc, r.err[-800:]))
            return 1
        got = r["bad"][0] if r["bad"] else {"res": case["res"], "log": case["log"]}
        print("%s %s %s  defs=%s behaviour=%s\n   want %s %s\n   got  %s %s" % (det["left"], det["operator"], det["right"], json.dumps(det["defs"]),
              json.dumps(det["behaviour"]), case["res"], case["log"], got["res"], got["log"]))
        if r["bad"]:
            # same descriptor as in run(); a deviation covered by a known finding is reported as such
            d2 = {k: v for k, v in desc.items() if k != "obs_class"}
            d2["model_predicts"] = (got["res"], got["log"]) == (case["ires"], case["ilog"])
            cc = dict(case, rel=desc["relation"])
            d2["obs_class"] = obs_class_arith(cc, got) if desc["part"] == "arith" else obs_class_cmp(cc, got)
            kf = [k for k in core.load_known_findings(PROP) if core._match(k["match"], d2)]
            if kf:
                print("KNOWN-FINDING: property=%s %s [%s]" % (PROP, kf[0]["what"], kf[0]["id"]))
            else:
                still += 1
    if still:
        print("VIOLATION property=%s replay=%s" % (PROP, path))
    return 1 if still else 0
