"""C44 part B: tracebacks of compiled code and the position tables attached to compiled functions.

spec/Traceback.tla enumerates call chains (frame kinds def / cdef / method / generator, padding,
try-finally wrapping) and gives, from its layout function, the expected traceback
[(function, line of the active statement)].  The chains are rendered exactly in that layout,
compiled, run; traceback.extract_tb() of the propagated exception is compared with the spec
(P = the same source under CPython for chains without cdef frames).
B3 + records->verdict: the positions the compiler recorded for each function (facts exported from
CodeObjectNode) and the co_linetable bytes of the compiled function's code object are fed to
spec/LineTable.tla, which must decode the table to exactly those positions.
"""
import json
import os
import random
import sys

import calls
import core

KINDS = ["def", "cdef", "method", "gen"]


def render_chain(cid, chain, base_line):
    """returns (source lines, entry call expression, names per frame).  Layout = Traceback.tla."""
    lines = ["# chain %d" % cid, "# %s" % json.dumps([[f["kind"], f["pad"], f["tf"]] for f in chain])]
    n = len(chain)

    def callexpr(k):   # expression calling frame k (1-based) with x
        f = chain[k - 1]
        if f["kind"] == "method":
            return "C_%d_%d().m(x)" % (cid, k)
        if f["kind"] == "gen":
            return "next(f_%d_%d(x))" % (cid, k)
        return "f_%d_%d(x)" % (cid, k)
    for k in range(n, 0, -1):
        f = chain[k - 1]
        ind = "    "
        if f["kind"] == "method":
            lines.append("class C_%d_%d:" % (cid, k))
            lines.append("    def m(self, x):")
            ind = "        "
        elif f["kind"] == "cdef":
            lines.append("cdef object f_%d_%d(x):" % (cid, k))
        else:
            lines.append("def f_%d_%d(x):" % (cid, k))
        body = ind
        if f["tf"]:
            lines.append(ind + "try:")
            body = ind + "    "
        for _ in range(f["pad"]):
            lines.append(body + "x = x")
        if k == n:
            active = "raise ValueError(x)"
        else:
            active = callexpr(k + 1)
            if f["kind"] == "gen":
                active = "yield " + active
        lines.append(body + active)
        if f["tf"]:
            lines.append(ind + "finally:")
            lines.append(ind + "    try:")
            lines.append(ind + "        raise KeyError(x)")
            lines.append(ind + "    except KeyError:")
            lines.append(ind + "        pass")
        lines.append("")
    return lines, callexpr(1)


_DRIVER = r'''
import json, sys, os, importlib, traceback, types
mode, moddir, modname, entries_file, outfile = sys.argv[1:6]
if mode == "compiled":
    sys.path.insert(0, moddir)
    mod = importlib.import_module(modname)
    assert mod.__file__.endswith(".so"), mod.__file__
else:
    mod = types.ModuleType(modname)
    src = os.path.join(moddir, modname + "_src.py")
    exec(compile(open(src).read(), src, "exec"), mod.__dict__)
entries = json.load(open(entries_file))
out = []
for e in entries:
    x = 7
    try:
        eval(e["call"], dict(vars(mod)), {"x": x})
        out.append({"cid": e["cid"], "tb": None, "exc": None})
    except BaseException as ex:
        tb = traceback.extract_tb(ex.__traceback__)[1:]    # drop the driver's own frame(s)
        tb = [t for t in tb if t.name != "<module>"]
        out.append({"cid": e["cid"], "exc": type(ex).__name__,
                    "tb": [[t.name, t.lineno, os.path.basename(t.filename)] for t in tb]})
codes = []
if mode == "compiled":
    for name, obj in list(vars(mod).items()):
        fn = obj
        if isinstance(obj, type) and hasattr(obj, "m"):
            fn = obj.m
        co = getattr(fn, "__code__", None)
        if co is not None and (name.startswith("f_") or name.startswith("C_")):
            codes.append({"name": co.co_name, "first": co.co_firstlineno, "bytes": list(co.co_linetable),
                          "positions": [[-1 if v is None else v for v in p] for p in co.co_positions()]})
json.dump({"runs": out, "codes": codes}, open(outfile, "w"))
'''


def run_part(tier, seed, rep, cov):
    rng = random.Random(seed + 44)
    t = core.tlc_or_die("Traceback", cfg="Traceback", timeout=600)
    cov["tlc"].append(dict(t.summary(), config="Traceback: chains of depth <= 3 over 4 kinds x pads {0,2} x try/finally"))
    allc = [r for r in t.printed if r["chain"][0]["kind"] != "cdef" and r["chain"][-1]["kind"] != "gen"]
    if len(allc) < 1000:
        core.die("Traceback.tla published %d usable chains" % len(allc))
    # every chain of depth <= 2, a seeded sample of depth 3
    chosen = [r for r in allc if len(r["chain"]) <= 2] + core.sample([r for r in allc if len(r["chain"]) == 3],
                                                                     150 if tier == "quick" else 1500, rng)
    per_mod = 120
    mods = []
    for mi in range(0, len(chosen), per_mod):
        part = chosen[mi:mi + per_mod]
        lines = []
        entries = []
        for j, r in enumerate(part):
            cid = mi + j
            base = len(lines)
            ls, call = render_chain(cid, r["chain"], base)
            lines.extend(ls)
            n = len(r["chain"])
            exp = []
            for e in r["tb"]:
                k = e["k"]
                nm = "m" if r["chain"][k - 1]["kind"] == "method" else "f_%d_%d" % (cid, k)
                exp.append([nm, base + e["line"]])
            entries.append({"cid": cid, "call": call, "exp": exp, "chain": r["chain"], "has_cdef": any(f["kind"] == "cdef" for f in r["chain"]),
                            "deflines": {("m" if r["chain"][e["k"] - 1]["kind"] == "method" else "f_%d_%d" % (cid, e["k"])): base + e["defline"] for e in r["tb"]}})
        mods.append(("c44tb%d" % (mi // per_mod), "\n".join(lines) + "\n", entries))
    builds = core.build_many([core.BuildSpec(name, src, kind="pyx", facts="node_positions") for name, src, _ in mods])
    wd = core.subdir("c44tb")
    n_tb = 0
    lt_records = []
    for (name, src, entries), b in zip(mods, builds):
        if not b.ok:
            rep.disagree({"part": "traceback", "kind": "build-failed"}, "build-failed", {"errors": b.errors[-2000:], "module": name})
            continue
        ef = os.path.join(wd, name + "_entries.json")
        with open(ef, "w") as f:
            json.dump(entries, f)
        # P: CPython on the chains without cdef frames
        pdir = os.path.join(wd, name + "_py")
        os.makedirs(pdir, exist_ok=True)
        psrc = "\n".join(l if not l.startswith("cdef object ") else "def " + l[len("cdef object "):] for l in src.split("\n"))
        with open(os.path.join(pdir, name + "_src.py"), "w") as f:
            f.write(psrc)
        pout = os.path.join(wd, name + "_p.json")
        chp = core.run_child(_DRIVER, ["python", pdir, name, ef, pout], timeout=300)
        cout = os.path.join(wd, name + "_c.json")
        chc = core.run_child(_DRIVER, ["compiled", os.path.dirname(b.so), name, ef, cout], timeout=300)
        if chp.rc != 0 or not os.path.exists(pout):
            core.die("traceback P run failed: %s" % chp.err[-1000:])
        if chc.rc != 0 or not os.path.exists(cout):
            rep.disagree({"part": "traceback", "kind": "run-failed"}, "crash" if chc.crashed else "error", {"stderr": chc.err[-1500:], "module": name})
            continue
        pres = {r["cid"]: r for r in json.load(open(pout))["runs"]}
        cj = json.load(open(cout))
        cres = {r["cid"]: r for r in cj["runs"]}
        for e in entries:
            exp = e["exp"]
            p = pres[e["cid"]]
            ptb = [[n_, l] for n_, l, fn in (p["tb"] or [])]
            if ptb != exp or p["exc"] != "ValueError":
                rep.spec_drift("Traceback.tla layout vs CPython", {"chain": e["chain"], "spec": exp, "cpython": p})
            c = cres[e["cid"]]
            n_tb += 1
            ctb = [[n_.split(".")[-1], l] for n_, l, fn in (c["tb"] or [])]
            files_ok = all(fn.rsplit(".", 1)[0] == name for n_, l, fn in (c["tb"] or []))
            if c["exc"] != "ValueError" or ctb != exp or not files_ok:
                kinds = [f["kind"] for f in e["chain"]]
                what = "exception" if c["exc"] != "ValueError" else ("file" if ctb == exp else
                       ("length" if len(ctb) != len(exp) else "line-or-name"))
                rep.disagree({"part": "traceback", "kinds": kinds, "tf": [f["tf"] for f in e["chain"]], "what": what},
                             "wrong-traceback", {"chain": e["chain"], "want": exp, "got": c, "module": name})
        # position tables of the compiled functions vs the positions the compiler recorded (facts)
        facts = {(f["name"], f["first"]): f["positions"] for f in (b.facts or []) if "error" not in f}
        for co in cj["codes"]:
            rec = facts.get((co["name"], co["first"]))
            if rec is None:
                rep.disagree({"part": "codeobj", "kind": "no-fact-for-code-object"}, "missing", {"code": co["name"], "first": co["first"]})
                continue
            lt_records.append({"id": len(lt_records), "first": co["first"], "pos": rec, "bytes": co["bytes"],
                               "name": co["name"], "cpython_positions": co["positions"]})
    # records -> verdict with the reference decoder of LineTable.tla
    if lt_records:
        recf = os.path.join(wd, "lt_records.ndjson")
        core.write_ndjson(recf, [{k: r[k] for k in ("id", "first", "pos", "bytes")} for r in lt_records])
        tl = core.tlc_or_die("LineTable", cfg="LineTable", env={"RECORDS": recf}, workers=1, timeout=1200)
        verdict = tl.printed[-1]
        if verdict["n"] != len(lt_records):
            core.die("LineTable.tla saw %s code-object records, expected %d" % (verdict["n"], len(lt_records)))
        bad = set(verdict["bad"])
        for r in lt_records:
            p_ok = r["cpython_positions"] == r["pos"]
            if p_ok != (r["id"] not in bad):
                rep.spec_drift("LineTable decoder vs CPython co_positions (compiled code objects)", r)
            if r["id"] in bad:
                rep.disagree({"part": "codeobj", "kind": "table-does-not-decode-to-recorded-positions"}, "wrong-table",
                             {"function": r["name"], "first": r["first"], "recorded": r["pos"], "decodes_as": r["cpython_positions"]})
        cov["tlc"].append(dict(tl.summary(), config="LineTable: position tables of compiled code objects"))
        cov["states"] += tl.generated
        cov["transitions"] += tl.generated
    cov["states"] += t.generated
    cov["distinct_states"] += t.distinct
    cov["transitions"] += t.generated
    cov["traces_validated_against_impl"] += n_tb + len(lt_records)
    cov["evaluations"] += n_tb + len(lt_records)
    cov["distinct_nontrivial"] += sum(1 for r in chosen if len(r["chain"]) > 1)
    cov["traceback_chains"] = n_tb
    cov["code_object_tables"] = len(lt_records)
    cov["samples"].append({"chain": chosen[-1]["chain"], "expected_traceback": chosen[-1]["tb"]})
