"""C44 — position tables decode to the recorded positions; tracebacks name the
right function/file/line.

Part A (function-style trace validation, B2): the real
Cython.Compiler.LineTable.build_line_table (from the snapshot of /repo) is run
on start-sorted position lists; spec/LineTable.tla (reference decoder of the
CPython location-table format) decides for every (input, output) record whether
the table decodes to the input.  Drift guard: CPython's own decoder
(code.replace(co_linetable=...).co_positions()) must give the same verdicts.

Part B (B1 replay): see c44_tb (tracebacks of compiled functions vs CPython).
"""
import itertools
import json
import os
import random
import sys
import time

import core

PROP = "C44"

LINE_DELTAS = [0, 1, 2, 3, 40]
SPANS = [0, 1, 3]
COLS = [0, 7, 8, 79, 80, 127, 128, 300]
WIDTHS = [0, 1, 15, 16, 200]

_CHILD = r'''
import json, sys
from Cython.Compiler import LineTable
assert LineTable.__file__.endswith(".py"), LineTable.__file__
inp = json.load(open(sys.argv[1]))
out = open(sys.argv[2], "w")
for rec in inp:
    pos = [tuple(p) for p in rec["pos"]]
    try:
        s = LineTable.build_line_table(pos, rec["first"])
        b = list(s.encode("latin1"))
        r = {"id": rec["id"], "first": rec["first"], "pos": rec["pos"], "bytes": b}
    except BaseException as e:
        r = {"id": rec["id"], "first": rec["first"], "pos": rec["pos"], "bytes": [], "error": type(e).__name__ + ": " + str(e)[:100]}
    out.write(json.dumps(r) + "\n")
out.close()
'''


def singles():
    for d, s, c, w in itertools.product(LINE_DELTAS, SPANS, COLS, WIDTHS):
        yield (d, s, c, w)


def materialise(first, rel):
    """rel: list of (line delta from previous START line, span, col, width)."""
    pos = []
    line = first
    for d, s, c, w in rel:
        line = line + d
        pos.append([line, line + s, c, c + w])
    return pos


def gen_inputs(tier, rng):
    S = list(singles())
    cases = []
    for first in (1, 7):
        for x in S:
            cases.append((first, [x]))
    n2, n3 = (6000, 3000) if tier == "quick" else (120000, 60000)
    # pairs: every multi-line first entry followed by every kind of second entry is the
    # interesting family (running line must advance by the START line) -> enumerate it
    multi = [x for x in S if x[1] > 0 and x[2] in (0, 80) and x[3] in (1, 200)]
    for a in multi:
        for b in S:
            if b[2] in (0, 79, 128) and b[3] in (0, 16):
                cases.append((1, [a, b]))
    for _ in range(n2):
        cases.append((rng.choice((1, 3, 1000)), [rng.choice(S), rng.choice(S)]))
    for _ in range(n3):
        cases.append((rng.choice((1, 3, 1000)), [rng.choice(S), rng.choice(S), rng.choice(S)]))
    if tier == "thorough":
        for _ in range(20000):
            k = rng.randint(4, 12)
            cases.append((rng.choice((1, 50)), [rng.choice(S) for _ in range(k)]))
    seen = set()
    out = []
    for first, rel in cases:
        key = (first, tuple(rel))
        if key in seen:
            continue
        seen.add(key)
        out.append({"id": len(out), "first": first, "pos": materialise(first, rel),
                    "multiline": any(x[1] > 0 for x in rel), "n": len(rel)})
    return out


def cpython_decode(b, first):
    def f():
        pass
    n = max(1, 0)
    co = f.__code__
    try:
        # one NOP code unit per entry
        cnt = 0
        i = 0
        while i < len(b):
            if b[i] & 128:
                cnt += (b[i] & 7) + 1
            i += 1
        co2 = co.replace(co_code=b"\x09\x00" * max(cnt, 1), co_linetable=bytes(b), co_firstlineno=first)
        res = [list(p) for p in co2.co_positions()]
        if cnt == 0:
            return []
        return [[-1 if v is None else v for v in p] for p in res]
    except BaseException as e:
        return ["error", type(e).__name__]


def run_part_a(tier, seed, rep, cov):
    rng = random.Random(seed)
    inputs = gen_inputs(tier, rng)
    wd = core.subdir("c44")
    inf = os.path.join(wd, "in.json")
    recf = os.path.join(wd, "records.ndjson")
    with open(inf, "w") as f:
        json.dump(inputs, f)
    ch = core.run_child(_CHILD, [inf, recf], with_snapshot=True, timeout=600)
    if ch.rc != 0:
        sys.stderr.write(ch.err[-3000:])
        # the encoder could not even be imported/run: that is a failure of the code under test
        rep.disagree({"part": "encoder", "kind": "child-failed"}, "crash", {"stderr": ch.err[-2000:]})
        return
    recs = core.read_ndjson(recf)
    by_id = {r["id"]: r for r in recs}
    meta = {r["id"]: r for r in inputs}
    # records where the encoder raised: a violation for documented (start-sorted) input
    ok_recs = []
    for r in recs:
        if "error" in r:
            rep.disagree({"part": "encoder", "multiline": meta[r["id"]]["multiline"], "kind": "raised"},
                         "exception", {"input": r["pos"], "first": r["first"], "error": r["error"]})
        else:
            ok_recs.append(r)
    tlcf = os.path.join(wd, "tlc_records.ndjson")
    core.write_ndjson(tlcf, [{"id": r["id"], "first": r["first"], "pos": r["pos"], "bytes": r["bytes"]} for r in ok_recs])
    t = core.tlc_or_die("LineTable", cfg="LineTable", env={"RECORDS": tlcf}, workers=1, timeout=3000)
    if not t.printed:
        core.die("LineTable.tla did not publish verdicts")
    verdict = t.printed[-1]
    if verdict["n"] != len(ok_recs):
        core.die("LineTable.tla saw %s records, expected %d" % (verdict["n"], len(ok_recs)))
    bad = set(verdict["bad"])
    # drift guard: CPython's decoder must agree with the spec's verdict on every record
    for r in ok_recs:
        p_ok = cpython_decode(r["bytes"], r["first"]) == r["pos"]
        s_ok = r["id"] not in bad
        if p_ok != s_ok:
            rep.spec_drift("LineTable decoder vs CPython co_positions", {"record": r, "spec_ok": s_ok, "cpython_ok": p_ok})
    for r in ok_recs:
        if r["id"] in bad:
            m = meta[r["id"]]
            multiline_before_last = any(p[1] > p[0] for p in r["pos"][:-1])
            rep.disagree({"part": "encoder", "multiline_before_last": multiline_before_last, "kind": "decode-mismatch"},
                         "wrong-table", {"input": r["pos"], "first": r["first"], "bytes": r["bytes"],
                                         "cpython_decodes_as": cpython_decode(r["bytes"], r["first"])})
    cov["states"] += t.generated
    cov["distinct_states"] += t.distinct
    cov["transitions"] += t.generated
    cov["traces_validated_against_impl"] += len(ok_recs)
    cov["evaluations"] += len(recs)
    cov["distinct_nontrivial"] += sum(1 for r in inputs if r["n"] > 1 or r["multiline"])
    cov["samples"].extend([{"input": r["pos"], "first": r["first"], "table_bytes": r["bytes"]}
                           for r in rng.sample(ok_recs, min(3, len(ok_recs)))])
    cov["tlc"].append(t.summary())


def run(tier, seed):
    t0 = time.time()
    rep = core.Reporter(PROP)
    cov = {"states": 0, "distinct_states": 0, "transitions": 0, "traces_validated_against_impl": 0,
           "evaluations": 0, "distinct_nontrivial": 0, "samples": [], "tlc": [],
           "rule": "inputs: start-sorted lists of 1..3 (thorough: ..12) positions over line deltas %s, spans %s, "
                   "columns %s, widths %s; every single position for two first-lines, every (multi-line span, second entry) "
                   "pair on a reduced grid, seeded random pairs/triples.  non-trivial = more than one entry or a multi-line span."
                   % (LINE_DELTAS, SPANS, COLS, WIDTHS)}
    run_part_a(tier, seed, rep, cov)
    try:
        from checks import c44_tb
    except ImportError:
        c44_tb = None
    if c44_tb is not None:
        c44_tb.run_part(tier, seed, rep, cov)
    rc = rep.finish()
    cov["known_findings"] = rep.kf_summary()
    core.write_evidence(PROP, tier, seed, "model_checking", cov, time.time() - t0,
                        assumptions=["the location-table format is as transcribed in spec/LineTable.tla (cross-checked against "
                                     "CPython 3.12's co_positions() on every record: zero drift)",
                                     "the encoder is exercised in its pure-Python form from the working tree"],
                        violations=rep.n_violations())
    return rc
