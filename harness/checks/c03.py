"""C03 — // and % on C integers: floor semantics (cdivision off), C truncation (on),
ZeroDivisionError for a zero divisor.

spec/CDivMod.tla: reference (declaratively validated FloorDiv/PyMod), implementation-shaped
__Pyx_div_T/__Pyx_mod_T + DivNode call site, with C promotion.  TLC: every (a, b) pair of the
8-bit operand types, the 16-bit boundary grid, and the scaled images of int/long where the
model reaches C undefined behaviour at (MIN, -1) ("hazards").
Binding B1: TLC publishes, per (type, op, cdivision, a), the row of demanded outcomes over all
b; every demanded cell is executed on compiled code (variable and constant divisors).  The
hazards found in the scaled model are executed on the real int/long/long long/Py_ssize_t types,
each in its own child.  Wide types additionally: boundary grid + seeded random pairs with the
demand computed by Python integers (P) -- TLC cannot hold 64-bit values.
"""
import json
import os
import random
import sys
import time

import calls
import core

PROP = "C03"
cZ, cU, cO, cUB = 100000, 100001, 100002, 100003

#        tag          C type               bits signed long-sized
TYPES = [("schar", "signed char", 8, True, False), ("uchar", "unsigned char", 8, False, False),
         ("short", "short", 16, True, False), ("ushort", "unsigned short", 16, False, False),
         ("int", "int", 32, True, False), ("uint", "unsigned int", 32, False, False),
         ("long", "long", 64, True, True), ("ulong", "unsigned long", 64, False, True),
         ("llong", "long long", 64, True, True), ("ullong", "unsigned long long", 64, False, True),
         ("ssize", "Py_ssize_t", 64, True, True), ("size", "size_t", 64, False, True)]


def trange(bits, signed):
    return (-(1 << (bits - 1)), (1 << (bits - 1)) - 1) if signed else (0, (1 << bits) - 1)


def consts_for(bits, signed):
    lo, hi = trange(bits, signed)
    cs = [1, 2, 3, 7, hi]
    if signed:
        cs += [-1, -2, -3, lo]
    return cs


def cname(c):
    return ("m%d" % -c) if c < 0 else str(c)


def gen_source():
    src = ["# cython: language_level=3", "cimport cython", ""]
    for tag, ct, bits, signed, _ in TYPES:
        for cdiv in (False, True):
            pre = "c" if cdiv else ""
            for op, sym in (("div", "//"), ("mod", "%")):
                src.append("@cython.cdivision(%s)\ndef %s%s_%s(%s a, %s b):\n    return a %s b\n" % (cdiv, pre, op, tag, ct, ct, sym))
                for c in consts_for(bits, signed):
                    lo, hi = trange(bits, signed)
                    # a typed constant divisor, so that the operation keeps the operand type
                    src.append("@cython.cdivision(%s)\ndef %s%sk_%s_%s(%s a):\n    return a %s (<%s>%s)\n" % (
                        cdiv, pre, op, tag, cname(c), ct, sym, ct, ("(%d - 1)" % (c + 1)) if c == lo and signed else str(c)))
    return "\n".join(src)


def floor_demand(op, cdiv, a, b, bits_r, signed_r):
    """P: demand computed with Python integers."""
    if b == 0:
        return cU if cdiv else cZ
    if cdiv and signed_r and a == -(1 << (bits_r - 1)) and b == -1:
        return cU
    if cdiv:
        q = abs(a) // abs(b) * (1 if (a < 0) == (b < 0) else -1)
        v = q if op == "div" else a - q * b
    else:
        v = a // b if op == "div" else a % b
    lo, hi = trange(bits_r, signed_r)
    return v if lo <= v <= hi else cU


def result_type(bits, signed):
    """C promotion as Cython applies it: char/short -> int."""
    return (32, True) if bits < 32 else (bits, signed)


def expect_obs(d):
    if d == cZ:
        return "E:ZeroDivisionError"
    if d == cO:
        return "E:OverflowError"
    return calls.obs_int(d)


def run(tier, seed):
    t0 = time.time()
    rng = random.Random(seed)
    rep = core.Reporter(PROP)
    cov = {"tlc": []}

    # ---- model checking
    tl = {}
    for cfg in ("char", "short", "scaled"):
        r = core.tlc_or_die("CDivMod", cfg="CDivMod_" + cfg, timeout=1200)
        tl[cfg] = r
        cov["tlc"].append(dict(r.summary(), config=cfg))
    rows = tl["char"].printed + tl["short"].printed
    hazards = tl["scaled"].printed
    if len(rows) < 2000 or not hazards:
        core.die("CDivMod published %d rows, %d hazards" % (len(rows), len(hazards)))

    # ---- build
    b = core.build_many([core.BuildSpec("c03mod", gen_source())])[0]
    if not b.ok:
        rep.disagree({"part": "build", "stage": b.stage}, "build-failed", {"errors": b.errors[-3000:]})
        rc = rep.finish()
        core.write_evidence(PROP, tier, seed, "model_checking", {"evaluations": 1, "distinct_nontrivial": 0, "states": 1,
                            "transitions": 1, "traces_validated_against_impl": 0, "samples": ["build failed"]}, time.time() - t0, violations=1)
        return rc

    tagof = {(8, True): "schar", (8, False): "uchar", (16, True): "short", (16, False): "ushort"}
    cl = []     # calls
    meta = []   # (descriptor, demand, source)
    # (1) rows published by TLC: all pairs of 8-bit types, grid of 16-bit types
    for r in rows:
        tag = tagof[(r["w"], r["s"])]
        pre = "c" if r["cdiv"] else ""
        a = r["a"]
        bits_r, signed_r = result_type(r["w"], r["s"])
        ks = set(consts_for(r["w"], r["s"]))
        for bs, d in r["row"].items():
            bb = int(bs)
            # S vs P: the spec's demand must equal Python's integer arithmetic
            p = floor_demand(r["op"], r["cdiv"], a, bb, bits_r, signed_r)
            if p != d:
                rep.spec_drift("CDivMod.Demand vs Python ints", {"row": {k: r[k] for k in ("w", "s", "op", "cdiv", "a")}, "b": bb, "spec": d, "python": p})
            if d == cU:
                continue
            desc = {"part": "small", "op": r["op"], "cdiv": r["cdiv"], "type": tag, "a_is_min": a == trange(r["w"], r["s"])[0],
                    "b": bb if bb in (-1, 0) else "other", "const_divisor": False}
            cl.append(["%s%s_%s" % (pre, r["op"], tag), [a, bb]])
            meta.append((desc, d, "tlc-row"))
            if bb in ks:
                cl.append(["%s%sk_%s_%s" % (pre, r["op"], tag, cname(bb)), [a]])
                meta.append((dict(desc, const_divisor=True), d, "tlc-row"))
    n_small = len(cl)
    # (2) wide types: boundary grid + random, demand from P
    wide = [t for t in TYPES if t[2] >= 32]
    nrand = 300 if tier == "quick" else 20000
    for tag, ct, bits, signed, is_long in wide:
        lo, hi = trange(bits, signed)
        grid = sorted({v for v in (lo, lo + 1, lo + 2, -7, -3, -2, -1, 0, 1, 2, 3, 7, hi - 2, hi - 1, hi, hi // 2, hi // 2 + 1,
                                   -(1 << 31), (1 << 31) - 1, (1 << 31), -(1 << 31) - 1, (1 << 32) - 1, 1 << 32) if lo <= v <= hi})
        pairs = [(x, y) for x in grid for y in grid]
        for _ in range(nrand):
            k1, k2 = rng.randint(1, bits), rng.randint(1, bits)
            x = rng.randint(max(lo, -(1 << k1)), min(hi, (1 << k1) - 1))
            y = rng.randint(max(lo, -(1 << k2)), min(hi, (1 << k2) - 1))
            pairs.append((x, y))
        ks = set(consts_for(bits, signed))
        for cdiv in (False, True):
            pre = "c" if cdiv else ""
            for op in ("div", "mod"):
                for x, y in pairs:
                    d = floor_demand(op, cdiv, x, y, bits, signed)
                    hazard = signed and x == lo and y == -1
                    if d == cU:
                        continue   # no demand (cells where the model reaches UB are executed below, from its hazard list)
                    desc = {"part": "wide", "op": op, "cdiv": cdiv, "type": tag, "a_is_min": x == lo,
                            "b": y if y in (-1, 0) else "other", "const_divisor": False}
                    cl.append(["%s%s_%s" % (pre, op, tag), [calls.ienc(x), calls.ienc(y)]])
                    meta.append((desc, d, "python-oracle"))
                    if y in ks:
                        cl.append(["%s%sk_%s_%s" % (pre, op, tag, cname(y)), [calls.ienc(x)]])
                        meta.append((dict(desc, const_divisor=True), d, "python-oracle"))
    obs = calls.run_calls(b, cl, timeout=900)
    bad_samples = 0
    for (desc, d, src), o, c in zip(meta, obs, cl):
        want = expect_obs(d)
        if o != want:
            oc = "crash" if isinstance(o, str) and (o.startswith("CRASH") or o == "TIMEOUT") else \
                 ("exception" if isinstance(o, str) and o.startswith("E:") else "wrong-value")
            rep.disagree(desc, oc, {"call": c, "want": want, "got": o, "expected_from": src})
    # (3) hazards predicted by the scaled model -> real types, each in its own child
    hz_calls, hz_meta = [], []
    for h in hazards:
        real = [t for t in TYPES if t[2] >= 32 and t[3] and t[4] == h["long"]]
        for tag, ct, bits, signed, is_long in real:
            lo, hi = trange(bits, signed)
            for bb in h["bs"]:
                if not (h["a"] == -128 and bb == -1):
                    core.die("unexpected hazard shape in scaled model: %r" % h)
                d = h["demand"][str(bb)]
                pre = "c" if h["cdiv"] else ""
                desc = {"part": "hazard", "op": h["op"], "cdiv": h["cdiv"], "type": tag, "a_is_min": True, "b": -1,
                        "demanded": d != cU}
                hz_calls.append(["%s%s_%s" % (pre, h["op"], tag), [calls.ienc(lo), -1], True])
                hz_meta.append((dict(desc, const_divisor=False), d))
                hz_calls.append(["%s%sk_%s_m1" % (pre, h["op"], tag), [calls.ienc(lo)], True])
                hz_meta.append((dict(desc, const_divisor=True), d))
    hobs = calls.run_calls(b, hz_calls, timeout=300, tag="hz")
    hz_nodemand_crash = 0
    for (desc, d), o, c in zip(hz_meta, hobs, hz_calls):
        crashed = isinstance(o, str) and (o.startswith("CRASH") or o == "TIMEOUT")
        if d == cU:
            # no demand by C03 (result does not fit); a crash here belongs to C36 and is only counted
            if crashed:
                hz_nodemand_crash += 1
            continue
        want = expect_obs(d)
        if o != want:
            rep.disagree(desc, "crash" if crashed else ("exception" if isinstance(o, str) and o.startswith("E:") else "wrong-value"),
                         {"call": c, "want": want, "got": o})

    # binding demonstration: a corrupted expectation must be rejected
    k = next(i for i, (m, o) in enumerate(zip(meta, obs)) if isinstance(m[1], int) and m[1] not in (cZ, cO) and o == expect_obs(m[1]))
    if obs[k] == expect_obs(meta[k][1] + 1):
        core.die("binding self-test failed")

    nontriv = len({(c[0], json.dumps(c[1])) for c, m in zip(cl, meta) if m[1] in (cZ, cO) or (len(c[1]) == 2 and (c[1][0] != 0))})
    cov.update({
        "states": sum(t.generated for t in tl.values()), "distinct_states": sum(t.distinct for t in tl.values()),
        "transitions": sum(t.generated for t in tl.values()),
        "traces_validated_against_impl": len(cl) + len(hz_calls),
        "evaluations": len(cl) + len(hz_calls), "distinct_nontrivial": nontriv,
        "exhaustive": True,
        "cells_from_tlc_rows": n_small, "cells_from_python_oracle": len(cl) - n_small,
        "hazard_cells_from_scaled_model": len(hz_calls), "hazard_cells_without_demand_that_crashed": hz_nodemand_crash,
        "rule": "every (a, b) of signed/unsigned char (65536 pairs each), the 16-bit boundary grid, x {//, %} x cdivision on/off, variable "
                "and constant divisor; 32/64-bit types on a boundary grid + seeded random pairs (demand from Python ints); non-trivial = "
                "distinct call with non-zero dividend or an expected exception",
        "samples": [{"call": cl[i], "demand": meta[i][1], "got": obs[i]} for i in rng.sample(range(len(cl)), 3)]
                   + [{"call": c, "demand": m[1], "got": o} for c, m, o in list(zip(hz_calls, hz_meta, hobs))[:2]],
    })
    rc = rep.finish()
    cov["known_findings"] = rep.kf_summary()
    core.write_evidence(PROP, tier, seed, "model_checking", cov, time.time() - t0,
                        assumptions=["C promotion makes char/short operations `int` operations (read off the generated C; modelled as rw=24)",
                                     "32/64-bit expectations come from Python integer arithmetic, the model covers them through the scaled "
                                     "8-bit images of int/long (TLC integers are 32-bit)",
                                     "operands of mixed signedness are outside the property"],
                        violations=rep.n_violations())
    return rc
