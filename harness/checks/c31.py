"""C31 — match statements behave like CPython.

spec/MatchStmt.tla: reference semantics of PEP 634 patterns (literal, capture, wildcard, value,
sequence, mapping, class, or, as; nested) over a universe of 87 subject values (scalars, str /
bytes, lists / tuples, list subclass, collections.abc.Sequence subclass and registration, dicts,
dict subclass, Mapping subclass and registration, classes with / without / with a broken
__match_args__, a raising attribute, a cdef class).  A generator inside the spec produces the
statements (<= 4 cases, guards, nesting <= MaxDepth) from statement number and seed; TLC steps
every statement x subject through TryCase / Guard{T,F,R} / Body / FallOff, checks the invariants
that tie the operational result to the declarative Sat (SelSound, SkipSound), BindComplete,
OneBody, GuardOrder, ExcFinal, and publishes every statement and every final state (expected log
of guard / body events with the visible bindings, == calls on K.E, exception type).
spec/MatchStmtImpl.tla transcribes MatchCaseNodes.py (test tree that fills subject temps, then the
target assignments, which_alternative for or-patterns): ImplAgrees = the two-phase strategy equals
the reference on every state; with one of the real code's departures from CPython's order switched
on (three refute configurations) TLC must produce a counterexample.
Binding B1, three-way: every statement is rendered as a function; P = CPython runs the module,
C = the module compiled by Cython from the snapshot, with the subject untyped (O) and, where the
patterns make it relevant, typed list / tuple / dict / C long / cdef class (restricted to the
subjects of the declared type and None).  S != P -> exit 2.
"""
import collections
import concurrent.futures
import json
import os
import random
import re
import time

import core
import lib_match as lm

PROP = "C31"
CFG = {"quick": "MatchStmtImpl_quick", "thorough": "MatchStmtImpl_thorough"}
# the transcription of MatchCaseNodes.py with one departure from CPython's order switched on: TLC must refute ImplAgrees
REFUTE = {"MatchStmtImpl_refute1": "KF-C31-1 (as-name takes the pattern's value)",
          "MatchStmtImpl_refute4": "KF-C31-4 (duplicate-key test hoisted)",
          "MatchStmtImpl_refute7": "KF-C31-7 (duplicate-attribute test hoisted)"}
BATCH = {"quick": 56, "thorough": 110}     # functions per compiled module
MAX_TYPED = 2                              # typed variants per statement
QUARANTINE = {"quick": 3, "thorough": 8}   # functions predicted to break the compiler: one module each, this many per feature
COMPILE_HAZARDS = ("map-value-wildcard-as", "irrefutable-alternatives-with-structural-alternative")       # the statement goes into a module of its own
TYPING_HAZARDS = {"I": ("sequence-pattern-on-subject",)}   # the typed variant goes into a module of its own
ACTIONS = ("PickSubject", "TryCase", "FallOff", "GuardT", "GuardF", "GuardR", "Body")
KINDS = ("lit", "val", "cap", "wild", "seq", "map", "cls", "or", "as")


def expected(leaf):
    log = [[ev["e"], ev["i"], sorted([b["n"], b["v"]] for b in _seq(ev["b"]))] for ev in _seq(leaf["log"])]
    return [log, leaf["exc"]]


def _seq(x):
    """TLC prints an empty sequence that came from a function constructor as {}"""
    return [] if isinstance(x, dict) and not x else x


def normalise(p):
    p["a"] = [normalise(c) for c in _seq(p["a"])]
    p["ks"] = list(_seq(p["ks"]))
    return p


def obs(x):
    """the observation: guard / body events with their bindings and the exception type.  The == calls K.E receives are
    compared between spec and CPython only (PEP 634 leaves evaluation of value patterns undefined)"""
    return [[e for e in x[0] if e[0] != "eq"], x[1]]


def _alias(want, aliases):
    """what `<value> as name` gives when the name is bound to the pattern's value instead of the subject: all variants"""
    outs = [[]]
    for e in want[0]:
        opts = [[]]
        for n, v in e[2]:
            cands = [v] + sorted(aliases.get(n, ()))
            opts = [o + [[n, c]] for o in opts for c in cands]
        outs = [o + [[e[0], e[1], b]] for o in outs for b in opts][:64]
    return [[o, want[1]] for o in outs]


def analyse(want, got, aliases=None):
    """-> obs_class or None (equal)"""
    if isinstance(got, str):
        return "crash" if got.startswith("CRASH") else "timeout"
    want, got = obs(want), obs(got)
    if want == got:
        return None
    (wl, we), (gl, ge) = want, got
    if we != ge:
        return "exception:%s-instead-of-%s" % (ge or "none", we or "none")
    if aliases and got in _alias(want, aliases):
        return "as-name-bound-to-pattern-value"
    wb = [e for e in wl if e[0] == "b"]
    gb = [e for e in gl if e[0] == "b"]
    if [e[1] for e in wb] != [e[1] for e in gb]:
        return "selected-case"
    if wb != gb:
        return "bindings"
    return "guard-log"


_RE_CY_ERR = re.compile(r"\.pyx:(\d+):\d+: (.*)")
_RE_CC_FN = re.compile(r"In function .__pyx_\w*?\d+(f\d+_[A-Z])\W")


def module_source(m, skip=()):
    return lm.PYX_HEADER + "\n".join(src for name, src in m["funcs"] if name not in skip)


def blamed_functions(m, b):
    """functions of module m that the failed build b blames: {name: (stage, message)}"""
    out = {}
    if b.stage == "cc":
        cur = None
        for line in b.errors.splitlines():
            mm = _RE_CC_FN.search(line)
            if mm:
                cur = mm.group(1)
            elif " error: " in line and cur:
                out.setdefault(cur, ("cc", line.split(" error: ", 1)[1][:300]))
    elif b.stage in ("cython", "cython-crash"):
        starts = []
        for i, line in enumerate(module_source(m, m["dropped"]).splitlines(), 1):
            if line.startswith("def f"):
                starts.append((i, line[4:line.index("(")]))
        for line in b.errors.splitlines():
            mm = _RE_CY_ERR.search(line)
            if mm and not line.startswith("warning"):
                ln = int(mm.group(1))
                owner = [n for s0, n in starts if s0 <= ln]
                if owner:
                    out.setdefault(owner[-1], ("cython", mm.group(2)[:300]))
    return out


def build_robust(mods, jobs, rounds=5):
    """build every module; a function that makes its module fail is dropped (and reported) and the module rebuilt;
    a failure nobody can be blamed for splits the module"""
    for m in mods:
        m["dropped"] = {}
        m["build"] = None
    pending = list(mods)
    for rnd in range(rounds):
        if not pending:
            break
        bs = core.build_many([core.BuildSpec(m["name"], module_source(m, m["dropped"]), kind="pyx",
                                             options={"language_level": 3}) for m in pending],
                             workdir=core.subdir("c31build%d" % rnd), jobs=jobs)
        nxt = []
        for m, b in zip(pending, bs):
            m["build"] = b
            if b.ok:
                continue
            blamed = blamed_functions(m, b)
            if blamed:
                m["dropped"].update(blamed)
                if len(m["dropped"]) < len(m["funcs"]):
                    nxt.append(m)
            elif len(m["funcs"]) - len(m["dropped"]) > 1:
                live = [f for f in m["funcs"] if f[0] not in m["dropped"]]
                for half, part in enumerate((live[:len(live) // 2], live[len(live) // 2:])):
                    sub = {"name": "%ss%d%d" % (m["name"], rnd, half), "funcs": part, "dropped": {}, "build": None}
                    mods.append(sub)
                    nxt.append(sub)
                m["funcs"] = []
            else:
                for name, _ in m["funcs"]:
                    if name not in m["dropped"]:
                        m["dropped"][name] = (b.stage, b.errors[-600:])
        pending = nxt
    return [m for m in mods if m["funcs"]]


def run(tier, seed):
    t0 = time.time()
    rng = random.Random(seed)
    rep = core.Reporter(PROP)
    workers = int(os.environ.get("VERIF_TLC_WORKERS", "0")) or min(8, core.NCPU)
    jobs = int(os.environ.get("VERIF_JOBS", "0")) or min(8, core.NCPU)

    # ---- model checking: statements and their final states with the expected observation
    r = core.tlc_or_die("MatchStmtImpl", cfg=CFG[tier], timeout=900 if tier == "quick" else 3000, workers=workers,
                        env={"C31_SEED": seed}, coverage=True)
    subjects, stmts, leaves = None, {}, collections.defaultdict(list)
    for rec in r.printed:
        if "subjects" in rec:
            subjects = rec["subjects"]
        elif "stmt" in rec:
            st = rec["stmt"]
            st["cases"] = [{"p": normalise(c["p"]), "g": c["g"]} for c in st["cases"]]
            stmts[st["id"]] = st
        else:
            rec["gs"] = list(_seq(rec["gs"]))
            leaves[rec["id"]].append(rec)
    cov = {"tlc": [dict(r.summary(), config=CFG[tier], seed=seed % 1000)], "action_coverage": {a: list(r.coverage.get(a, (0, 0))) for a in ACTIONS}}
    n_leaves = sum(len(v) for v in leaves.values())
    if not subjects or not stmts or set(leaves) != set(stmts):
        core.die("MatchStmt published %d statements, %d with final states, subjects=%s" % (len(stmts), len(leaves), bool(subjects)))
    dead = [a for a in ACTIONS if r.coverage.get(a, (0, 0))[0] == 0]
    cnt = collections.Counter()
    for sid, ls in leaves.items():
        for lf in ls:
            cnt["sel%d" % lf["sel"]] += 1
            if lf["exc"]:
                cnt["exc:" + lf["exc"]] += 1
            if lf["sel"]:
                cnt["selected:" + stmts[sid]["cases"][lf["sel"] - 1]["p"]["t"]] += 1
                if lf["log"][-1]["b"]:
                    cnt["with-bindings"] += 1
            if "F" in lf["gs"]:
                cnt["guard-false"] += 1
            if any(ev["e"] == "eq" for ev in lf["log"]):
                cnt["eq-logged"] += 1
    for st in stmts.values():
        for c in st["cases"]:
            for p in lm.walk(c["p"]):
                cnt["pattern:" + p["t"]] += 1
    for k in ("lit", "val", "cap", "wild"):
        cnt["selected:atom"] += cnt["selected:" + k]
    # classes every run must contain (rarer ones, e.g. exc:ValueError, are reported in the evidence only)
    need = (["sel%d" % i for i in range(0, 5)] + ["exc:GuardErr", "exc:TypeError", "with-bindings", "guard-false", "eq-logged", "selected:atom"] +
            ["selected:" + k for k in ("seq", "map", "cls", "or", "as")] + ["pattern:" + k for k in KINDS + ("star", "starw")])
    lacking = [k for k in need if cnt[k] == 0]
    if dead or lacking:
        core.die("vacuous model run: actions never taken %s, case classes without cases %s" % (dead, lacking))
    del r.out
    phase_s = {"tlc": round(time.time() - t0, 1)}

    # ---- render.  P leg: CPython runs the generated functions
    wd = core.subdir("c31p")
    lm.write_runtime(wd)
    ids = sorted(stmts)
    haz = {sid: lm.hazards(stmts[sid]) for sid in ids}
    psrc = [lm.PY_HEADER]
    for sid in ids:
        src = lm.function("f%d_O" % sid, stmts[sid], "O", False)
        try:
            compile(src, "<stmt %d>" % sid, "exec")
        except SyntaxError as e:
            rep.spec_drift("generated statement rejected by CPython", {"source": src, "error": str(e)})
        psrc.append(src)
    if rep.drift:
        return rep.finish()
    ppath = os.path.join(wd, "c31p.py")
    with open(ppath, "w") as f:
        f.write("\n".join(psrc))
    pitems, pidx = [], []
    for sid in ids:
        for lf in leaves[sid]:
            pitems.append(["f%d_O" % sid, lf["si"], lf["gs"]])
            pidx.append(lf)

    # ---- C leg: modules with the typed variants; statements predicted to break the compiler get a module each
    funcs, quarantined = [], collections.defaultdict(list)           # (name, sid, typing)
    for sid in ids:
        ch = [h for h in COMPILE_HAZARDS if h in haz[sid]]
        if ch:
            quarantined[ch[0]].append(("f%d_O" % sid, sid, "O"))
            continue
        rel = lm.relevant_typings(stmts[sid])
        srng = random.Random(seed * 100003 + sid)
        typed = srng.sample(rel, min(MAX_TYPED, len(rel))) if rel else [srng.choice("LTDIE")]
        for ty in ["O"] + sorted(typed):
            th = [h for h in TYPING_HAZARDS.get(ty, ()) if h in haz[sid]]
            if th:
                quarantined[ty + ":" + th[0]].append(("f%d_%s" % (sid, ty), sid, ty))
            else:
                funcs.append(("f%d_%s" % (sid, ty), sid, ty))
    qsel = [f for k in sorted(quarantined) for f in core.sample(quarantined[k], QUARANTINE[tier], rng)]
    mods = []
    bsz = BATCH[tier]
    for b in range(0, len(funcs), bsz):
        part = funcs[b:b + bsz]
        mods.append({"name": "c31m%d" % (b // bsz), "funcs": [(n, lm.function(n, stmts[sid], ty, True)) for n, sid, ty in part]})
    for n, sid, ty in sorted(qsel):
        mods.append({"name": "c31q%d%s" % (sid, ty), "funcs": [(n, lm.function(n, stmts[sid], ty, True))]})
    finfo = {n: (sid, ty) for n, sid, ty in funcs + qsel}

    def refute(cfg):
        rr = core.tlc("MatchStmtImpl", cfg=cfg, workers=2, timeout=900)
        return cfg, rr.violation, rr.summary()

    with concurrent.futures.ThreadPoolExecutor(3) as ex:
        fut_p = ex.submit(lm.run_items, wd, "P", ppath, subjects, pitems, "p")
        fut_r = [ex.submit(refute, c) for c in sorted(REFUTE)]
        mods = build_robust(mods, jobs)
        resP = fut_p.result()
        refuted = [f.result() for f in fut_r]
    for cfg, viol, summ in refuted:
        cov["tlc"].append(dict(summ, config=cfg, expected="ImplAgrees violated", violation=viol))
        if viol != "ImplAgrees":
            core.die("the transcription with %s switched on was not refuted by TLC (%s: %s)" % (REFUTE[cfg], cfg, viol))
    phase_s["build+cpython_leg"] = round(time.time() - t0 - phase_s["tlc"], 1)

    n_drift = 0
    for lf, got in zip(pidx, resP):
        if got != expected(lf):
            n_drift += 1
            rep.spec_drift("MatchStmt vs CPython", {"source": lm.statement_source(stmts[lf["id"]]), "subject": subjects[lf["si"] - 1],
                                                    "guards": lf["gs"], "spec": expected(lf), "cpython": got})
    if rep.drift:
        return rep.finish()

    def describe(sid, ty, lf=None):
        """descriptor from the spec side: typing, features of the statement, and (per run) the features of the cases the
        reference run reaches (it ends in case lf.ci), expected outcome, class of the subject"""
        d = {"typing": ty, "hazards": ",".join(sorted(haz[sid])), "top_kinds": ",".join(lm.top_kinds(stmts[sid]))}
        if lf is not None:
            d.update({"hazards_reached": ",".join(sorted(h for h, j in haz[sid].items() if j <= lf["ci"])),
                      "expected_exc": lf["exc"], "expected_sel": lf["sel"], "subject_class": lm.subject_class(subjects[lf["si"] - 1])})
        return d

    def c_leg(m):
        b = m["build"]
        if b is None or not b.ok:
            return None
        d = os.path.dirname(b.so)
        lm.write_runtime(d)
        items, idx = [], []
        for name, _ in m["funcs"]:
            if name in m["dropped"]:
                continue
            sid, ty = finfo[name]
            for lf in leaves[sid]:
                if lm.in_domain(ty, subjects[lf["si"] - 1]):
                    items.append([name, lf["si"], lf["gs"]])
                    idx.append((sid, ty, lf))
        return idx, lm.run_items(d, "C", b.so, subjects, items, "c_" + m["name"])

    with concurrent.futures.ThreadPoolExecutor(jobs) as ex:
        resC = list(ex.map(c_leg, mods))

    n_eval = n_agree = n_dropped = n_skipped = n_eqdiff = 0
    nontrivial = set()
    ok_samples = []
    classes = collections.Counter()
    per_typing = collections.Counter()
    for m, res in zip(mods, resC):
        for name, (stage, msg) in m["dropped"].items():
            sid, ty = finfo[name]
            oc = "invalid-c" if stage == "cc" else "cython-error"
            classes[oc] += 1
            n_dropped += 1
            rep.disagree(dict(describe(sid, ty), message=msg[:120]), oc,
                         {"source": lm.function(name, stmts[sid], ty, True), "stage": stage, "message": msg})
        if res is None:
            b = m["build"]
            if any(n not in m["dropped"] for n, _ in m["funcs"]):
                classes["build-failed"] += 1
                rep.disagree({"typing": "*", "hazards": "", "top_kinds": ""}, "build-failed",
                             {"module": m["name"], "stage": getattr(b, "stage", None), "errors": (getattr(b, "errors", "") or "")[-3000:]})
            continue
        idx, out = res
        for (sid, ty, lf), got in zip(idx, out):
            want = expected(lf)
            if got == "SKIPPED":       # the function crashed lib_match.CRASH_CAP times (each reported); its other items were not run
                n_skipped += 1
                continue
            n_eval += 1
            per_typing[ty] += 1
            if lf["sel"] or lf["exc"]:
                nontrivial.add((sid, ty, lf["si"], "".join(lf["gs"])))
            aliases = {}
            for j in range(1, min(lf["ci"], len(stmts[sid]["cases"])) + 1):
                aliases.update(lm.as_value_aliases(stmts[sid], j))
            oc = analyse(want, got, aliases)
            if oc is None:
                n_agree += 1
                if got != want:
                    n_eqdiff += 1
                if len(ok_samples) < 4000 and (lf["sel"] or lf["exc"]):
                    ok_samples.append((sid, ty, lf, got))
                continue
            classes[oc] += 1
            rep.disagree(describe(sid, ty, lf), oc, {"source": lm.function("f", stmts[sid], ty, True), "typing": ty,
                                                     "subject": subjects[lf["si"] - 1], "guards": lf["gs"], "want": want, "got": got,
                                                     "aliases": {n: sorted(v) for n, v in aliases.items()}})

    # ---- binding demonstration: corrupted expectations must be rejected by the same comparison
    st = {"corrupted": 0, "rejected": 0}
    for sid, ty, lf, got in core.sample(ok_samples, 80, rng):
        want = obs(expected(lf))
        bads = [[want[0], "TypeError" if want[1] != "TypeError" else ""], [want[0][:-1], want[1]] if want[0] else None]
        if want[0] and want[0][-1][0] == "b":
            ev = want[0][-1]
            bads.append([want[0][:-1] + [[ev[0], ev[1] % 4 + 1, ev[2]]], want[1]])                     # another case selected
            bads.append([want[0][:-1] + [[ev[0], ev[1], ev[2] + [["zz", "0"]]]], want[1]])             # another binding
        for bad in bads:
            if bad is None:
                continue
            st["corrupted"] += 1
            if analyse(bad, got):
                st["rejected"] += 1
    if st["corrupted"] == 0 or st["corrupted"] != st["rejected"]:
        core.die("binding self-test failed: %r" % st)

    rich = [x for x in ok_samples if x[2]["sel"] > 1 and x[2]["log"][-1]["b"]] or ok_samples
    samples = [{"source": lm.function("f", stmts[sid], ty, True), "typing": ty, "subject": subjects[lf["si"] - 1], "guard_outcomes": lf["gs"],
                "expected": expected(lf), "compiled": got} for sid, ty, lf, got in core.sample(rich, 4, rng)]
    cov.update({
        "states": r.generated, "distinct_states": r.distinct, "transitions": r.generated,
        "traces_validated_against_impl": n_eval, "evaluations": n_eval, "agreeing": n_agree,
        "distinct_nontrivial": len(nontrivial), "statements": len(stmts), "subjects": len(subjects), "final_states": n_leaves,
        "functions_compiled": sum(len(m["funcs"]) for m in mods), "modules": len(mods), "evaluations_per_typing": dict(per_typing),
        "cpython_leg_evaluations": len(pitems), "cpython_leg_drift": n_drift, "functions_rejected_by_compiler": n_dropped,
        "not_run_after_repeated_crash": n_skipped, "eq_call_log_differs_not_judged": n_eqdiff,
        "quarantined_functions": {k: len(v) for k, v in quarantined.items()}, "quarantined_compiled": len(qsel),
        "phase_s": phase_s, "case_classes": dict(cnt), "difference_classes": dict(classes), "selftest": st,
        "rule": "every statement the spec generates for the seed (<= 4 cases, nesting <= MaxDepth) x every subject of the universe x every "
                "sequence of guard outcomes {T, F, R} the run reaches; compiled untyped and in <= %d typed variants restricted to the "
                "subjects of the declared type and None; non-trivial = distinct (statement, typing, subject, guard outcomes) in which a "
                "case is selected or an exception is expected" % MAX_TYPED,
        "samples": samples,
    })
    if os.environ.get("VERIF_C31_DEBUG"):      # development aid: every disagreement with its descriptor
        core.write_ndjson(os.environ["VERIF_C31_DEBUG"], [{"desc": d, "detail": det} for d, det in rep.violations] +
                          [{"kf": k, "detail": det} for k, dets in rep.kf_hits.items() for det in dets])
    rc = rep.finish()
    cov["known_findings"] = rep.kf_summary()
    core.write_evidence(PROP, tier, seed, "model_checking", cov, time.time() - t0,
                        assumptions=["not observed (PEP 634 permits caching): number and order of len / item / get / keys calls on the subject",
                                     "names bound after a failed pattern or guard are not observed (unspecified by the language reference)",
                                     "exception type only",
                                     "typed subjects (list, tuple, dict, C long, cdef class) receive only values of the declared type or None",
                                     "custom Sequence / Mapping subjects are consistent (len, indexing and iteration agree)"],
                        violations=rep.n_violations())
    return rc


def replay(path, seed):
    """Re-build and re-run the cases of a replay file written by Reporter (exit 1 while they still differ)."""
    rec = json.load(open(path))
    cases = [c for c in rec.get("cases", []) if isinstance(c, dict) and "source" in c]
    if not cases:
        core.die("no replayable cases in %s" % path)
    bad = 0
    specs = []
    for i, c in enumerate(cases):
        src = re.sub(r"^def \w+\(", "def r%d(" % i, c["source"])
        specs.append(core.BuildSpec("c31r%d" % i, lm.PYX_HEADER + src, kind="pyx", options={"language_level": 3}))
    builds = core.build_many(specs, workdir=core.subdir("c31replay"), jobs=min(8, core.NCPU))
    for i, (c, b) in enumerate(zip(cases, builds)):
        if not b.ok:
            bad = 1
            print("case %d: build fails at stage %s: %s" % (i, b.stage, (b.errors.strip().splitlines() or ["?"])[-1][:300]))
            continue
        if "subject" not in c:
            print("case %d: builds now" % i)
            continue
        d = os.path.dirname(b.so)
        lm.write_runtime(d)
        got = lm.run_items(d, "C", b.so, [c["subject"]], [["r%d" % i, 1, c["guards"]]], "r")[0]
        oc = analyse(c["want"], got, {n: set(v) for n, v in (c.get("aliases") or {}).items()})
        print("case %d: subject %s guards %s: %s\n  expected %s\n  compiled %s" % (i, c["subject"], c["guards"], oc or "agrees", obs(c["want"]),
                                                                                 got if isinstance(got, str) else obs(got)))
        bad = bad or (1 if oc else 0)
    return bad
