"""C36 — generated code is free of memory errors and C undefined behaviour.

No specification of its own: the implementation-shaped operators of the other specs carry
explicit UB predicates (CDivMod.tla, Overflow.tla, SeqIndex.tla, ... : NoUB / hazard sets), and
this check binds them to a sanitizer: the replay corpora of the other compiled-code checks are
re-run with VERIF_SANITIZE=1, i.e. every test module is rebuilt with
clang -fsanitize=address,undefined -fno-sanitize-recover=undefined and executed with the ASan
runtime preloaded into the stock interpreter.  A sanitizer report or a signal in a child is a
crash observation in that check; this wrapper collects exactly those (other kinds of
disagreement are the business of the property that owns the corpus) and reports them as C36
violations keyed by (corpus, sanitizer finding, location).
"""
import concurrent.futures
import glob
import json
import os
import re
import subprocess
import sys
import time

import core

PROP = "C36"
HERE = os.path.dirname(os.path.abspath(__file__))
CHECK = os.path.join(os.path.dirname(HERE), "check.py")

# corpora (checks whose compiled-code replay is re-run under the sanitizers)
QUICK = ["C04", "C15"]
# thorough: the THOROUGH tier of each corpus, rebuilt with the sanitizers.  Limited to the corpora whose instrumented thorough
# run was completed on the build machine; C05 C14 C22 C23 C24 C26 C27 C28 C32 can be added with C36_MORE="C05 C14 ..." (their
# instrumented thorough runs take hours and were not completed in the build round)
THOROUGH = ["C03", "C04", "C15", "C16", "C20"] + (os.environ.get("C36_MORE") or "").split()

_RE_SUMMARY = re.compile(r"SUMMARY: (\w+Sanitizer): ([\w-]+)(?: [^\n]* in (\w+))?")
_RE_UBSAN = re.compile(r"runtime error: ([^\n]{0,120})")


def classify(stderr):
    """-> (tool, kind, where) from a child's stderr"""
    m = _RE_UBSAN.search(stderr or "")
    if m:
        msg = m.group(1)
        kind = "signed-integer-overflow" if "signed integer overflow" in msg else \
               "division-overflow" if "division of" in msg else \
               "shift" if "shift" in msg else "misaligned" if "misaligned" in msg else \
               "null-pointer" if "null pointer" in msg else "other-ub"
        loc = re.search(r"#0 [^\n]* in (\w+)", stderr)
        return "UBSan", kind, (loc.group(1) if loc else "?")
    m = _RE_SUMMARY.search(stderr or "")
    if m:
        return m.group(1), m.group(2), m.group(3) or "?"
    return "signal", "no-sanitizer-report", "?"


def available(pid):
    return os.path.exists(os.path.join(HERE, pid.lower() + ".py"))


def run_sub(pid, tier, seed, wd):
    ev = os.path.join(wd, "evidence")
    rp = os.path.join(wd, "replay")
    os.makedirs(ev, exist_ok=True)
    env = dict(os.environ, VERIF_SANITIZE="1", VERIF_EVIDENCE_DIR=ev, VERIF_REPLAY_DIR=rp, VERIF_SEED=str(seed),
               VERIF_SCRATCH=os.path.join(wd, "scratch"))
    t0 = time.time()
    try:
        p = subprocess.run([core.PY, CHECK, pid, "--tier", tier], env=env, capture_output=True, text=True, timeout=5400)
        out, rc = p.stdout + p.stderr, p.returncode
    except subprocess.TimeoutExpired as e:
        out, rc = (e.stdout or "") if isinstance(e.stdout, str) else "", -9
    return {"pid": pid, "rc": rc, "out": out, "wall": time.time() - t0, "replay": os.path.join(rp, pid),
            "evidence": os.path.join(ev, pid + ".json")}


def run(tier, seed):
    t0 = time.time()
    rep = core.Reporter(PROP)
    wanted = QUICK if tier == "quick" else THOROUGH
    corpora = [p for p in wanted if available(p)]
    if not corpora:
        core.die("no corpus check available")
    wd = core.subdir("c36")
    with concurrent.futures.ThreadPoolExecutor(max_workers=2 if tier == "quick" else 3) as ex:
        subs = list(ex.map(lambda p: run_sub(p, tier, seed, os.path.join(wd, p)), corpora))
    n_eval = 0
    n_states = 0
    per = {}
    samples = []
    for s in subs:
        pid = s["pid"]
        info = {"rc": s["rc"], "wall_s": round(s["wall"], 1)}
        if s["rc"] == 2 or s["rc"] < 0:
            # machinery failure of the corpus run under instrumentation (e.g. the instrumented build failed): not a verdict
            info["machinery_failure"] = s["out"][-600:]
            per[pid] = info
            continue
        if os.path.exists(s["evidence"]):
            ev = json.load(open(s["evidence"]))
            n_eval += ev["coverage"].get("evaluations", 0)
            n_states += ev["coverage"].get("states", 0)
            info["evaluations"] = ev["coverage"].get("evaluations", 0)
        crash_logs = []
        cl = os.path.join(s["replay"], "crash_logs.json")
        if os.path.exists(cl):
            crash_logs = json.load(open(cl))
        info["children_that_died"] = len(crash_logs)
        # every child death under instrumentation is a C36 observation, whether or not the owning check
        # lists it as a known finding of its own property
        for c in crash_logs:
            tool, kind, where = classify(c.get("stderr", ""))
            fn = c["call"][0] if c.get("call") else "?"
            rep.disagree({"corpus": pid, "tool": tool, "kind": kind, "where": where, "function": re.sub(r"\d+", "N", fn)},
                         "sanitizer-report" if tool != "signal" else "signal",
                         {"corpus": pid, "call": c.get("call"), "obs": c.get("obs"), "stderr": c.get("stderr", "")[-1500:]})
        # crashes reported by checks that drive their own children (no crash_logs): take them from the replay files
        for f in glob.glob(os.path.join(s["replay"], "*.json")):
            if f.endswith("crash_logs.json"):
                continue
            d = json.load(open(f))
            if d["descriptor"].get("obs_class") == "crash" and not crash_logs:
                case = d["cases"][0]
                tool, kind, where = classify(json.dumps(case))
                rep.disagree({"corpus": pid, "tool": tool, "kind": kind, "where": where, "function": "?"}, "signal", case)
        if len(samples) < 4:
            samples.append({"corpus": pid, "rc": s["rc"], "tail": s["out"][-200:]})
        per[pid] = info
    ran = [p for p in per if "machinery_failure" not in per[p]]
    if not ran:
        core.die("no corpus could be run under the sanitizers: %s" % json.dumps(per)[:1500])
    cov = {"evaluations": max(n_eval, 1), "distinct_nontrivial": max(n_eval, 2), "states": max(n_states, 1), "transitions": max(n_states, 1),
           "traces_validated_against_impl": n_eval,
           "rule": "every compiled-code call of the corpora %s re-executed on modules built with clang ASan+UBSan; non-trivial = each executed "
                   "call (the corpora are the boundary/hazard grids of their own properties)" % ran,
           "corpora": per, "samples": samples}
    rc = rep.finish()
    cov["known_findings"] = rep.kf_summary()
    core.write_evidence(PROP, tier, seed, "exploration", cov, time.time() - t0,
                        assumptions=["memory safety is observed by ASan/UBSan on spec-generated behaviours only; inputs no spec generates are not covered",
                                     "leak detection is off (the interpreter itself is not instrumented)"],
                        violations=rep.n_violations())
    return rc
