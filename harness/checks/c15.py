"""C15 — indexing, item assignment/deletion and slicing of list, tuple, str, bytes, bytearray match CPython.

spec/SeqIndex.tla: reference (index normalisation, slice.indices = PySlice_AdjustIndices validated against
the declarative membership definition, slice assignment/deletion, PyObject_*Item's error order) and an
implementation-shaped transcription of what Cython generates per (declared container type, index typing):
__Pyx_fits_Py_ssize_t, __Pyx_is_valid_index, GetItemInt_{List,Tuple,Unicode,Bytes,ByteArray}_Fast,
{Get,Set,Del}ItemInt_Fast slot dispatch, SliceIndexNode bound coercion, __Pyx_crop_slice + FromArray,
__Pyx_PyUnicode_Substring, __Pyx_PyObject_{Get,Set}Slice; Py_ssize_t scaled to 8 bits.
TLC: one state per (container, operation, length, index type | start bound [, step]); each state carries the
row of <reference, implementation> outcomes over all index values / stop bounds; C undefined behaviour is unreachable
(NoUB, CropClamped: __Pyx_crop_slice clamps both bounds since the fix of KF-C15-1); the model itself refutes ImplAgrees
(SeqIndex_strict*.cfg) through the OverflowError of out-of-range object bounds and the type test of extended-slice
assignment, everything else agrees (ImplAgreesOffHazards, HazardsConfined).
Binding B1: every published cell is executed on compiled code (generated .pyx: 6 declarations x 8 index
typings x get/set/del, constant indices, typed/object/absent/constant slice bounds, extended slices),
scaled type bounds mapped to the real types' bounds; S = the reference outcome, P = CPython on the same
operation (S != P -> exit 2), C = compiled code; result / exception type / mutated container compared.
"""
import concurrent.futures
import json
import os
import random
import sys
import time

import calls
import core
import lib_seqindex as L

PROP = "C15"
RUNS = {"quick": [("index", "SeqIndex_index"), ("xslice", "SeqIndex_xslice"), ("slice", "SeqIndex_slice")],
        "thorough": [("index", "SeqIndex_index_big"), ("slice", "SeqIndex_slice_mixed"), ("xslice", "SeqIndex_xslice_big"),
                     ("slice", "SeqIndex_slice_big")]}
CHUNK = 40000


class R(object):
    """one realisation of a model cell on compiled code"""
    __slots__ = ("mod", "fn", "args", "op", "kind", "n", "flavor", "key", "val", "base", "extra", "ref")

    def __init__(self, mod, fn, args, op, kind, n, flavor, key, val, base, extra, ref):
        self.mod, self.fn, self.args, self.op, self.kind, self.n = mod, fn, args, op, kind, n
        self.flavor, self.key, self.val, self.base, self.extra, self.ref = flavor, key, val, base, extra, ref

    @property
    def desc(self):
        """the case descriptor: spec-side description of the cell (shared) + how it was realised"""
        return dict(self.base, **self.extra)

    def call(self):
        x = L.arg(L.container(self.kind, self.n, self.flavor))
        a = [L.arg(v) for v in self.args]
        if self.op == "get":
            return [self.fn, [x] + a, True]
        if self.op == "set":
            a.append(L.arg(self.val))
        return ["M", [self.fn, x] + a, True]


VAR = {v: {"variant": v} for v in ("main", "int-typed", "const", "index-object", "ssize-typed")}


def log(t0, msg):
    if os.environ.get("VERIF_VERBOSE"):
        sys.stderr.write("[c15 %6.1fs] %s\n" % (time.time() - t0, msg))


def flavors(c, op):
    """str containers in three character widths where Cython's own str code runs (typed declaration, reading)"""
    return ("ascii", "ucs2", "ucs4") if c["kind"] == "str" and c["decl"] == "typed" and op == "get" else ("ascii",)


def cell(c):
    return (c[0], c[0], "none") if len(c) == 1 else (c[0], c[1], c[2])


def key_class(v):
    return L.vclass(v)


def realise_index(rec, rng, out, skipped):
    cse = rec["cse"]
    c, op, n, t = cse["c"], cse["op"], cse["n"], cse["t"]["nm"]
    d, kind = L.decl_of(c), c["kind"]
    if t in ("swide", "uwide"):
        skipped[0] += len(rec["row"])
        return
    for ks, cl in rec["row"].items():
        v = int(ks)
        ref, imp, hz = cell(cl)
        base = {"part": "index", "op": op, "decl": c["decl"], "kind": kind, "model": hz, "container_none": n < 0}
        for fl in flavors(c, op):
            val = L.new_value(kind, fl) if op == "set" else None
            if t == "obj":
                if v < 20000:
                    rv = L.real_value("obj", v - 10000)
                    keys = [(rv, key_class(v - 10000))]
                    if rng.random() < 0.25:
                        keys.append((L.Ix(rv), "index-object:" + key_class(v - 10000)))
                else:
                    keys = [{L.ONONE: (None, "none"), L.OFLOAT: (1.5, "float"), L.OSTR: ("a", "str"),
                             L.OFALSE: (False, "bool"), L.OTRUE: (True, "bool")}[v]]
                for k, kc in keys:
                    out.append(R(L.module_of("i", d), "%s_%s_obj" % (op, d), [k], op, kind, n, fl, k, val,
                                 base, dict(itype="obj", key=kc), ref))
            elif t == "const":
                rv = L.real_value("const", v)
                nm = L.kname(rv) if abs(rv) <= 10 else dict((x, y) for y, x in L.CONST_EXT).get(rv)
                if nm is None:
                    skipped[0] += 1
                    continue
                out.append(R(L.module_of("i", d), "%sk_%s_%s" % (op, d, nm), [], op, kind, n, fl, rv, val,
                             base, dict(itype="const", key=key_class(v)), ref))
            else:
                for tag, _ct, bits, signed, _m in L.RT_BY_MODEL[t]:
                    rv = L.real_value(t, v, bits, signed)
                    out.append(R(L.module_of("i", d), "%s_%s_%s" % (op, d, tag), [rv], op, kind, n, fl, rv, val,
                                 base, dict(itype=tag, key=key_class(v)), ref))


def bound(b):
    """bound code -> (form letter, python value, class)"""
    if b == L.ABSENT:
        return "a", None, "absent"
    if b == L.ONONE:
        return "o", None, "none"
    if b == L.OFLOAT:
        return "o", 1.5, "float"
    if b >= 9000:
        return "o", L.real_value("obj", b - 10000), key_class(b - 10000)
    return "c", L.real_value("ssize", b), key_class(b)


def realise_slice(rec, rng, out, skipped):
    cse = rec["cse"]
    c, op, n, m = cse["c"], cse["op"], cse["n"], cse["m"]
    d, kind = L.decl_of(c), c["kind"]
    fs, pa, ca = bound(cse["sb"])
    kmod = L.module_of("k", d)
    for ks, cl in rec["row"].items():
        fe, pb, cb = bound(int(ks))
        ref, imp, hz = cell(cl)
        base = {"part": "slice", "op": op, "decl": c["decl"], "kind": kind, "model": hz, "container_none": n < 0,
                "forms": fs + fe, "bounds": ca + "/" + cb, "rhs": cse["rhs"]}
        for fl in flavors(c, op):
            val = L.new_values(kind, m, fl, cse["rhs"]) if op == "set" else None
            key = slice(pa, pb)
            out.append(R(L.module_of("s", d), "s%s_%s_%s%s" % (op, d, fs, fe), [pa, pb], op, kind, n, fl, key, val, base, VAR["main"], ref))
            if c["decl"] == "typed" and "o" not in (fs, fe) and "c" in (fs, fe) and all(x is None or abs(x) <= 12 for x in (pa, pb)):
                out.append(R(L.module_of("s", d), "s%s_%s_%s%s" % (op, d, fs.replace("c", "i"), fe.replace("c", "i")), [pa, pb], op, kind, n, fl,
                             key, val, base, VAR["int-typed"], ref))
            if "o" not in (fs, fe) and pa in L.SLICE_CONSTS and pb in L.SLICE_CONSTS:
                out.append(R(kmod, "s%sk_%s_%s_%s" % (op, d, L.kname(pa), L.kname(pb)), [], op, kind, n, fl, key, val,
                             base, VAR["const"], ref))
            if (isinstance(pa, int) and fs == "o" or isinstance(pb, int) and fe == "o") and rng.random() < 0.2:
                qa = L.Ix(pa) if isinstance(pa, int) and fs == "o" else pa
                qb = L.Ix(pb) if isinstance(pb, int) and fe == "o" else pb
                out.append(R(L.module_of("s", d), "s%s_%s_%s%s" % (op, d, fs, fe), [qa, qb], op, kind, n, fl, slice(qa, qb), val,
                             base, VAR["index-object"], ref))


def xval(v):
    return None if v == L.NONE else L.real_value("obj", v)


def realise_xslice(rec, rng, out, skipped):
    cse = rec["cse"]
    c, op, n, m = cse["c"], cse["op"], cse["n"], cse["m"]
    d, kind = L.decl_of(c), c["kind"]
    pa, pc = xval(cse["s"]), xval(cse["st"])
    for ks, cl in rec["row"].items():
        e = int(ks)
        pb = xval(e)
        ref, imp, hz = cell(cl)
        base = {"part": "xslice", "op": op, "decl": c["decl"], "kind": kind, "model": hz, "container_none": False, "rhs": cse["rhs"],
                "step": "none" if pc is None else ("zero" if pc == 0 else key_class(cse["st"]))}
        for fl in flavors(c, op):
            val = L.new_values(kind, m, fl, cse["rhs"]) if op == "set" else None
            key = slice(pa, pb, pc)
            out.append(R("c15xs", "x%s_%s_o" % (op, d), [pa, pb, pc], op, kind, n, fl, key, val, base, VAR["main"], ref))
            if all(x is not None and L.RMIN <= x <= L.RMAX for x in (pa, pb, pc)):
                out.append(R("c15xs", "x%s_%s_c" % (op, d), [pa, pb, pc], op, kind, n, fl, key, val, base, VAR["ssize-typed"], ref))
            if (pa, pb, pc) in L.X_SHAPES:
                out.append(R("c15xs", "x%sk_%s_%d" % (op, d, L.X_SHAPES.index((pa, pb, pc))), [], op, kind, n, fl, key, val,
                             base, VAR["const"], ref))
            if rng.random() < 0.1 and any(isinstance(x, int) for x in (pa, pb, pc)):
                q = [L.Ix(x) if isinstance(x, int) else x for x in (pa, pb, pc)]
                out.append(R("c15xs", "x%s_%s_o" % (op, d), q, op, kind, n, fl, slice(*q), val, base, VAR["index-object"], ref))


REALISE = {"index": realise_index, "slice": realise_slice, "xslice": realise_xslice}


def safe_run_calls(build, cl, tag):
    try:
        # the prelude file was written once after the build (run_calls would rewrite it under the feet of parallel children)
        return calls.run_calls(build, cl, prelude=None, timeout=1500, mem_mb=2048, tag=tag)
    except SystemExit:
        # calls.run_calls gives up after 200 crashes: everything not observed stays None ("not-run")
        outf = os.path.join(os.path.dirname(build.so), tag + "_out.ndjson")
        obs = [None] * len(cl)
        if os.path.exists(outf):
            for line in open(outf):
                try:
                    i, r = json.loads(line)
                    obs[i] = r
                except ValueError:
                    pass
        return obs


def classes(printed):
    """vacuity guard on the model: how many cells of each outcome class were published"""
    k = {}
    for rec in printed:
        for cl in rec["row"].values():
            ref, imp, hz = cell(cl)
            cls = ref if ref.startswith("!") else ("item" if ref.startswith("=") else ("empty" if ref == ":" else "sequence"))
            key = rec["part"] + ":" + rec["cse"]["op"] + ":" + cls
            k[key] = k.get(key, 0) + 1
            if hz != "none":
                k[rec["part"] + ":model-" + hz] = k.get(rec["part"] + ":model-" + hz, 0) + 1
    return k


NEEDED = ["index:get:item", "index:get:!IndexError", "index:get:!TypeError", "index:set:sequence", "index:set:!IndexError",
          "index:set:!TypeError", "index:del:sequence", "index:del:empty", "index:del:!IndexError",
          "slice:get:sequence", "slice:get:empty", "slice:get:!TypeError", "slice:set:sequence", "slice:set:!TypeError",
          "slice:del:sequence", "slice:del:empty", "slice:model-bound_overflow", "xslice:model-rhs_type",
          "xslice:get:sequence", "xslice:get:empty", "xslice:get:!ValueError", "xslice:set:!ValueError", "xslice:set:sequence",
          "xslice:del:sequence", "xslice:set:!TypeError"]


def corrupt(outcome):
    if outcome.startswith("="):
        return "=" + ("1" if outcome[1] == "0" else "0")
    if outcome.startswith(":"):
        return outcome + "0" if len(outcome) < 3 else outcome[:-1]
    return "!TypeError" if outcome != "!TypeError" else "!IndexError"


def process(part, recs, tier, rng, rep, builds, mods, pool, acc, t0):
    """replay the published rows of one TLC run on compiled code"""
    rs = []
    skipped = [0]
    for rec in recs:
        REALISE[part](rec, rng, rs, skipped)
    want = []
    ndrift = 0
    for r in rs:
        try:
            e = L.expected_obs(r.ref, r.op, r.kind, r.n, r.flavor)
        except (ValueError, KeyError, IndexError):
            core.die("cannot decode outcome %r" % (r.ref,))
        pobs = L.oracle(r.op, L.container(r.kind, r.n, r.flavor), r.key, r.val)
        if pobs != e:
            ndrift += 1
            if ndrift <= 20:
                rep.spec_drift("SeqIndex reference vs CPython", {"desc": r.desc, "fn": r.fn, "args": repr(r.args), "n": r.n, "spec": r.ref,
                                                                   "expected_obs": e, "cpython": pobs})
        want.append(e)
    if ndrift:
        rep.finish()   # exits 2
    log(t0, "%s: %d realisations, no drift" % (part, len(rs)))

    # Cells with Py_ssize_t bounds at the type extremes on list/tuple-typed slice reads (where __Pyx_crop_slice used to overflow,
    # KF-C15-1, fixed) go into small tables of their own: the model demands the reference result there like everywhere else, and
    # should the generated code crash again, each crash only costs the restart of a small child.
    by_mod = {}
    extreme = set()
    for i, r in enumerate(rs):
        b = r.base
        ext = (b["part"] == "slice" and b["op"] == "get" and b["decl"] == "typed" and b["kind"] in ("list", "tuple")
               and "bound" in b["bounds"]) or b["model"] == "ub"
        if ext:
            extreme.add(i)
        by_mod.setdefault(r.mod + ("!ext" if ext else ""), []).append(i)
    jobs = []
    for mod, idxs in sorted(by_mod.items(), key=lambda kv: -len(kv[1])):
        step = 150 if "!" in mod else CHUNK
        for j in range(0, len(idxs), step):
            sel = idxs[j:j + step]
            jobs.append((sel, pool.submit(safe_run_calls, builds[mod.split("!")[0]], [rs[i].call() for i in sel],
                                          "%s_%s%d" % (part, "ext" if "!" in mod else "t", j // step))))
    got = [None] * len(rs)
    for sel, f in jobs:
        for i, o in zip(sel, f.result()):
            got[i] = o
    log(t0, "%s: calls done" % part)

    nbad = 0
    for i, (r, e, o) in enumerate(zip(rs, want, got)):
        if o != e:
            nbad += 1
            rep.disagree(r.desc, L.obs_class(o, e, r.op), {"module": r.mod, "call": r.call()[:2], "want": e, "got": o, "spec_outcome": r.ref,
                                                            "source": [ln for ln in mods[r.mod].split("\n\n") if ("def %s(" % r.fn) in ln][:1]})
    # binding demonstration: corrupted expectations must be rejected
    good = [i for i in range(len(rs)) if got[i] == want[i]]
    for i in rng.sample(good, min(40, len(good))):
        r = rs[i]
        if L.expected_obs(corrupt(r.ref), r.op, r.kind, r.n, r.flavor) == got[i]:
            core.die("binding self-test: corrupted expectation %r accepted for %s" % (corrupt(r.ref), r.fn))
    for r in rs:
        if r.n >= 1:
            acc["distinct"].add(hash((r.fn, r.flavor, r.n, repr(r.args), repr(r.val))))
    acc["calls"] += len(rs)
    acc["per_part"][part] = acc["per_part"].get(part, 0) + len(rs)
    acc["extreme"] += len(extreme)
    acc["model_only"] += skipped[0]
    acc["bad"] += nbad
    acc["selftest"] += min(40, len(good))
    acc["samples"] += [{"call": rs[i].call()[:2], "spec_outcome": rs[i].ref, "desc": rs[i].desc} for i in rng.sample(range(len(rs)), 2)]


def run(tier, seed):
    t0 = time.time()
    rng = random.Random(seed)
    rep = core.Reporter(PROP)
    cov = {"tlc": []}
    mods = L.modules()
    core.scratch(), core.subdir("tlc"), core.subdir("build")   # created once, before the worker threads need them
    pool = concurrent.futures.ThreadPoolExecutor(max_workers=8)
    tpool = concurrent.futures.ThreadPoolExecutor(max_workers=2 if tier == "quick" else 1)
    f_build = pool.submit(core.build_many, [core.BuildSpec(k, v) for k, v in sorted(mods.items())], None, 7)
    w = 6 if tier == "quick" else 10
    f_tlc = [(p, cfg, tpool.submit(core.tlc, "SeqIndex", cfg, w, None, 1500 if tier == "quick" else 5000)) for p, cfg in RUNS[tier]]
    f_strict = [(cfg, tpool.submit(core.tlc, "SeqIndex", cfg, 2, None, 600)) for cfg in ("SeqIndex_strict", "SeqIndex_strict_x")]

    acc = {"distinct": set(), "calls": 0, "per_part": {}, "extreme": 0, "model_only": 0, "bad": 0, "selftest": 0, "samples": []}
    states = distinct = cells = 0
    kl = {}
    builds = None
    for p, cfg, f in f_tlc:
        r = f.result()
        cov["tlc"].append(dict(r.summary(), config=cfg, violation=r.violation))
        if not r.ok:
            sys.stderr.write(r.out[-3000:])
            core.die("TLC %s: %s" % (cfg, r.violation or "failed"))
        recs = sorted((x for x in r.printed if x.get("part") == p), key=lambda x: json.dumps(x["cse"], sort_keys=True))  # TLC's order varies
        states += r.generated
        distinct += r.distinct
        if len(recs) < 100 or len(recs) != r.distinct - 1 - _groups(recs):
            core.die("SeqIndex %s: %d rows published for %d distinct states" % (cfg, len(recs), r.distinct))
        r.out, r.printed = "", []
        log(t0, "TLC %s done: %d states" % (cfg, r.distinct))
        for k, v in classes(recs).items():
            kl[k] = kl.get(k, 0) + v
        cells += sum(len(x["row"]) for x in recs)
        if builds is None:
            builds = {b.name: b for b in f_build.result()}
            bad = [b for b in builds.values() if not b.ok]
            if bad:
                for b in bad:
                    rep.disagree({"part": "build", "module": b.name, "stage": b.stage}, "build-failed", {"errors": (b.errors or "")[-3000:]})
                rc = rep.finish()
                core.write_evidence(PROP, tier, seed, "model_checking", {"evaluations": len(bad), "distinct_nontrivial": 0, "states": states,
                                    "transitions": states, "traces_validated_against_impl": 0, "samples": ["build failed: " + bad[0].name]},
                                    time.time() - t0, violations=len(bad))
                return rc
            for b in builds.values():
                with open(os.path.join(os.path.dirname(b.so), b.name + "_prelude.py"), "w") as f:
                    f.write(L.PRELUDE)
            log(t0, "builds done")
        process(p, recs, tier, rng, rep, builds, mods, pool, acc, t0)
        del recs
    # the unrestricted property must be refuted by the model where deviations still exist (KF-C15-2 in the slice part,
    # KF-C15-3 in the extended-slice part); NoUB is listed first in those configs and must not be what fails
    for cfg, f in f_strict:
        r = f.result()
        cov["tlc"].append(dict(r.summary(), config=cfg, expected_violation="ImplAgrees", violation=r.violation))
        states += r.generated
        distinct += r.distinct
        if r.violation != "ImplAgrees":
            sys.stderr.write(r.out[-3000:])
            core.die("%s: TLC was expected to refute ImplAgrees (and nothing else), got %r" % (cfg, r.violation))
    if any(k.endswith(":model-ub") for k in kl):
        core.die("the model reaches C undefined behaviour although NoUB passed: %r" % {k: v for k, v in kl.items() if "model-ub" in k})
    pool.shutdown()
    tpool.shutdown()
    cov["model_case_classes"] = kl
    missing = [k for k in NEEDED if not kl.get(k)]
    if missing:
        core.die("vacuous model: no published cell of class %s" % missing)

    cov.update({
        "states": states, "distinct_states": distinct, "transitions": states,
        "traces_validated_against_impl": acc["calls"], "evaluations": acc["calls"], "distinct_nontrivial": len(acc["distinct"]),
        "exhaustive": True, "model_cells": cells, "model_only_cells_not_replayed": acc["model_only"],
        "type_extreme_list_tuple_slice_calls": acc["extreme"],
        "calls_per_part": acc["per_part"], "functions_compiled": sum(v.count("def ") for v in mods.values()),
        "disagreeing_calls": acc["bad"], "corrupted_expectations_rejected": acc["selftest"],
        "rule": "TLC enumerates every (declaration typed/object x kind, operation, length -1(None)..MaxLen, index type, index value in "
                "-VMag..VMag + scaled type bounds) and every (start, stop[, step]) over absent/C/object bounds incl. None, float, "
                "Py_ssize_t bounds and ints beyond; each published cell is executed on compiled code in every realisation "
                "(real C types of the model type, constant, int-typed, __index__ object; typed str in 3 widths). Non-trivial = distinct "
                "(function, container, arguments) with a non-empty container",
        "samples": acc["samples"],
    })
    rc = rep.finish()
    cov["known_findings"] = rep.kf_summary()
    core.write_evidence(PROP, tier, seed, "model_checking", cov, time.time() - t0,
                        assumptions=["Py_ssize_t is modelled 8 bits wide; values next to a bound of a scaled type are mapped to the same distance from "
                                     "the bound of the real type (validated case by case: S = P on the real values)",
                                     "CPython's own slot functions (mp_subscript, sq_item, PySequence_GetSlice, PySlice_*) are modelled by the reference",
                                     "index types wider than Py_ssize_t exist only in the model on LP64 (the third branch of __Pyx_fits_Py_ssize_t)",
                                     "default directives only (wraparound=True, boundscheck=True); values stored into a bytearray are valid bytes; "
                                     "C-integer indexing of a str/bytes/bytearray-typed variable holding None is excluded (nonecheck=False)"],
                        violations=rep.n_violations())
    return rc


def _groups(recs):
    """number of level-1 states (container, operation, length) behind the published leaves"""
    return len({(json.dumps(r["cse"]["c"], sort_keys=True), r["cse"]["op"], r["cse"]["m"], r["cse"]["rhs"], r["cse"]["n"]) for r in recs})


def replay(path, seed):
    with open(path) as f:
        rec = json.load(f)
    mods = L.modules()
    need = sorted({c["module"] for c in rec["cases"]})
    builds = {b.name: b for b in core.build_many([core.BuildSpec(k, mods[k]) for k in need])}
    for b in builds.values():
        with open(os.path.join(os.path.dirname(b.so), b.name + "_prelude.py"), "w") as f:
            f.write(L.PRELUDE)
    rc = 0
    for c in rec["cases"]:
        o = safe_run_calls(builds[c["module"]], [c["call"] + [True]], "replay")[0]
        print("call %s\n  want %s\n  got  %s" % (json.dumps(c["call"]), json.dumps(c["want"]), json.dumps(o)))
        if o != c["want"]:
            rc = 1
    if rc:
        print("VIOLATION property=%s replay=%s" % (PROP, path))
    return rc
