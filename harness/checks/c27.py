"""C27 — cpdef calls reach the most-derived override, from Python and from C.

spec/CpdefDispatch.tla: Python attribute lookup as reference; implementation-shaped
OverrideCheckNode with its single static <<tp_dict_version, obj_dict_version>> pair per method.
TLC: without the version cache (default build on Python 3.12) MostDerived holds on all histories
of length <= 5; with the cache the transcription is refuted (call on b:B, override stored on the
intermediate base A, call again) and every history is published with the model's own prediction.
B1: every history of length 4 (+ simulated long ones) is replayed on compiled modules built
default, with -DCYTHON_USE_DICT_VERSIONS=1 and with -DCYTHON_USE_TYPE_SLOTS=0; the tag returned
by whichever implementation ran is compared with the reference after every call.
P = an equivalent pure-Python hierarchy.
"""
import json
import os
import random
import sys
import time

import core

PROP = "C27"

SRC = '''
cdef class Ext:
    cpdef m(self):
        return "Ext"

cdef class Sub(Ext):
    cpdef m(self):
        return "Sub"

def ccall(Ext o):
    return o.m()

cdef class A2:
    cdef f(self):
        return "A2"

cdef class B2(A2):
    cpdef f(self):
        return "B2"

def ccall_b2(B2 o):
    return o.f()

def ccall_a2(A2 o):
    return o.f()
'''

PSRC = '''
class Ext:
    def m(self):
        return "Ext"

class Sub(Ext):
    def m(self):
        return "Sub"

def ccall(o):
    return o.m()

class A2:
    def f(self):
        return "A2"

class B2(A2):
    def f(self):
        return "B2"

def ccall_b2(o):
    return o.f()

def ccall_a2(o):
    return o.f()
'''

_CHILD = r'''
import json, sys, os, importlib, types
mode, moddir, modname, histfile, outfile = sys.argv[1:6]
if mode == "compiled":
    sys.path.insert(0, moddir)
    mod = importlib.import_module(modname)
    assert mod.__file__.endswith(".so"), mod.__file__
else:
    mod = types.ModuleType(modname)
    exec(compile(open(os.path.join(moddir, modname + "_src.py")).read(), modname, "exec"), mod.__dict__)

class A(mod.Ext): pass
class B(A): pass
class P(mod.Sub): pass
class Q(mod.B2): pass
CLS = {"A": A, "B": B, "P": P, "Q": Q}
def meth(x):
    return "f" if x in ("Q", "q") else "m"
def mkcls(tag):
    def f(self): return tag
    return f
def mkinst(tag):
    return lambda: tag

bad = []
n = 0
with open(histfile) as f:
    for line in f:
        rec = json.loads(line)
        hist = rec["h"]
        n += 1
        for c in CLS.values():
            for nm in ("m", "f"):
                if nm in c.__dict__: delattr(c, nm)
            # bump the dict version of every class: the static version pairs cached by the previous
            # history can then no longer match, as in the model's initial state
            c._bump = 1
            del c._bump
        objs ={"a": A(), "b": B(), "p": P(), "q": Q()}
        for k, st in enumerate(hist):
            op, x = st["op"], st["x"]
            try:
                if op == "setcls": setattr(CLS[x], meth(x), mkcls("cls_" + x))
                elif op == "delcls": delattr(CLS[x], meth(x))
                elif op == "setinst": setattr(objs[x], meth(x), mkinst("inst_" + x))
                elif op == "delinst": delattr(objs[x], meth(x))
                elif op == "callc": got = mod.ccall_b2(objs[x]) if x == "q" else mod.ccall(objs[x])
                elif op == "callcb": got = mod.ccall_a2(objs[x])
                elif op == "callpy": got = getattr(objs[x], meth(x))()
            except BaseException as e:
                got = "E:" + type(e).__name__
                if op not in ("callc", "callpy", "callcb"):
                    bad.append({"hist": n - 1, "step": k, "got": got, "want": "mutation ok"})
                    break
            if op in ("callc", "callpy", "callcb") and got != st["want"]:
                bad.append({"hist": n - 1, "step": k, "got": got, "want": st["want"]})
for c in CLS.values():
    for nm in ("m", "f"):
        if nm in c.__dict__: delattr(c, nm)
json.dump({"n": n, "bad": bad}, open(outfile, "w"))
'''

CONFIGS = [("default", []), ("dictver", ["-DCYTHON_USE_DICT_VERSIONS=1"]), ("noslots", ["-DCYTHON_USE_TYPE_SLOTS=0"])]


def run(tier, seed):
    t0 = time.time()
    rng = random.Random(seed)
    rep = core.Reporter(PROP)
    cov = {"tlc": []}
    t_nc = core.tlc_or_die("CpdefDispatch", cfg="CpdefDispatch_nocache", coverage=True, timeout=1200)
    for act in ("DoSetCls", "DoDelCls", "DoSetInst", "DoDelInst", "DoCallC", "DoCallPy", "DoCallCB"):
        if t_nc.coverage.get(act, (0, 0))[1] == 0:
            core.die("vacuous model: %s never taken" % act)
    cov["tlc"].append(dict(t_nc.summary(), config="UseCache=FALSE, MaxLen=5: MostDerived holds"))
    t_cc = core.tlc("CpdefDispatch", cfg="CpdefDispatch_cachechk", timeout=1200)
    cov["tlc"].append(dict(t_cc.summary(), config="UseCache=TRUE, MaxLen=5: MostDerived %s" % ("refuted" if t_cc.violation == "MostDerived" else "holds")))
    cov["model_with_version_cache_refuted"] = (t_cc.violation == "MostDerived")
    if not t_cc.ok and t_cc.violation != "MostDerived":
        sys.stderr.write(t_cc.out[-2000:])
        core.die("unexpected TLC result %s" % t_cc.violation)
    t_d = core.tlc_or_die("CpdefDispatch", cfg="CpdefDispatch_cache", timeout=1200)
    cov["tlc"].append(dict(t_d.summary(), config="UseCache=TRUE, MaxLen=4, all histories published with the model's prediction"))
    hists = t_d.printed
    if len(hists) < 3000:
        core.die("only %d histories" % len(hists))
    sim = core.tlc_simulate("CpdefDispatch", "CpdefDispatch_sim", seconds=240 if tier == "quick" else 900, depth=15, seed=seed,
                            max_records=1000 if tier == "quick" else 30000, workers=4)
    if not sim.ok:
        sys.stderr.write(sim.out[-2000:])
        core.die("simulation: %s" % sim.violation)
    allh = hists + sim.printed
    wd = core.subdir("c27")
    hf = os.path.join(wd, "hists.ndjson")
    core.write_ndjson(hf, allh)
    builds = core.build_many([core.BuildSpec("c27_" + n, SRC, cflags=cf) for n, cf in CONFIGS])
    pdir = os.path.join(wd, "py")
    os.makedirs(pdir, exist_ok=True)
    with open(os.path.join(pdir, "pmod_src.py"), "w") as f:
        f.write(PSRC)
    pout = os.path.join(wd, "p.json")
    ch = core.run_child(_CHILD, ["python", pdir, "pmod", hf, pout], timeout=900)
    if ch.rc != 0:
        core.die("P run failed: %s" % ch.err[-1500:])
    for b in json.load(open(pout))["bad"][:5]:
        rep.spec_drift("CpdefDispatch reference vs pure-Python hierarchy", {"hist": allh[b["hist"]], "bad": b})
    nrep = 0
    per_cfg = {}
    for (name, cf), b in zip(CONFIGS, builds):
        if not b.ok:
            rep.disagree({"config": name, "kind": "build"}, "build-failed", {"errors": b.errors[-2000:]})
            continue
        out = os.path.join(wd, name + ".json")
        ch = core.run_child(_CHILD, ["compiled", os.path.dirname(b.so), b.name, hf, out], timeout=900)
        if ch.rc != 0 or not os.path.exists(out):
            rep.disagree({"config": name, "kind": "run"}, "crash" if ch.crashed else "error", {"rc": ch.rc, "stderr": ch.err[-1500:]})
            continue
        res = json.load(open(out))
        nrep += res["n"]
        per_cfg[name] = len(res["bad"])
        for bd in res["bad"]:
            h = allh[bd["hist"]]["h"]
            st = h[bd["step"]]
            # descriptor from the spec: the call kind, and whether the transcribed version cache predicts exactly this result
            desc = {"config": name, "op": st["op"], "model_predicts_this": name == "dictver" and st["ran"] == bd["got"] and st["ran"] != st["want"],
                    "want_kind": st["want"].split("_")[0]}
            rep.disagree(desc, "runs-" + (bd["got"] if bd["got"] in ("Ext", "Sub", "B2", "A2") else bd["got"].split("_")[0]),
                         {"history": [[s["op"], s["x"]] for s in h], "step": bd["step"], "got": bd["got"], "want": st["want"], "config": name})
    stale_pred = sum(1 for r in allh if r["stale"])
    cov.update({
        "states": t_nc.generated + t_cc.generated + t_d.generated, "distinct_states": t_nc.distinct + t_cc.distinct + t_d.distinct,
        "transitions": t_nc.generated + t_cc.generated + t_d.generated,
        "traces_validated_against_impl": nrep, "evaluations": nrep,
        "distinct_nontrivial": sum(1 for r in allh if any(s["op"].startswith("set") for s in r["h"]) and any(s["op"] == "callc" for s in r["h"])),
        "exhaustive": True, "histories": len(hists), "simulated": len(sim.printed),
        "histories_where_model_with_cache_predicts_stale": stale_pred, "disagreements_per_config": per_cfg,
        "rule": "all histories of length 4 over {set/del override on Python classes A(Ext), B(A), P(Sub); set/del instance attribute; "
                "C-level call; Python-level call} + simulated histories of length 14; 3 build configurations; non-trivial = stores an "
                "override and makes a C-level call",
        "samples": [[[s["op"], s["x"], s["want"]] for s in r["h"]] for r in rng.sample(hists, 2)],
    })
    rc = rep.finish()
    cov["known_findings"] = rep.kf_summary()
    core.write_evidence(PROP, tier, seed, "model_checking", cov, time.time() - t0,
                        assumptions=["dict versions behave like CPython's global version counter (unique per modification)",
                                     "the version cache only exists in builds with CYTHON_USE_DICT_VERSIONS (off by default on 3.12, forced here)"],
                        violations=rep.n_violations())
    return rc
