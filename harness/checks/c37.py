"""C37 — prange: sequential results, and a safe exit / exception hand-off on every schedule.

spec/Prange.tla: the protocol Cython generates around a prange loop (guard `if (why < 2)` read
through a possibly stale per-thread view, trap of break/return/error, fetch_parallel_exception
under the GIL, `why = k`, flush, barrier, epilogue) for T threads, N iterations, every outcome
assignment, dynamic and static hand-out.  TLC checks NoDoubleOwner, EachExecutedOnce, Safe
(= PrangeGuarantee!Guarantee at the end) and termination (fair spec).
Binding B2 (code -> spec): generated prange functions (one per schedule clause) record per
iteration an atomic sequence number, a visit count and the thread id, then the way the statement
ended, reduction / lastprivate / index values, the propagated exception and which exception
objects were released; they run under real OpenMP threads (1..8 threads, 7 schedule clauses,
repetitions for schedule diversity) and without OpenMP; spec/Prange_Trace.tla evaluates the SAME
Guarantee operator on every recorded run.
"""
import itertools
import json
import os
import random
import sys
import time

import core

PROP = "C37"

SCHEDULES = [("dyn1", "schedule='dynamic', chunksize=1"), ("dyn2", "schedule='dynamic', chunksize=2"),
             ("stat", "schedule='static'"), ("stat1", "schedule='static', chunksize=1"),
             ("guid", "schedule='guided'"), ("rt", "schedule='runtime'"), ("none", "")]

HEAD = '''# cython: language_level=3
from cython.parallel import prange
from libc.stdlib cimport malloc, free

cdef extern from *:
    """
    #ifdef _OPENMP
    #include <omp.h>
    #define VERIF_TID() omp_get_thread_num()
    #define VERIF_OMP 1
    #else
    #define VERIF_TID() 0
    #define VERIF_OMP 0
    #endif
    static long __verif_seq = 0;
    #define VERIF_NEXT() __atomic_fetch_add(&__verif_seq, 1, __ATOMIC_SEQ_CST)
    #define VERIF_COUNT(p) __atomic_fetch_add((p), 1, __ATOMIC_SEQ_CST)
    """
    int VERIF_TID() nogil
    int VERIF_OMP
    long VERIF_NEXT() nogil
    int VERIF_COUNT(int* p) nogil

MK = None     # set by the driver: iteration -> exception instance

def has_openmp():
    return bool(VERIF_OMP)
'''

LOOP = '''
cdef long loop_@NAME@(int n, int* k, long* order, int* cnt, int* thr, int nthreads,
                     long* s_out, int* last_out, int* idx_out, int* normal_out) except? -99:
    cdef int i = -5
    cdef long s = 0
    cdef int last = -7
    for i in prange(n, nogil=True, num_threads=nthreads@SCHED@):
        order[i] = VERIF_NEXT()
        VERIF_COUNT(&cnt[i])
        thr[i] = VERIF_TID()
        if k[i] == 1:
            break
        elif k[i] == 2:
            return 1000 + i
        elif k[i] == 3:
            with gil:
                raise MK(i)
        s += i + 1
        last = i
    else:
        normal_out[0] = 1
    s_out[0] = s
    last_out[0] = last
    idx_out[0] = i
    return 0

def run_@NAME@(list kinds, int nthreads):
    cdef int n = len(kinds)
    cdef int* k = <int*> malloc((n + 1) * sizeof(int))
    cdef long* order = <long*> malloc((n + 1) * sizeof(long))
    cdef int* cnt = <int*> malloc((n + 1) * sizeof(int))
    cdef int* thr = <int*> malloc((n + 1) * sizeof(int))
    cdef long s = -1
    cdef int last = -7, idx = -5, normal = 0
    cdef long r
    cdef int j
    for j in range(n):
        k[j] = kinds[j]; order[j] = -1; cnt[j] = 0; thr[j] = -1
    fin = None
    exc = None
    try:
        r = loop_@NAME@(n, k, order, cnt, thr, nthreads, &s, &last, &idx, &normal)
        if r >= 1000:
            fin = "return"; retval = r - 1000
        else:
            fin = "normal" if normal else "break"; retval = -1
    except BaseException as e:
        fin = "raise"; exc = e; retval = -1
    res = {"fin": fin, "exc": exc, "retval": retval, "s": s, "last": last, "idx": idx,
           "cnt": [cnt[j] for j in range(n)], "order": [order[j] for j in range(n)], "thr": [thr[j] for j in range(n)]}
    free(k); free(order); free(cnt); free(thr)
    return res
'''

_DRIVER = r'''
import json, sys, os, gc, weakref, importlib
moddir, modname, casefile, outfile = sys.argv[1:5]
sys.path.insert(0, moddir)
mod = importlib.import_module(modname)
assert mod.__file__.endswith(".so"), mod.__file__
class TrackedErr(Exception):
    def __init__(self, i):
        Exception.__init__(self, i); self.i = i
refs = {}
def mk(i):
    e = TrackedErr(i); refs[i] = weakref.ref(e); return e
mod.MK = mk
KN = {"normal": 0, "break": 1, "return": 2, "raise": 3}
cases = json.load(open(casefile))
out = open(outfile, "w")
rid = 0
for c in cases:
    kinds = c["kinds"]; n = len(kinds)
    f = getattr(mod, "run_" + c["sched"])
    for rep in range(c["reps"]):
        refs.clear()
        r = f([KN[x] for x in kinds], c["threads"])
        e = r.pop("exc")
        gc.collect()
        created = sorted(refs)
        freed = [i + 1 for i in created if refs[i]() is None]
        excid = 0
        if e is not None:
            excid = (e.i + 1) if isinstance(e, TrackedErr) else -1
        rec = {"id": rid, "n": n, "kinds": kinds, "ex": [i for i in range(n) if r["cnt"][i] > 0],
               "each": all(x <= 1 for x in r["cnt"]), "fin": r["fin"], "s": r["s"] if r["fin"] == "normal" else 0,
               "l": (r["last"] if r["last"] >= 0 else n) if r["fin"] == "normal" else 0, "exc": excid, "fr": freed,
               "idx": r["idx"] if r["fin"] == "normal" else -1,
               "meta": {"sched": c["sched"], "threads": c["threads"], "rep": rep, "retval": r["retval"],
                        "threads_seen": len(set(t for t in r["thr"] if t >= 0)), "created": created}}
        del e
        out.write(json.dumps(rec) + "\n"); rid += 1
out.close()
print("@@" + json.dumps({"runs": rid, "openmp": mod.has_openmp()}))
'''


def gen_source():
    src = [HEAD]
    for name, sched in SCHEDULES:
        src.append(LOOP.replace("@NAME@", name).replace("@SCHED@", (", " + sched) if sched else ""))
    return "\n".join(src)


def run(tier, seed):
    t0 = time.time()
    rng = random.Random(seed)
    rep = core.Reporter(PROP)
    cov = {"tlc": []}
    tl = []
    for cfg, desc in ([("Prange_d23", "T=2 N=3 dynamic"), ("Prange_s23", "T=2 N=3 static")] +
                      ([("Prange_d34", "T=3 N=4 dynamic"), ("Prange_s34", "T=3 N=4 static")] if tier == "thorough" else [])):
        r = core.tlc_or_die("Prange", cfg=cfg, coverage=(cfg == "Prange_s23"), timeout=3000)
        tl.append(r)
        cov["tlc"].append(dict(r.summary(), config=desc + ": NoDoubleOwner, EachExecutedOnce, Safe, Terminates"))
        if cfg == "Prange_s23":
            for act in ("Take", "Finish", "Guard", "Body", "Fetch", "SetWhy", "Flush", "Epilogue"):
                if r.coverage.get(act, (0, 0))[1] == 0:
                    core.die("vacuous model: %s never taken" % act)
    builds = core.build_many([core.BuildSpec("c37omp", gen_source(), cflags=["-fopenmp"], ldflags=["-fopenmp"]),
                              core.BuildSpec("c37seq", gen_source())])
    kinds = ["normal", "break", "return", "raise"]
    cases = []
    reps = 6 if tier == "quick" else 40
    n4 = list(itertools.product(kinds, repeat=4))
    if tier == "quick":
        n4 = [k for k in n4 if k.count("normal") <= 3]
        n4 = core.sample(n4, 70, rng) + [("normal",) * 4]
    for k in n4:
        for sched, _ in SCHEDULES:
            for th in ((1, 2, 4) if tier == "quick" else (1, 2, 3, 4, 8, 16)):
                cases.append({"kinds": list(k), "sched": sched, "threads": th, "reps": reps})
    for _ in range(150 if tier == "quick" else 2000):
        n = rng.choice([0, 1, 2, 5, 7, 12, 16])
        k = [rng.choice(kinds) if rng.random() < 0.3 else "normal" for _ in range(n)]
        cases.append({"kinds": k, "sched": rng.choice(SCHEDULES)[0], "threads": rng.choice([1, 2, 3, 4, 8]), "reps": reps})
    wd = core.subdir("c37")
    cf = os.path.join(wd, "cases.json")
    with open(cf, "w") as f:
        json.dump(cases, f)
    total = 0
    info = {}
    allrecs = []
    for b in builds:
        if not b.ok:
            rep.disagree({"kind": "build-failed", "build": b.name}, "build-failed", {"errors": b.errors[-2500:]})
            continue
        outf = os.path.join(wd, b.name + "_runs.ndjson")
        ch = core.run_child(_DRIVER, [os.path.dirname(b.so), b.name, cf, outf], timeout=1800, mem_mb=0,
                            env={"OMP_SCHEDULE": "dynamic,1", "OMP_DYNAMIC": "false"})
        if ch.rc != 0 or not ch.json_lines():
            rep.disagree({"kind": "run-died", "build": b.name}, "crash" if ch.crashed else "error",
                         {"rc": ch.rc, "signal": ch.signal, "stderr": ch.err[-2000:]})
            continue
        j = ch.json_lines()[-1]
        info[b.name] = j
        if b.name == "c37omp" and not j["openmp"]:
            core.die("the OpenMP build did not enable OpenMP")
        recs = core.read_ndjson(outf)
        for r in recs:
            r["id"] = len(allrecs)
            r["meta"]["build"] = b.name
            allrecs.append(r)
    if allrecs:
        recf = os.path.join(wd, "records.ndjson")
        core.write_ndjson(recf, [{k: r[k] for k in ("id", "n", "kinds", "ex", "each", "fin", "s", "l", "exc", "fr", "idx")} for r in allrecs])
        tv = core.tlc_or_die("Prange_Trace", cfg="Prange_Trace", env={"RECORDS": recf}, workers=1, timeout=3000)
        verdict = tv.printed[-1]
        if verdict["n"] != len(allrecs):
            core.die("Prange_Trace saw %s records, expected %d" % (verdict["n"], len(allrecs)))
        cov["tlc"].append(dict(tv.summary(), config="Prange_Trace: one state per recorded run"))
        tl.append(tv)
        for rid in verdict["bad"]:
            r = allrecs[rid]
            ks = set(r["kinds"][i] for i in r["ex"])
            rep.disagree({"kind": "run-rejected", "build": r["meta"]["build"], "fin": r["fin"], "executed_kinds": sorted(ks),
                          "leak_or_missing": sorted(set(r["fr"]) ^ (set(i + 1 for i in r["ex"] if r["kinds"][i] == "raise") - {r["exc"]})) != []},
                         "guarantee-violated", r)
        total = len(allrecs)
        # binding demonstration: corrupted records must be rejected by the trace spec
        bad = []
        for r in allrecs[:400]:
            if r["fin"] == "normal" and r["n"] > 1:
                c = dict(r); c["s"] = r["s"] + 1; bad.append(c)
            elif r["fin"] == "raise":
                c = dict(r); c["exc"] = 0; bad.append(c)
        bad = bad[:40]
        for i, c in enumerate(bad):
            c["id"] = i
        if bad:
            bf = os.path.join(wd, "corrupt.ndjson")
            core.write_ndjson(bf, [{k: r[k] for k in ("id", "n", "kinds", "ex", "each", "fin", "s", "l", "exc", "fr", "idx")} for r in bad])
            tb = core.tlc_or_die("Prange_Trace", cfg="Prange_Trace", env={"RECORDS": bf}, workers=1, timeout=600)
            if len(tb.printed[-1]["bad"]) != len(bad):
                core.die("binding self-test failed: %d corrupted runs, %d rejected" % (len(bad), len(tb.printed[-1]["bad"])))
            cov["binding_selftest"] = {"corrupted": len(bad), "rejected": len(tb.printed[-1]["bad"])}
    multi = sum(1 for r in allrecs if r["meta"]["threads_seen"] > 1)
    cov.update({
        "states": sum(t.generated for t in tl), "distinct_states": sum(t.distinct for t in tl), "transitions": sum(t.generated for t in tl),
        "traces_validated_against_impl": total, "evaluations": total,
        "distinct_nontrivial": len({(tuple(r["kinds"]), r["meta"]["sched"], r["meta"]["threads"], tuple(r["ex"]), r["fin"], r["exc"]) for r in allrecs
                                    if any(k != "normal" for k in r["kinds"])}),
        "runs_with_more_than_one_thread_active": multi, "builds": info,
        "outcome_histogram": {k: sum(1 for r in allrecs if r["fin"] == k) for k in ("normal", "break", "return", "raise")},
        "rule": "outcome assignments over {normal, break, return, raise}: N=4 (quick: 70 sampled + all-normal; thorough: all 256) and seeded "
                "random N in {0..16} x 7 schedule clauses x thread counts x repetitions, OpenMP and sequential builds; non-trivial = distinct "
                "(assignment, schedule, threads, executed set, outcome, exception) with a non-normal iteration",
        "samples": [{k: r[k] for k in ("kinds", "ex", "fin", "exc", "fr", "meta")} for r in rng.sample(allrecs, min(3, len(allrecs)))],
    })
    rc = rep.finish()
    cov["known_findings"] = rep.kf_summary()
    core.write_evidence(PROP, tier, seed, "model_checking", cov, time.time() - t0,
                        assumptions=["the model treats a body and its trap as a few atomic steps; real schedules are observed, not controlled",
                                     "OpenMP `flush` gives every thread the current value of `why` (modelled as refresh of a per-thread view)",
                                     "nested prange / parallel blocks and object-typed privates are not modelled"],
                        violations=rep.n_violations())
    return rc
