"""C35 — reference counts stay balanced on every path, including errors.

spec/RefOwn.tla: reference semantics of a Python fragment over tracked objects whose protocol
methods (__add__, __lt__, __bool__, __iter__/__next__, __enter__/__exit__, __int__, ...) are the
fallible operations; the environment action Inject(k) makes the k-th of them raise InjectedError.
TLC explores root -> program (systematic family + grammar derivations selected by the seed) ->
every injection point of its clean run; each state carries the expected exception type, log,
result / global reprs and the liveness set with reference counts.  Invariants state the
property on the model (prefix up to the injection, propagation without handlers, no result
with an exception, arguments survive, nothing else survives a failed run).

Binding B1 (three-way replay): every program is rendered as a pure-Python-mode function
(variants: def / cfunc behind a def wrapper / closure); P = CPython exec of the module, C = the
module compiled by Cython from the snapshot, in three legs: (1) CYTHON_REFNANNY build with a
recording stand-in `refnanny` module, (2) the same build with the stock
Cython/Runtime/refnanny.pyx compiled from the snapshot (its report must be empty), (3) a plain
build.  Each (program, k) runs in a child; exception type, log, result, global, surviving tracked
objects (weakrefs) with sys.getrefcount, and the objects left after the driver released
everything are compared with the spec (S != P -> exit 2).
Binding B2 (trace validation): the event streams of leg (1) are judged by the ownership
automaton spec/RefOwn_Trace.tla (TLC, a sample incl. every flagged stream) and by its Python
transcription (all streams); both verdicts must agree.
"""
import collections
import concurrent.futures
import json
import os
import random
import re
import subprocess
import time

import core
import lib_refown as lr

PROP = "C35"
_REQ_SEQ = __import__("itertools").count()
_T0 = [0.0]


def _phase(msg):
    if os.environ.get("C35_VERBOSE"):
        print("[c35 %6.1fs] %s" % (time.time() - _T0[0], msg), flush=True)
CFG = {"quick": "RefOwn_quick", "thorough": "RefOwn_thorough"}
BATCH = {"quick": 70, "thorough": 150}
TRACE_SAMPLE = {"quick": 110, "thorough": 1500}
LEGS = ("recorder", "stock", "plain")
FIELDS = ("exc", "log", "res", "glob")
VLET = {"def": "d", "cfunc": "c", "closure": "l"}
MODEL_CLASSES = ("inject:propagates", "inject:handled", "inject:unbound", "clean:ok", "clean:unbound", "alive:fresh",
                 "alive:rc2", "sem:drop:ret", "sem:drop:exc", "sem:suppressed", "site:lt3", "site:with", "site:for",
                 "site:unpack", "glob:set")


# --------------------------------------------------------------------------
def case_classes(r):
    """classes of a published state (vacuity guard on the model)"""
    c = []
    if r["k"] > 0:
        c.append("inject:propagates" if r["exc"] == "InjectedError" else
                 "inject:unbound" if r["exc"] else "inject:handled")
        c.append("site:" + r["sites"][r["k"] - 1].split(":")[0])
    else:
        c.append("clean:unbound" if r["exc"] else "clean:ok")
    if len(r["alive"]) > 2:
        c.append("alive:fresh")
    if any(a["rc"] >= 2 for a in r["alive"]):
        c.append("alive:rc2")
    for s in r["sem"]:
        c.append("sem:" + ":".join(s.split(":")[:2]))
    if r["glob"] != "None":
        c.append("glob:set")
    return c


def descriptor(r, variant, leg):
    k = r["k"]
    d = {"variant": variant, "leg": leg, "inject": k > 0,
         "inj_site": r["sites"][k - 1] if k > 0 else "",
         "inj_op": r["log"][k - 1].split(".", 1)[1].split("(")[0] if k > 0 else "",
         "sem": ",".join(sorted(set(r["sem"]))), "exc": r["exc"], "not_fstr": not_fstr(r["prog"])}
    return d


def not_fstr(e):
    """static feature of the program: `not` applied directly to an f-string"""
    if e["t"] == "not" and e["a"][0]["t"] == "fstr":
        return True
    return any(not_fstr(c) for c in e["a"])


def classify(want, got, leg, peer=None):
    """-> sorted list of observation classes in which `got` deviates from the spec.
    peer: the recorder leg's observation of the same case (stock leg only): the stock nanny must complain
    exactly when the ownership automaton flags the recorded stream"""
    if got is None:
        return ["missing"]
    if got.get("crash"):
        return ["crash"]
    cl = set()
    for f in FIELDS:
        if want[f] != got[f]:
            cl.add(f)
    w = {a["nm"]: a["rc"] for a in want["alive"]}
    g = {a["nm"]: a["rc"] for a in got["alive"]}
    for nm in set(w) | set(g):
        if g.get(nm, 0) > w.get(nm, 0):
            cl.add("leak")
        elif g.get(nm, 0) < w.get(nm, 0):
            cl.add("freed")
    if got["left"]:
        cl.add("leak")
    if leg == "recorder":
        for kind in sorted(set(k for k, _ in got.get("judge", []))):
            cl.add("nanny-" + kind)
    if leg == "stock" and got.get("report"):
        cl.add("stock-report")
    if leg == "stock" and not got.get("report") and peer is not None and \
            any(k in ("leak", "underflow", "null") for k, _ in peer.get("judge") or []):
        cl.add("stock-silent")
    return sorted(cl)


# --------------------------------------------------------------------------
def split_modules(funcs, batch):
    """funcs: list of (fname, prog, variant) -> list of (modname, funcs)"""
    mods = []
    for i in range(0, len(funcs), batch):
        mods.append(("c35m%d" % (len(mods) + 1), funcs[i:i + batch]))
    return mods


def fn_lines(src):
    """line number -> name of the entry function whose rendering contains the line"""
    owner, cur = {}, None
    for i, line in enumerate(src.split("\n"), 1):
        m = re.match(r"def (f\d+[dcl])(_c)?\(a, b\)", line)
        if m:
            cur = m.group(1)
        owner[i] = cur
    return owner


class _So(object):
    def __init__(self, d):
        self.dir = d


def _cc(r, flags, outdir):
    """C-compile the generated file of a cython_only BuildResult the way cybuild.py does (same compiler, flags
    and sanitizer settings as recorded in the build request), plus `flags`.  -> (ok, dir, errors)"""
    with open(os.path.join(r.dir, "req.json")) as f:
        req = json.load(f)
    d = os.path.join(outdir, r.name + "_so")
    os.makedirs(d, exist_ok=True)
    cplus = bool(req["options"].get("cplus"))
    cc = req.get("cc") or ("g++" if cplus else "gcc")
    so = os.path.join(d, r.name + req["suffix"])
    cmd = [cc, "-O0", "-w", "-fPIC", "-shared", "-fno-strict-aliasing", "-I" + req["include"], "-I" + r.dir] + \
        list(req["cflags"]) + list(flags) + [r.c_file, "-o", so] + list(req.get("ldflags") or [])
    p = subprocess.run(cmd, capture_output=True, text=True)
    return p.returncode == 0, d, (p.stdout + p.stderr)[-3000:]


def build_modules(mods, tier, jobs):
    """Every module is translated by Cython once and C-compiled twice (with and without CYTHON_REFNANNY);
    functions the compiler rejects are dropped (and reported).
    -> {modname: {"funcs":..., "src":..., "nanny": dir holder, "plain": dir holder}}, rejected list"""
    state = {m: {"funcs": list(f)} for m, f in mods}
    rejected = []
    pending = [m for m, _ in mods]

    def one(m):
        st = state[m]
        st["src"] = lr.render_module(st["funcs"])
        opts = {"global_options": {"error_on_uninitialized": False}}
        r = core.build_one(core.BuildSpec(m, st["src"], kind="py", options=opts, cython_only=True), core.subdir("b_cy"), 1500)
        st["cy"] = r
        if not r.ok:
            return
        with concurrent.futures.ThreadPoolExecutor(max_workers=2) as ex2:
            f1 = ex2.submit(_cc, r, ["-DCYTHON_REFNANNY=1"], core.subdir("b_nanny"))
            f2 = ex2.submit(_cc, r, [], core.subdir("b_plain"))
            for kind, fu in (("nanny", f1), ("plain", f2)):
                ok, d, err = fu.result()
                if not ok:
                    core.die("C35: C compilation (%s) of %s failed: %s" % (kind, m, err))
                st[kind] = _So(d)

    for rnd in range(4):
        with concurrent.futures.ThreadPoolExecutor(max_workers=jobs) as ex:
            list(ex.map(one, pending))
        again = []
        for m in pending:
            st = state[m]
            r = st["cy"]
            if r.ok:
                continue
            if r.stage != "cython":
                core.die("C35: build of %s failed at stage %s: %s" % (m, r.stage, (r.errors or "")[-1500:]))
            owner = fn_lines(st["src"])
            blamed = set()
            for line in (r.errors or "").splitlines():
                mm = re.match(r".*?%s\.py:(\d+):\d+: (.*)" % re.escape(m), line)
                if mm and not line.startswith("warning"):
                    fn = owner.get(int(mm.group(1)))
                    if fn:
                        blamed.add((fn, mm.group(2).strip()))
            names = set(f for f, _ in blamed)
            if not names:
                core.die("C35: Cython rejected %s and no function could be blamed: %s" % (m, (r.errors or "")[-1500:]))
            for f, msg in sorted(blamed):
                rejected.append({"function": f, "message": msg,
                                 "source": "\n".join(lr.render_function(*[x for x in st["funcs"] if x[0] == f][0]))})
            st["funcs"] = [x for x in st["funcs"] if x[0] not in names]
            again.append(m)
        pending = again
        if not pending:
            break
    if pending:
        core.die("C35: modules still rejected after 4 rounds: %s" % pending)
    return state, rejected


def build_nannies(jobs_ok=True):
    """the recording stand-in (plain C) and the stock refnanny.pyx compiled from the snapshot"""
    rd = core.subdir("nanny_rec")
    with open(os.path.join(rd, "refnanny.c"), "w") as f:
        f.write(lr.RECORDER_C)
    so = os.path.join(rd, "refnanny" + core.ext_suffix())
    p = subprocess.run(["gcc", "-O1", "-w", "-shared", "-fPIC", "-I" + core.py_include(), os.path.join(rd, "refnanny.c"), "-o", so],
                       capture_output=True, text=True)
    if p.returncode:
        core.die("C35: recorder build failed: " + p.stderr[-1000:])
    with open(os.path.join(core.snapshot(), "Cython", "Runtime", "refnanny.pyx")) as f:
        stock_src = f.read()
    r = core.build_one(core.BuildSpec("refnanny", stock_src, kind="pyx"), core.subdir("nanny_stock"), 900)
    if not r.ok:
        core.die("C35: stock refnanny.pyx does not build from the snapshot: %s" % (r.errors or "")[-1500:])
    return rd, r.dir


# --------------------------------------------------------------------------
def run_leg(leg, modname, cases, dirs, timeout=600):
    """run cases [(fname, k)] of one module in child processes; a child that dies is restarted after the
    crashed case.  -> {(fname, k): obs}"""
    out = {}
    todo = list(cases)
    restarts = 0
    hung = ("", -1)
    timeout = max(timeout, 900 + len(cases))
    wd = core.subdir("run_%s_%s" % (leg, modname))
    while todo and restarts < 60:
        req = {"leg": "P" if leg == "P" else "C", "module": modname, "suffix": core.ext_suffix(),
               "source": os.path.join(dirs["src"], modname + ".py"), "cases": todo}
        if leg in ("recorder", "stock"):
            req["nanny"] = leg
        reqf = os.path.join(wd, "req%d_%d.json" % (next(_REQ_SEQ), restarts))
        with open(reqf, "w") as f:
            json.dump(req, f)
        paths = [dirs["rt"]]
        if leg == "recorder":
            paths += [dirs["rec"], dirs["nanny"][modname]]
        elif leg == "stock":
            paths += [dirs["stock"], dirs["nanny"][modname]]
        elif leg == "plain":
            paths += [dirs["plain"][modname]]
        r = core.run_child(dirs["driver"], [reqf], cwd=wd, paths=paths, timeout=timeout, with_snapshot=True, mem_mb=4096)
        cur = None
        pend_lines = []
        done = False
        ready = False
        for line in r.out.splitlines():
            if line.startswith("@@"):
                try:
                    o = json.loads(line[2:])
                except ValueError:
                    continue
                if "ready" in o:
                    ready = True
                elif "begin" in o:
                    cur = tuple(o["begin"])
                    pend_lines = []
                elif "f" in o:
                    key = (o["f"], o["k"])
                    o["report"] = [x for x in pend_lines if x.strip()]
                    out[key] = o
                    cur = None
                elif "done" in o:
                    done = True
            elif cur is not None:
                pend_lines.append(line)
        if done:
            break
        if not ready:
            core.die("C35: driver did not start (%s %s): rc=%s %s" % (leg, modname, r.rc, r.err[-1500:]))
        # the child died: during `cur`, or between cases
        restarts += 1
        if r.timed_out and cur != hung:
            # out of time (loaded machine): go on with what is left; a case that runs out of time twice is a hang
            hung = cur
            todo = [c for c in todo if tuple(c) not in out]
            continue
        if cur is not None:
            out[cur] = {"crash": True, "signal": r.signal, "timed_out": r.timed_out, "stderr": r.err[-600:],
                        "report": pend_lines}
            core.CRASH_LOGS.append({"call": [leg, modname, cur], "stderr": r.err[-1500:]})
            idx = [tuple(c) for c in todo].index(cur)
            todo = todo[idx + 1:]
        else:
            todo = [c for c in todo if tuple(c) not in out]
            if leg == "P":
                core.die("C35: CPython leg died: %s" % r.err[-1500:])
    return out


# --------------------------------------------------------------------------
def validate_traces(traces, tier, rng, workers):
    """traces: {key: events}.  Python transcription on all; TLC (RefOwn_Trace) on a sample that contains every
    flagged stream.  -> (judgements {key: [(kind, pos)]}, tlc summary, n_tlc, drift list)"""
    judged = {k: lr.judge_trace(ev) for k, ev in traces.items()}
    flagged = [k for k in sorted(judged) if judged[k]]
    clean = [k for k in sorted(judged) if not judged[k]]
    n = TRACE_SAMPLE[tier]
    sample = flagged[:n] + core.sample(clean, max(10, n - len(flagged)), rng)
    # corrupted streams: the automaton must flag them (binding demonstration for B2)
    corrupt = []
    for i, k in enumerate(core.sample(clean, 12, rng)):
        ev = [list(e[:3]) for e in traces[k]]
        pos = [j for j, e in enumerate(ev) if e[0] in "GI" and e[2] != 0]
        if not pos:
            continue
        j = pos[len(pos) // 2]
        if i % 3 == 0:
            del ev[j]                                  # a reference that is given up but was never acquired
        elif i % 3 == 1:
            ev.insert(j, list(ev[j]))                  # acquired twice: leaked at FinishContext
        else:
            ev[j][2] = 0                               # NULL
        corrupt.append(ev)
    recs = []
    ids = {}
    for i, k in enumerate(sample, 1):
        ids[i] = k
        recs.append({"id": i, "ev": [[e[0], e[1], e[2]] for e in traces[k]]})
    for i, ev in enumerate(corrupt, 1):
        recs.append({"id": 100000 + i, "ev": ev})
    path = os.path.join(core.subdir("traces"), "traces.ndjson")
    core.write_ndjson(path, recs)
    r = core.tlc_or_die("RefOwn_Trace", "RefOwn_Trace", env={"C35_TRACES": path}, timeout=2400, coverage=True,
                        workers=workers)
    got = {o["id"]: [tuple(x) for x in o["bad"]] for o in r.printed}
    drift = []
    for i, k in ids.items():
        if got.get(i) != [tuple(x) for x in judged[k]]:
            drift.append({"trace": list(k), "tlc": got.get(i), "python": judged[k]})
    undetected = 0
    for i, ev in enumerate(corrupt, 1):
        want = lr.judge_trace(ev)
        g = got.get(100000 + i)
        if g != [tuple(x) for x in want]:
            drift.append({"corrupt": i, "tlc": g, "python": want})
        if not g:
            undetected += 1
    for a in ("Setup", "Finish", "Acquire", "Release", "Close"):
        if r.coverage.get(a, (0, 0))[0] == 0:
            core.die("C35: vacuous trace model: action %s never taken" % a)
    return judged, r, len(sample), drift, len(corrupt), undetected


# --------------------------------------------------------------------------
def run(tier, seed):
    t0 = time.time()
    _T0[0] = t0
    rng = random.Random(seed)
    rep = core.Reporter(PROP)
    workers = int(os.environ.get("C35_WORKERS", "0")) or None
    jobs = int(os.environ.get("C35_JOBS", "0")) or core.NCPU

    # ---- the model: programs x injection points with expected observations
    r = core.tlc_or_die("RefOwn", CFG[tier], env={"C35_SEED": seed}, timeout=3000, workers=workers)
    states = r.printed
    _phase("TLC RefOwn done: %d states" % r.distinct)
    if len(states) + 1 != r.distinct:
        core.die("C35: %d published states for %d distinct states" % (len(states), r.distinct))
    progs, cases = {}, {}
    for s in states:
        progs[s["pid"]] = s["prog"]
        cases[(s["pid"], s["k"])] = s
    classes = collections.Counter(c for s in states for c in case_classes(s))
    for c in MODEL_CLASSES:
        if not classes.get(c):
            core.die("C35: vacuous model: no state of class %s" % c)
    forms = set()
    for p in progs.values():
        forms |= lr.tags(p)
    need = {"add", "neg", "lt", "lt3", "getitem", "getci", "attr", "call", "cond", "and", "or", "not", "in", "tuple", "list",
            "dict", "fstr", "str", "asg", "ret", "expr", "unpack", "setitem", "setattr", "delitem", "dellocal", "aug", "cint",
            "if", "for", "break", "continue", "tryexc", "tryfin", "with", "block"}
    if need - forms:
        core.die("C35: vacuous model: forms never generated: %s" % sorted(need - forms))

    # ---- rendering: quick = one variant per program (rotating), thorough = all three
    funcs = []
    fmeta = {}
    for pid in sorted(progs):
        vs = lr.VARIANTS if tier == "thorough" else (lr.VARIANTS[(pid + seed) % 3],)
        for v in vs:
            fn = "f%d%s" % (pid, VLET[v])
            funcs.append((fn, progs[pid], v))
            fmeta[fn] = (pid, v)
    mods = split_modules(funcs, BATCH[tier])

    dirs = {"rt": core.subdir("rt"), "src": core.subdir("psrc")}
    with open(os.path.join(dirs["rt"], "c35rt.py"), "w") as f:
        f.write(lr.RUNTIME)
    dirs["driver"] = os.path.join(dirs["rt"], "c35driver.py")
    with open(dirs["driver"], "w") as f:
        f.write(lr.DRIVER)

    # the CPython leg needs the sources only: it runs while the modules are built
    all_cases = {}
    for m, fs in mods:
        with open(os.path.join(dirs["src"], m + ".py"), "w") as f:
            f.write(lr.render_module(fs))
        all_cases[m] = [[fn, k] for fn, _, _ in fs for (p, k) in sorted(cases) if p == fmeta[fn][0]]
    obs = {leg: {} for leg in ("P",) + LEGS}
    pool = concurrent.futures.ThreadPoolExecutor(max_workers=jobs)
    pfuts = [pool.submit(run_leg, "P", m, all_cases[m], dirs) for m, _ in mods]
    fn_n = pool.submit(build_nannies)
    state, rejected = build_modules(mods, tier, jobs)
    dirs["rec"], dirs["stock"] = fn_n.result()
    _phase("builds done (%d modules, %d rejected functions)" % (len(state), len(rejected)))
    dirs["nanny"] = {m: state[m]["nanny"].dir for m in state}
    dirs["plain"] = {m: state[m]["plain"].dir for m in state}
    mod_cases = {}
    for m, st in state.items():
        keep = set(fn for fn, _, _ in st["funcs"])
        mod_cases[m] = [c for c in all_cases[m] if c[0] in keep]

    # ---- the compiled legs; the event streams of the recorder leg are validated while the others run
    futs = {(leg, m): pool.submit(run_leg, leg, m, mod_cases[m], dirs) for leg in LEGS for m in state}
    for fu in pfuts:
        obs["P"].update(fu.result())
    for m in state:
        obs["recorder"].update(futs[("recorder", m)].result())
    _phase("recorder leg done")
    traces = {key: o["trace"] for key, o in obs["recorder"].items() if o.get("trace") is not None}
    tfut = pool.submit(validate_traces, traces, tier, rng, workers)
    for (leg, m), fu in futs.items():
        if leg != "recorder":
            obs[leg].update(fu.result())
    _phase("legs done")

    # ---- S vs P
    n_cases = 0
    for m in state:
        for fn, k in mod_cases[m]:
            n_cases += 1
            want = cases[(fmeta[fn][0], k)]
            got = obs["P"].get((fn, k))
            cl = classify(want, got, "P")
            if cl:
                rep.spec_drift("spec vs CPython %s k=%d: %s" % (fn, k, "+".join(cl)),
                               {"source": lr.src_of(want["prog"], "f", fmeta[fn][1]),
                                "spec": {f: want[f] for f in FIELDS + ("alive",)},
                                "cpython": got and {f: got.get(f) for f in FIELDS + ("alive", "left")}})

    # ---- B2: the recorded event streams
    judged, tr, n_tlc, tdrift, n_corrupt, undetected = tfut.result()
    for d in tdrift[:10]:
        rep.spec_drift("trace automaton: TLC and its transcription disagree", d)
    if undetected:
        core.die("C35: %d corrupted event streams were not flagged by RefOwn_Trace" % undetected)
    for key, j in judged.items():
        obs["recorder"][key]["judge"] = j
    _phase("traces validated (%d by TLC)" % n_tlc)

    # ---- the plain build has no nanny to withhold a bad DECREF, so a case can be disturbed by an earlier one: a
    # deviation of the plain leg that the recorder leg does not show in the same way is re-run in a child of its own
    redo = []
    for m in state:
        for fn, k in mod_cases[m]:
            want = cases[(fmeta[fn][0], k)]
            cp = classify(want, obs["plain"].get((fn, k)), "plain")
            cr = [c for c in classify(want, obs["recorder"].get((fn, k)), "recorder") if not c.startswith("nanny-")]
            if cp and cp != ["crash"] and cp != cr:
                redo.append((m, fn, k))
    redo = redo[:60]
    if redo:
        rf = [(x, pool.submit(run_leg, "plain", x[0], [[x[1], x[2]]], dirs, 120)) for x in redo]
        for (m, fn, k), fu in rf:
            o = fu.result().get((fn, k))
            if o is not None:
                o["isolated"] = True
                o["in_batch"] = {f: obs["plain"][(fn, k)].get(f) for f in FIELDS + ("alive", "left")}
                obs["plain"][(fn, k)] = o
    pool.shutdown()
    _phase("isolated re-runs done (%d)" % len(redo))
    # ---- S vs C
    all_dis = []
    agree = 0
    evaluations = 0
    per_class = collections.Counter()
    nontrivial = set()
    samples = []
    for m in state:
        for fn, k in mod_cases[m]:
            pid, variant = fmeta[fn]
            want = cases[(pid, k)]
            for leg in LEGS:
                evaluations += 1
                got = obs[leg].get((fn, k))
                cl = classify(want, got, leg, obs["recorder"].get((fn, k)) if leg == "stock" else None)
                if not cl:
                    agree += 1
                    continue
                oc = "+".join(cl)
                per_class[leg + ":" + oc] += 1
                detail = {"pid": pid, "k": k, "function": fn, "leg": leg,
                          "source": lr.src_of(want["prog"], "f", variant),
                          "expected": {f: want[f] for f in FIELDS + ("alive",)},
                          "got": got and {f: got.get(f) for f in FIELDS + ("alive", "left", "judge", "report", "crash", "signal",
                                                                             "isolated", "in_batch")},
                          "replay": "build the source with -DCYTHON_REFNANNY=1 (legs recorder/stock) and call f(T('a',True), "
                                    "T('b',False)) with c35rt.reset(k)"}
                verdict = rep.disagree(descriptor(want, variant, leg), oc, detail)
                all_dis.append((dict(descriptor(want, variant, leg), obs_class=oc), verdict, detail))
            if k > 0 or want["exc"] or len(want["alive"]) > 2:
                nontrivial.add((pid, k))
    for s in core.sample(states, 4, rng):
        samples.append({"pid": s["pid"], "k": s["k"], "source": lr.src_of(s["prog"]), "expected": {f: s[f] for f in FIELDS + ("alive",)}})

    # ---- binding demonstration for B1: corrupted expectations must be rejected by classify()
    caught = tried = 0
    for s in core.sample([x for x in states if x["log"]], 120, rng):
        fn = [f for f in fmeta if fmeta[f][0] == s["pid"]]
        got = fn and obs["recorder"].get((fn[0], s["k"]))
        if not got or classify(s, got, "recorder"):
            continue
        for mut in range(4):
            w = json.loads(json.dumps(s))
            if mut == 0:
                w["exc"] = "" if w["exc"] else "InjectedError"
            elif mut == 1:
                w["log"] = w["log"][:-1]
            elif mut == 2:
                w["alive"][0]["rc"] += 1
            else:
                w["alive"].append({"nm": "V99", "rc": 1})
            tried += 1
            caught += bool(classify(w, got, "recorder"))
    if tried == 0 or caught != tried:
        core.die("C35: binding self-test failed: %d of %d corrupted expectations rejected" % (caught, tried))

    if os.environ.get("C35_DUMP"):
        with open(os.environ["C35_DUMP"], "w") as f:
            json.dump(all_dis, f, default=str)
    rc = rep.finish()
    wall = time.time() - t0
    cov = {
        "tlc": [dict(r.summary(), config=CFG[tier], seed=seed), dict(tr.summary(), config="RefOwn_Trace")],
        "states": r.distinct + tr.distinct, "distinct_states": r.distinct, "transitions": r.generated + tr.generated,
        "trace_states": tr.distinct, "trace_action_coverage": {k: v[0] for k, v in tr.coverage.items() if k[0].isupper()},
        "programs": len(progs), "functions_compiled": sum(len(st["funcs"]) for st in state.values()), "modules": len(state),
        "functions_rejected_by_compiler": rejected[:20],
        "cases": n_cases, "evaluations": evaluations, "agreeing": agree,
        "traces_validated_against_impl": evaluations, "nanny_streams_judged": len(traces), "nanny_streams_judged_by_tlc": n_tlc,
        "nanny_events": sum(len(t) for t in traces.values()),
        "corrupted_traces_rejected": n_corrupt, "corrupted_expectations_rejected": caught,
        "distinct_nontrivial": len(nontrivial),
        "rule": "cases = (program, k) states of RefOwn.tla (k = 0 clean run, k >= 1 the k-th fallible call raises), each run in "
                "3 compiled legs; distinct = distinct (program, k); non-trivial = an injection (k >= 1), or a run that raises by "
                "itself, or a run that leaves a fresh tracked object alive",
        "case_classes": dict(classes), "disagreement_classes": dict(per_class),
        "cpython_leg_drift": len(rep.drift), "known_findings": rep.kf_summary(), "samples": samples,
        "exhaustive": False,
    }
    core.write_evidence(PROP, tier, seed, "fault_enumeration", cov, wall, assumptions=[
        "tracked objects are instances of a Python class (weakref + sys.getrefcount); references held by C-level "
        "structures other than the result, the module global and the arguments are not modelled",
        "the recording stand-in implements the documented six-function RefNannyAPI and withholds a DECREF the context "
        "does not own, like the stock nanny",
        "programs are drawn from the grammar of RefOwn.tla (systematic family + seeded derivations), not all programs",
    ], violations=rep.n_violations())
    print("C35 %s: %d states, %d programs, %d cases x 3 legs, %d agree, %d traces (%d by TLC), %.0fs" % (
        tier, r.distinct, len(progs), n_cases, agree, len(traces), n_tlc, wall))
    return rc


def replay(path, seed=0):
    with open(path) as f:
        d = json.load(f)
    for c in d.get("cases", []):
        print(json.dumps(c, indent=1)[:4000])
    return 0
