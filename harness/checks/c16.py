"""C16 -- typed memoryview indexing and slicing match buffer semantics.

spec/MemSlice.tla: a view is <offset, [extent, stride]...> over a padded base of element ids.
Reference = PySlice_Unpack/PySlice_AdjustIndices per axis, integer index with wraparound / IndexError,
step 0 -> ValueError, None inserts an axis, one Ellipsis expands.  Implementation-shaped = the
per-dimension arithmetic of __pyx_memoryview_slice_memviewslice as it is after commit 20608b6d6 (have_*
flags, clamping branches, PySlice-style length), the SliceIndex template and both unellipsify routines.
TLC explores in one run per tier: the whole 1-D quantifier domain on contiguous / strided / reversed inputs
(full1), chains a[e1][e2] (chain1), and 1..3-D products of a per-axis menu with None / Ellipsis placements
(nd); invariants: transcription = reference on the typed and on the object path (ImplAgrees, ObjAgrees;
until 20608b6d6 the model refuted this: negative step with a bound below -len clamped to 0, length by C
division), same position of every non-empty result, both ellipsis expansions = reference expansion.

Binding B1: every published case (state) is executed on code compiled from the working tree:
  typed-runtime  one function per compile-time skeleton (which bounds are present, where None/...
                 stand), bounds as Py_ssize_t arguments; `long[::1]` twin for contiguous 1-D inputs
  constant       bounds compiled into the source (sample of triples of the 1-D domain)
  object         (<object>a)[obj] -> MemoryView.pyx __getitem__/_unellipsify/memview_slice
and must give the reference observation -- also on the cells of the two repaired defects (marked by the
spec, counted in the evidence).  P = NumPy on the same array (+ Python's memoryview for 1-D); S/P drift
is a machinery error.  Observation: (shape, strides in elements, elements in C order) via the buffer
protocol and the memoryview object's own .shape/.strides, or the exception type.
"""
import concurrent.futures
import json
import os
import random
import sys
import time

import calls
import core
import lib_memslice as L

PROP = "C16"
FUNCS_PER_MODULE = 300

NEEDED = ["err:IndexError", "err:ValueError", "err:none", "former:none", "former:neg-step-bound-below-minus-len",
          "former:bounds-against-step-by-less-than-a-step", "empty", "nonempty",
          "item:i", "item:s", "item:n", "item:e", "neg_step", "omitted_bound", "depth:1", "depth:2",
          "nd_in:1", "nd_in:2", "nd_in:3", "lay:c", "lay:s2", "lay:r", "ndim_out:0", "ndim_out:1", "ndim_out:2", "ndim_out:3"]

TIERS = {
    "quick": {"cfgs": [("cases", "MemSlice_quick")], "consts": 60, "tuple_forms": 1000, "min_cases": 15000},
    "thorough": {"cfgs": [("cases", "MemSlice_thorough"), ("cases", "MemSlice_chain3")],
                 "consts": 1500, "tuple_forms": 20000, "min_cases": 150000},
}

CRASH_PROBE = """# cython: language_level=3
def f(long[:] a, Py_ssize_t i):
    return a[i, ...]
"""


def log(t0, msg):
    sys.stderr.write("[c16 %6.1fs] %s\n" % (time.time() - t0, msg))
    sys.stderr.flush()


def obs_class(got, want):
    if isinstance(got, str) and (got.startswith("CRASH") or got == "TIMEOUT"):
        return "crash"
    if isinstance(got, str) and got.startswith("E:"):
        return "exception"
    if isinstance(want, str) and want.startswith("E:"):
        return "no-exception"
    return "wrong-result"


def _tlc(cfg, **kw):
    """core.tlc, with an optional development cache (C16_DEV_CACHE=<dir>) keyed by the spec's and cfg's mtime"""
    cache = os.environ.get("C16_DEV_CACHE")
    if not cache:
        return core.tlc("MemSlice", cfg=cfg, **kw)
    import pickle
    stamp = "%d_%d" % (os.path.getmtime(os.path.join(core.SPEC, "MemSlice.tla")), os.path.getmtime(os.path.join(core.SPEC, cfg + ".cfg")))
    fn = os.path.join(cache, "%s_%s.pkl" % (cfg, stamp))
    if os.path.exists(fn):
        with open(fn, "rb") as f:
            return pickle.load(f)
    r = core.tlc("MemSlice", cfg=cfg, **kw)
    if r.ok:
        os.makedirs(cache, exist_ok=True)
        with open(fn, "wb") as f:
            pickle.dump(r, f)
    return r


def run(tier, seed):
    t0 = time.time()
    rng = random.Random(seed)
    rep = core.Reporter(PROP)
    T = TIERS[tier]
    cov = {"tlc": []}

    # ------------------------------------------------------------------ model checking
    nw = max(2, core.NCPU // (2 if tier == "quick" else 3))
    jobs = list(T["cfgs"])
    with concurrent.futures.ThreadPoolExecutor(max_workers=len(jobs)) as ex:
        futs = [(part, cfg, ex.submit(_tlc, cfg, workers=nw, timeout=3000 if tier == "thorough" else 900,
                                      deadlock=False, heap="6g" if tier == "thorough" else None)) for part, cfg in jobs]
        crash_probe = ex.submit(core.build_many, [core.BuildSpec("c16probe", CRASH_PROBE, cython_only=True)], core.subdir("c16probe"), 1)
        results = [(part, cfg, f.result()) for part, cfg, f in futs]
        probe = crash_probe.result()[0]
    cases, inputs = [], {}
    states = distinct = 0
    for part, cfg, r in results:
        states += r.generated
        distinct += r.distinct
        cov["tlc"].append(dict(r.summary(), config=cfg))
        if not r.ok:
            sys.stderr.write(r.out[-6000:])
            core.die("TLC failed (%s): %s" % (r.violation or r.rc, r.cmd))
        if len(r.printed) != r.distinct:
            core.die("%s: %d records published for %d distinct states" % (cfg, len(r.printed), r.distinct))
        for rec in r.printed:
            if rec.get("input"):
                inputs[(tuple(rec["lens"]), tuple(rec["lays"]))] = rec
            else:
                cases.append(rec)
    log(t0, "TLC done: %d states, %d cases, %d input buffers" % (states, len(cases), len(inputs)))
    kl = L.classes(cases)
    cov["model_case_classes"] = kl
    missing = [k for k in NEEDED if not kl.get(k)]
    if missing:
        core.die("vacuous model: no published case of class %s" % missing)
    if len(cases) < T["min_cases"]:
        core.die("only %d cases published" % len(cases))

    # ------------------------------------------------------------------ functions and modules
    funcs = {}     # key -> (fid, source, C type, number of arguments)
    order = []

    def func_for(key, make, ctype, nargs):
        if key not in funcs:
            funcs[key] = (len(funcs), make("f%d" % len(funcs)), ctype, nargs)
            order.append(key)

    plan = []      # per case: list of (path, key, args)
    n_untyped = 0
    for c in cases:
        nd = len(c["lens"])
        skel = L.skel_case(c["hist"])
        p = []
        if L.typed_supported(nd, skel):
            key = ("t", nd, False, skel)
            func_for(key, lambda name, nd=nd, skel=skel: L.typed_function(name, L.TYPES[nd], skel, nd), L.TYPES[nd], L.nargs_of(skel))
            p.append(("typed-runtime", key))
            if nd == 1 and c["lays"] == ["c"]:
                key = ("t", nd, True, skel)
                func_for(key, lambda name, skel=skel: L.typed_function(name, L.CONTIG1, skel, 1), L.CONTIG1, L.nargs_of(skel))
                p.append(("typed-contig", key))
        else:
            n_untyped += 1
        plan.append(p)
    # constant bounds: sample of distinct triples of the 1-D domain, half of them from the cells of the repaired defects
    triples = {}
    for i, c in enumerate(cases):
        if c["part"] == "full1" and c["hist"][0][0][0] == "s":
            triples.setdefault(tuple(c["hist"][0][0]), []).append(i)
    tkeys = sorted(triples)
    hz_t = [t for t in tkeys if any(L.former_cell(cases[i]["exp"]) != "none" for i in triples[t])]
    chosen = core.sample(hz_t, T["consts"] // 2, rng)
    chosen += core.sample([t for t in tkeys if t not in set(chosen)], T["consts"] - len(chosen), rng)
    for t in chosen:
        key = ("k", t)
        func_for(key, lambda name, t=t: L.const_function(name, L.TYPES[1], list(t)), L.TYPES[1], 0)
        for i in triples[t]:
            plan[i].append(("constant", key))
    modof = {}
    modules = []
    DISP = {L.TYPES[1]: "t1", L.CONTIG1: "t1c", L.TYPES[2]: "t2", L.TYPES[3]: "t3"}
    for j, key in enumerate(order):
        m = j // FUNCS_PER_MODULE
        if m == len(modules):
            modules.append([])
        modules[m].append(key)
        modof[key] = m
    specs = []
    for m, keys in enumerate(modules):
        src = [L.MODULE_HEAD] + [funcs[k][1] for k in keys]
        for ctype, dname in DISP.items():
            src.append(L.dispatcher(dname, ctype, [(funcs[k][0], "f%d" % funcs[k][0], funcs[k][3]) for k in keys if funcs[k][2] == ctype]))
        specs.append(core.BuildSpec("c16m%d" % m, "\n".join(src)))
    log(t0, "%d functions in %d modules" % (len(funcs), len(specs)))
    builds = core.build_many(specs)
    bad = [b for b in builds if not b.ok]
    if bad:
        for b in bad:
            rep.disagree({"part": "build", "module": b.name, "stage": b.stage}, "build-failed", {"errors": (b.errors or "")[-3000:]})
        rc = rep.finish()
        core.write_evidence(PROP, tier, seed, "model_checking", {"evaluations": len(bad), "distinct_nontrivial": 0, "states": states,
                            "transitions": states, "traces_validated_against_impl": 0, "samples": ["build failed: " + bad[0].name]},
                            time.time() - t0, violations=len(bad))
        return rc
    log(t0, "builds done (cython %s s, cc %s s)" % ([b.cython_s for b in builds], [b.cc_s for b in builds]))

    # ------------------------------------------------------------------ call tables
    tabs = [([], []) for _ in builds]     # (calls, meta) per module; meta = (kind, case index | input key, path)
    for key, rec in sorted(inputs.items()):
        if any(not (0 <= e < rec["base"]) for e in rec["el"]):
            core.die("input view of the model leaves its base: %r" % (rec,))
        tabs[0][0].append(["in_ref", [{"t": list(key[0])}, {"t": list(key[1])}]])
        tabs[0][1].append(("P-in", key, None))
    tuple_forms = set(core.sample([i for i, c in enumerate(cases) if all(len(e) == 1 for e in c["hist"])], T["tuple_forms"], rng))
    n_former = {}
    for i, c in enumerate(cases):
        nd = len(c["lens"])
        arr = L.arr_py(c["lens"], c["lays"], exporter=True)     # code under test: exact buffer of the model
        m = modof[plan[i][0][1]] if plan[i] else 0
        cl, meta = tabs[m]
        es = L.hist_py(c["hist"])
        cl.append(["np_ref", [L.arr_py(c["lens"], c["lays"]), es]])
        meta.append(("P-np", i, None))
        if L.mv_applicable(nd, c["hist"]):
            cl.append(["mv_ref", [arr, es]])
            meta.append(("P-mv", i, None))
        has_none = any(it[0] == "n" for e in c["hist"] for it in e)
        if not has_none:       # the memoryview object rejects None (TypeError, like Python's memoryview): typed path only
            cl.append(["ob%d" % nd, [arr, es]])
            meta.append(("C", i, "object"))
            if nd == 1 and c["lays"] == ["c"]:
                cl.append(["cob1", [arr, es]])
                meta.append(("C", i, "object-contig"))
            if i in tuple_forms:
                cl.append(["ob%d" % nd, [arr, L.hist_py(c["hist"], force_tuple=True)]])
                meta.append(("C", i, "object"))
        for path, key in plan[i]:
            cl2, meta2 = tabs[modof[key]]
            cl2.append([DISP[funcs[key][2]], [funcs[key][0], arr] + (L.values(c["hist"]) if key[0] == "t" else [])])
            meta2.append(("C", i, path))
    with concurrent.futures.ThreadPoolExecutor(max_workers=len(builds)) as ex:
        obs = list(ex.map(lambda bt: calls.run_calls(bt[0], bt[1][0], prelude=L.prelude(inputs), timeout=1800), zip(builds, tabs)))
    log(t0, "%d calls done" % sum(len(t[0]) for t in tabs))

    # ------------------------------------------------------------------ verdicts
    n_exec = n_p = 0
    per_path = {}
    nontrivial = set()
    matched = []
    for (cl, meta), ob in zip(tabs, obs):
        for call, (kind, ref, path), got in zip(cl, meta, ob):
            if kind == "P-in":
                rec = inputs[ref]
                want = json.dumps([True, rec["shape"], rec["strides"], rec["el"], rec["base"]])
                if got != want:
                    rep.spec_drift("input buffer of the model vs NumPy construction", {"input": ref, "spec": want, "numpy": got})
                continue
            c = cases[ref]
            want = L.expected(c["exp"])
            if kind in ("P-np", "P-mv"):
                n_p += 1
                if got != want:
                    rep.spec_drift("MemSlice reference vs %s" % ("NumPy" if kind == "P-np" else "Python memoryview"),
                                   {"expr": L.expr_text(c["hist"]), "lens": c["lens"], "lays": c["lays"], "spec": want, "oracle": got})
                continue
            n_exec += 1
            per_path[path] = per_path.get(path, 0) + 1
            fc = L.former_cell(c["exp"])
            if fc != "none":
                n_former[fc] = n_former.get(fc, 0) + 1
            if c["exp"]["err"] or json.dumps(c["hist"]) != json.dumps([[["s", L.NONE, L.NONE, L.NONE]]]):
                nontrivial.add((call[0], json.dumps(call[1], sort_keys=True)))
            if got == want:
                if len(matched) < 4000:
                    matched.append((call, want, got))
                continue
            rep.disagree(L.descriptor(c["part"], "object" if path == "object-contig" else path, c), obs_class(got, want),
                         {"expr": L.expr_text(c["hist"]), "lens": c["lens"], "lays": c["lays"], "call": call, "path": path,
                          "want": want, "got": got, "cell_of_repaired_defect": L.former_cell(c["exp"])})
    # the one index form that cannot be compiled at all
    crash = (probe.stage == "cython-crash") or ("Compiler crash" in (probe.errors or ""))
    if crash:
        rep.disagree({"part": "compile", "form": "ellipsis-leaves-0-dims", "nd": 1}, "compiler-crash",
                     {"source": CRASH_PROBE, "errors": (probe.errors or "")[-1500:]})
    cov["ellipsis_0dim_probe"] = "compiler-crash" if crash else ("compiles" if probe.ok else "clean-compile-error")

    # binding demonstration: corrupted expectations must be rejected by the same comparison
    demo = core.sample(matched, 200, rng)
    if len(demo) < 50:
        core.die("binding self-test: only %d matching observations" % len(demo))
    for call, want, got in demo:
        if want.startswith("E:"):
            bad_want = "E:KeyError"
        else:
            w = json.loads(want)
            if w[2]:
                w[2][rng.randrange(len(w[2]))] += 1
            elif w[0]:
                w[0][0] += 1
                w[3][0] += 1
            else:
                w[2].append(0)
            bad_want = json.dumps(w)
        if got == bad_want:
            core.die("binding self-test failed on %r" % (call,))

    cov.update({
        "states": states, "distinct_states": distinct, "transitions": states,
        "traces_validated_against_impl": n_exec, "evaluations": n_exec, "distinct_nontrivial": len(nontrivial),
        "cases_published": len(cases), "oracle_evaluations": n_p, "executed_per_path": per_path,
        "functions_compiled": len(funcs), "modules": len(builds),
        "cases_without_typed_form": n_untyped, "executions_on_cells_of_repaired_defects": n_former,
        "exhaustive": True,
        "rule": "every state published by TLC is executed on every entry path that can express it; non-trivial = distinct "
                "(function, arguments) call whose index expression is not the bare full slice",
        "samples": [{"expr": L.expr_text(cases[i]["hist"]), "lens": cases[i]["lens"], "lays": cases[i]["lays"],
                     "expected": L.expected(cases[i]["exp"])[:200], "cell_of_repaired_defect": L.former_cell(cases[i]["exp"])}
                    for i in rng.sample(range(len(cases)), 5)],
    })
    rc = rep.finish()
    cov["known_findings"] = rep.kf_summary()
    core.write_evidence(PROP, tier, seed, "model_checking", cov, time.time() - t0,
                        assumptions=["dtype long (int64) only: the slicing arithmetic does not depend on the item type",
                                     "direct (non-indirect) axes only; default directives (boundscheck, wraparound on)",
                                     "None on the object path is outside the check: the memoryview object rejects it with TypeError "
                                     "like Python's memoryview does"],
                        violations=rep.n_violations())
    return rc
