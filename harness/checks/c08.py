"""C08 -- C `double complex` arithmetic and conversions match Python complex.

spec/Complex.tla: doubles as extended dyadic reals (exact IEEE results or the flag "not decided");
reference = CPython's complexobject.c algorithms, implementation-shaped = the struct variant of
Utility/Complex.c and the C99-variant constructor `x + y*I`.  TLC explores one state per (op, three
fixed components) and publishes the row of cells over the fourth: demand, struct model, code path.
Binding B1: every published cell is executed on two builds of the same module (default C99 variant,
-DCYTHON_CCOMPLEX=0 struct variant), operands passed component-wise ("parts": operator in isolation)
and as Python complex arguments ("arg": conversion + operator).  S = spec demand, P = CPython on the
same operands (must agree wherever the spec decides), C = compiled code.
A deviation is classified by what the UNCHANGED algorithm computes on these operands (float
transcription of Complex.c cross-checked against the TLA+ model; a plain C99 program for the C99
variant): obs_class "as-model" only if the compiled result is bit-identical to that.
Outside TLC (P as oracle): seeded random finite operands, extreme magnitudes, conversion objects."""
import concurrent.futures
import json
import math
import os
import random
import time

import calls
import core
import lib_complex as lc

PROP = "C08"
EXACT_OPS = ("add", "sub", "mul", "neg", "conv", "fromreal")
INF = math.inf


def parse_rows(rows):
    """-> list of cells: dict(op, a, b, d, m, path, cc)   (a, b float tuples; d/m strings)"""
    cells = []
    for r in rows:
        op = r["op"]
        f = [lc.pf(x) for x in r["f"]]
        for c in r["cells"]:
            y = lc.pf(c["y"])
            cc = c["c"]
            if op in ("add", "sub", "mul", "div", "cdiv", "pow"):
                a, b = (f[0], f[1]), (f[2], y)
            else:
                a, b = (f[0], y), (0.0, 0.0)
            cells.append({"op": op, "a": a, "b": b, "d": cc["d"], "m": cc["m"], "path": cc["p"], "cc": cc["c"]})
    return cells


def parse_val(s):
    """'ZDE' | 'none:..' | 're,im' -> str | [re|None, im|None]"""
    if "," not in s:
        return s
    x, y = s.split(",")
    return [lc.pf(x), lc.pf(y)]


def comp_ok(w, g, mode, scale):
    if w != w:
        return g != g
    if w in (INF, -INF):
        return g == w
    if mode == "exact":
        return lc.same(w, g)
    if g != g or g in (INF, -INF):
        return False
    if mode == "class":
        if w == 0:
            return lc.same(w, g)
        return abs(g - w) <= 1e-9 * abs(w) + 2e-323
    return abs(g - w) <= 1e-9 * scale + 2e-323


def moderate(*zs):
    return all(lc.cls(x) in ("fin", "zero") for z in zs for x in z)


class Judge(object):
    """Compares one observation with the demand and reports deviations."""

    def __init__(self, rep, stats):
        self.rep = rep
        self.stats = stats

    def judge(self, part, build, via, op, a, b, want, modes, got, pred, path, conv_lossy, src):
        """want: 'ZDE' | [re, im] (None = not compared) ; modes: per-component compare mode;
        got: observation of the driver ; pred: what the unchanged algorithm gives: 'ZDE' | (re, im)"""
        st = self.stats
        desc = {"part": part, "build": build, "via": via, "op": op, "path": path, "conv_lossy": conv_lossy}

        def mk_detail():
            return {"call": "%s_%s" % ("a" if via == "arg" else "p", op), "a": [lc.hx(x) for x in a], "b": [lc.hx(x) for x in b],
                    "a_repr": repr(complex(*a)), "b_repr": repr(complex(*b)),
                    "want": want if isinstance(want, str) else [None if x is None else lc.hx(x) for x in want],
                    "got": got if isinstance(got, str) else [got[0]] + [lc.hx(x) for x in got[1:]],
                    "unchanged_algorithm_gives": pred if isinstance(pred, str) else [lc.hx(x) for x in pred], "expected_from": src}
        st["judged"] += 1
        if isinstance(got, str):
            if got.startswith("E:"):
                if want == "ZDE" and got == "E:ZeroDivisionError":
                    return True
                oc = "as-model" if (pred == "ZDE" and got == "E:ZeroDivisionError") else "exception"
            else:
                oc = "crash"
            self.rep.disagree(desc, oc, mk_detail())
            return False
        if got[0] == "o":
            self.rep.disagree(desc, "wrong-type", mk_detail())
            return False
        ok = True
        if op == "abs":
            if got[0] != "f":
                self.rep.disagree(desc, "wrong-type", mk_detail())
                return False
            g = (got[1], 0.0)
            skip_im_sign = False
        elif got[0] == "f":
            # a Python float where Python gives a complex.  The unchanged tree does that for `**` under cpow=False
            # exactly when the imaginary part of its result is zero ("soft complex"); anything else is a wrong type.
            soft = op == "pow" and not isinstance(pred, str) and pred[1] == 0 and lc.same(pred[0], got[1])
            self.rep.disagree(desc, "float-result" if soft else "wrong-type", mk_detail())
            if not soft:
                return False
            ok = False
            g = (got[1], 0.0)
            skip_im_sign = True
        else:
            g = (got[1], got[2])
            skip_im_sign = False
        if want == "ZDE":
            oc = "as-model" if (pred != "ZDE" and lc.same(pred[0], g[0]) and (op == "abs" or lc.same(pred[1], g[1]))) else "wrong-value"
            self.rep.disagree(desc, oc, mk_detail())
            return False
        scale = max([abs(x) for x in want if x is not None and x == x and abs(x) != INF] + [0.0])
        bad = False
        for i in (0, 1):
            if want[i] is None or (op == "abs" and i == 1):
                continue
            if i == 1 and skip_im_sign and want[1] == 0:
                continue
            if not comp_ok(want[i], g[i], modes[i], scale):
                bad = True
        if bad:
            as_model = pred != "ZDE" and lc.same(pred[0], g[0]) and (op == "abs" or skip_im_sign or lc.same(pred[1], g[1]))
            self.rep.disagree(desc, "as-model" if as_model else "wrong-value", mk_detail())
            return False
        return ok


def build_modules(jobs):
    src = lc.module_source()
    specs = [core.BuildSpec("c08cc", src), core.BuildSpec("c08st", src, cflags=["-DCYTHON_CCOMPLEX=0"])]
    return core.build_many(specs, jobs=jobs)


def run(tier, seed):
    t0 = time.time()
    rng = random.Random(seed)
    rep = core.Reporter(PROP)
    cov = {"tlc": []}
    quick = tier == "quick"
    core.scratch()
    work = core.subdir("c08")
    core.subdir("tlc")
    core.subdir("build")

    # ---- model checking, builds and the C99 oracle in parallel
    strict = {"Complex_strict_abs": "StructAgreesEverywhere", "Complex_strict_div": "StructAgreesEverywhere",
              "Complex_strict_conv": "ConvAgreesEverywhere"}
    with concurrent.futures.ThreadPoolExecutor(max_workers=6) as ex:
        f_tlc = ex.submit(core.tlc, "Complex", cfg="Complex_q" if quick else "Complex_t", timeout=900 if quick else 2400)
        f_bld = ex.submit(build_modules, 2)
        f_orc = ex.submit(lc.C99Oracle, work)
        f_strict = {cfg: ex.submit(core.tlc, "Complex", cfg=cfg, workers=2, timeout=600) for cfg in strict}
        tl = f_tlc.result()
        builds = f_bld.result()
        oracle = f_orc.result()
        # the deviations of the implementation-shaped model are found by TLC itself: the strict configurations must fail
        for cfg, inv in strict.items():
            r = f_strict[cfg].result()
            if r.violation != inv:
                core.die("strict configuration %s did not fail on %s (got %r)" % (cfg, inv, r.violation))
            cov["tlc"].append(dict(r.summary(), config=cfg, expected_violation=inv))
    if not tl.ok:
        import sys
        sys.stderr.write(tl.out[-5000:])
        core.die("TLC failed (%s): %s" % (tl.violation or tl.rc, tl.cmd))
    cov["tlc"].append(dict(tl.summary(), config="Complex_q" if quick else "Complex_t"))
    phases = {"tlc+build": round(time.time() - t0, 1)}
    cov["phase_wall_s"] = phases
    cells = parse_rows(tl.printed)
    if len(tl.printed) * 2 != tl.distinct or len(cells) < 50000:
        core.die("Complex.tla published %d rows for %d distinct states, %d cells" % (len(tl.printed), tl.distinct, len(cells)))
    for b in builds:
        if not b.ok:
            rep.disagree({"part": "build", "build": b.name, "stage": b.stage}, "build-failed", {"errors": (b.errors or "")[-3000:]})
    if rep.n_violations():
        rc = rep.finish()
        core.write_evidence(PROP, tier, seed, "model_checking", {"evaluations": 1, "distinct_nontrivial": 0, "states": tl.generated,
                            "transitions": tl.generated, "traces_validated_against_impl": 0, "samples": ["build failed"]}, time.time() - t0, violations=1)
        return rc
    b_cc, b_st = builds

    # ---- S vs P, model vs float transcription; vacuity of the model
    mstat = {"cells": len(cells), "demand_decided_both": 0, "demand_decided_one": 0, "demand_undecided": 0, "demand_ZDE": 0,
             "no_demand_python_raises": 0, "no_demand_cdivision_zero": 0, "model_deviates": {}, "model_undecided": 0}
    for c in cells:
        op, a, b = c["op"], c["a"], c["b"]
        p = lc.py_op(op, complex(*a), complex(*b))
        c["p"] = p
        d = parse_val(c["d"])
        if op == "abs" and not isinstance(d, str):
            d[1] = None          # abs() is a float: the second component is a filler
        c["dv"] = d
        if isinstance(d, str):
            dd = d[5:] if d.startswith("none:") else d
            if p != dd:
                rep.spec_drift("Complex.tla demand vs CPython", {"op": op, "a": repr(complex(*a)), "b": repr(complex(*b)), "spec": c["d"], "python": repr(p)})
            if d == "ZDE":
                mstat["demand_ZDE"] += 1
            elif op == "cdiv":
                mstat["no_demand_cdivision_zero"] += 1
            else:
                mstat["no_demand_python_raises"] += 1
        else:
            nd = (d[0] is not None) + (d[1] is not None)
            mstat["demand_decided_both" if nd == 2 else "demand_decided_one" if nd == 1 else "demand_undecided"] += 1
            if isinstance(p, str):
                if nd >= 1:
                    rep.spec_drift("Complex.tla demand vs CPython", {"op": op, "a": repr(complex(*a)), "b": repr(complex(*b)), "spec": c["d"], "python": p})
            else:
                for i, pv in ((0, p.real), (1, p.imag)):
                    if d[i] is not None and not lc.same(d[i], pv):
                        rep.spec_drift("Complex.tla demand vs CPython", {"op": op, "a": repr(complex(*a)), "b": repr(complex(*b)), "spec": c["d"], "python": repr(p)})
                        break
        # implementation-shaped model vs the float transcription of the same C code
        tz, tpath = lc.cy_op(op, a, b)
        c["t"] = tz
        m = parse_val(c["m"])
        if isinstance(m, str) != isinstance(tz, str) or tpath != c["path"] or (
                not isinstance(m, str) and any(m[i] is not None and not lc.same(m[i], tz[i]) for i in (0, 1))):
            rep.spec_drift("Complex.tla struct model vs float transcription of Complex.c", {"op": op, "a": repr(complex(*a)), "b": repr(complex(*b)),
                           "spec": [c["m"], c["path"]], "transcription": [repr(tz), tpath]})
        c["mv"] = m
        if not isinstance(m, str) and None in m:
            mstat["model_undecided"] += 1
        if not c["d"].startswith("none") and (isinstance(m, str) != isinstance(d, str) or (
                not isinstance(m, str) and any(m[i] is not None and d[i] is not None and not lc.same(m[i], d[i]) for i in (0, 1)))):
            mstat["model_deviates"][c["path"]] = mstat["model_deviates"].get(c["path"], 0) + 1
    if rep.drift:
        return rep.finish()
    need = {"abs:sqrt", "quot:bimag0", "quot:re>=im", "quot:im>re", "pow:zerobase", "pow:int1pos", "pow:int2neg"}
    if mstat["demand_ZDE"] == 0 or mstat["demand_decided_both"] < len(cells) // 2 or not need <= set(mstat["model_deviates"]):
        core.die("vacuous model: %r" % mstat)
    cov["model"] = mstat

    phases["drift-checks"] = round(time.time() - t0, 1)
    # ---- cells -> calls
    FN = ["%s_%s" % (v, o) for v in ("p", "a") for o in lc.BINARY + lc.UNARY]
    fidx = {n: i for i, n in enumerate(FN)}
    vals, vidx = [], {}

    def vi(x):
        k = lc.hx(x)
        if k not in vidx:
            vidx[k] = len(vals)
            vals.append(x)
        return vidx[k]

    work_items = []   # (part, op, a, b, want, modes, path, src)
    for c in cells:
        d = c["dv"]
        ops = ("pow", "powc") if c["op"] == "pow" else (c["op"],)
        if isinstance(d, str):
            if d != "ZDE":
                continue
            want, modes = "ZDE", None
        else:
            want = list(d)
            p = c["p"]
            if None in want:
                if isinstance(p, str) or not moderate(c["a"], c["b"]):
                    if want == [None, None]:
                        continue
                else:
                    want = [want[0] if want[0] is not None else p.real, want[1] if want[1] is not None else p.imag]
        for o in ops:
            work_items.append(("grid", o, c["a"], c["b"], want, c, c["path"], "spec"))
    n_grid = len(work_items)

    # ---- P-oracle part: random finite operands (TLC cannot hold them)
    def rnd(kind):
        r = rng.random()
        if kind == "mod":
            if r < 0.08:
                return rng.choice((0.0, -0.0))
            if r < 0.3:
                return float(rng.randint(-9, 9))
            return math.ldexp(rng.uniform(1, 2), rng.randint(-12, 12)) * rng.choice((1, -1))
        if kind == "small":
            return math.ldexp(rng.uniform(1, 2), rng.randint(-3, 2)) * rng.choice((1, -1))
        # extreme magnitudes
        if r < 0.5:
            return math.ldexp(rng.uniform(1, 2), rng.randint(900, 1023)) * rng.choice((1, -1))
        if r < 0.6:
            return rng.choice((1.7976931348623157e308, -1.7976931348623157e308, 5e-324, -5e-324, 2.2250738585072014e-308))
        return math.ldexp(rng.uniform(1, 2), rng.randint(-1074, -900)) * rng.choice((1, -1))

    nrand = 400 if quick else 6000
    for i in range(nrand):
        kind = "ext" if i % 5 == 4 else "mod"
        a = (rnd(kind), rnd(kind))
        b = (rnd(kind), rnd(kind)) if i % 17 else (rng.choice((0.0, -0.0)), rng.choice((0.0, -0.0)))
        if i % 7 == 3:
            b = (rnd("mod"), b[1])      # mixed magnitudes
        for o in ("add", "sub", "mul", "div", "cdiv", "neg", "abs", "conv", "fromreal"):
            if o == "cdiv" and b[0] == 0 and b[1] == 0:
                continue
            bb = b if o in lc.BINARY else (0.0, 0.0)
            aa = (a[0], 0.0) if o == "fromreal" else a
            work_items.append(("random", o, aa, bb, None, None, None, "python"))
        # ** : small bases, small exponents (integers half of the time)
        pa = (rnd("small"), rnd("small") if i % 3 else 0.0)
        pb = (float(rng.randint(-6, 6)), 0.0) if i % 2 else (rnd("small"), rnd("small") if i % 4 else 0.0)
        for o in ("pow", "powc"):
            work_items.append(("random", o, pa, pb, None, None, None, "python"))

    # fill the P side of the random items
    items = []
    n_skipped_python_raises = 0
    for it in work_items:
        part, o, a, b, want, c, path, src = it
        if part == "random":
            p = lc.py_op(o, complex(*a), complex(*b))
            if p == "OVF" or (p == "ZDE" and o in ("pow", "powc")):
                n_skipped_python_raises += 1
                continue
            want = "ZDE" if p == "ZDE" else [p.real, p.imag]
            tz, path = lc.cy_op(o, a, b)
        else:
            tz = c["t"] if o != "powc" else c["t"]
        items.append([part, o, a, b, want, c, path, src, tz])

    # ---- predictions for the C99 variant by the plain C99 program
    opmap = {"cdiv": "div", "powc": "pow", "fromreal": "conv"}
    convs = {}
    for it in items:
        for z in (it[2], it[3]):
            convs.setdefault((lc.hx(z[0]), lc.hx(z[1])), z)
    ckeys = list(convs)
    cres = oracle.run([("conv", convs[k], (0.0, 0.0)) for k in ckeys])
    conv_of = {k: r for k, r in zip(ckeys, cres)}
    # the constructor model of the spec vs the plain C program
    for c in cells:
        if c["op"] in ("conv", "fromreal"):
            src_z = c["a"] if c["op"] == "conv" else (c["a"][0], 0.0)
            sv = parse_val(c["cc"])
            ov = conv_of[(lc.hx(src_z[0]), lc.hx(src_z[1]))]
            if not (lc.same(sv[0], ov[0]) and lc.same(sv[1], ov[1])):
                rep.spec_drift("Complex.tla CCFromParts vs gcc `x + y*I`", {"z": repr(complex(*src_z)), "spec": c["cc"], "gcc": repr(ov)})
    if rep.drift:
        return rep.finish()

    def conv(z):
        return conv_of[(lc.hx(z[0]), lc.hx(z[1]))]

    oq = []
    for it in items:
        part, o, a, b = it[:4]
        oo = opmap.get(o, o)
        for via in ("parts", "arg"):
            if o == "fromreal":
                oq.append(("conv", (a[0], 0.0), (0.0, 0.0)))
                continue
            a2, b2 = (conv(a), conv(b)) if via == "arg" else (a, b)
            if o == "conv":
                oq.append(("add", a2, (-0.0, -0.0)))      # identity
            else:
                oq.append((oo, a2, b2))
            if o == "div":
                oq.append(("iszero", a2, b2))
    ores = oracle.run(oq)
    k = 0
    for it in items:
        o = it[1]
        preds = {}
        for via in ("parts", "arg"):
            r = ores[k]
            k += 1
            if o == "div":
                if ores[k][0] == 1.0:
                    r = "ZDE"
                k += 1
            preds[via] = r
        it.append(preds)

    phases["c99-oracle"] = round(time.time() - t0, 1)
    # ---- run
    def mk_calls(variants_of):
        cl, meta = [], []
        for n, it in enumerate(items):
            part, o, a, b = it[:4]
            for via in variants_of(n, it):
                fn = fidx["%s_%s" % ("a" if via == "arg" else "p", o)]
                if o == "fromreal":
                    cl.append([fn, vi(a[0])])
                elif o in lc.UNARY:
                    cl.append([fn, vi(a[0]), vi(a[1])])
                else:
                    cl.append([fn, vi(a[0]), vi(a[1]), vi(b[0]), vi(b[1])])
                meta.append((n, via))
        return cl, meta

    st_arg_every = 8 if quick else 3
    cl_cc, meta_cc = mk_calls(lambda n, it: ("parts", "arg"))
    cl_st, meta_st = mk_calls(lambda n, it: ("parts", "arg") if (it[0] != "grid" or it[1] in lc.UNARY or n % st_arg_every == 0) else ("parts",))
    with concurrent.futures.ThreadPoolExecutor(max_workers=2) as ex:
        f1 = ex.submit(lc.run_cells, b_cc, FN, vals, cl_cc, "cells")
        f2 = ex.submit(lc.run_cells, b_st, FN, vals, cl_st, "cells")
        obs_cc, obs_st = f1.result(), f2.result()

    phases["compiled-calls"] = round(time.time() - t0, 1)
    # ---- judge
    stats = {"judged": 0}
    J = Judge(rep, stats)
    agree = {"cc": 0, "struct": 0}
    n_cc_differs_from_plain_c99 = 0
    first_ok = None
    for build, cl, meta, obs in (("cc", cl_cc, meta_cc, obs_cc), ("struct", cl_st, meta_st, obs_st)):
        for (n, via), got in zip(meta, obs):
            part, o, a, b, want, c, path, src, tz, preds = items[n]
            if got is None:
                core.die("no observation for call %r" % (cl[0],))
            if build == "struct":
                pred, pth, lossy = tz, path, False
                if isinstance(want, str):
                    modes = None
                elif o in EXACT_OPS:
                    modes = ("exact", "exact")
                elif part == "grid":
                    loose = "norm" if o in ("pow", "powc") else "class"
                    mv = c["mv"]
                    modes = tuple("exact" if (not isinstance(mv, str) and mv[i] is not None and c["dv"][i] is not None) else loose for i in (0, 1))
                else:
                    modes = ("norm", "norm") if o in ("pow", "powc") else ("class", "class")
            else:
                pred, pth = preds[via], "c99"
                lossy = (o == "fromreal" and not lc.same(conv((a[0], 0.0))[0], a[0])) or (
                    via == "arg" and o != "fromreal" and (not all(lc.same(x, y) for x, y in zip(conv(a), a)) or (
                        o in lc.BINARY and not all(lc.same(x, y) for x, y in zip(conv(b), b)))))
                if isinstance(want, str):
                    modes = None
                elif o in EXACT_OPS:
                    modes = ("exact", "exact")
                else:
                    modes = ("norm", "norm") if o in ("pow", "powc") else ("class", "class")
                if not isinstance(got, str) and got[0] == "c" and not isinstance(pred, str) and not (lc.same(got[1], pred[0]) and lc.same(got[2], pred[1])):
                    n_cc_differs_from_plain_c99 += 1
            ok = J.judge(part, build, via, o, a, b, want, modes, got, pred, pth, lossy, src)
            if ok:
                agree[build] += 1
                if first_ok is None and part == "grid" and o == "mul" and not isinstance(want, str) and want[0] == want[0] and want[0] not in (INF, -INF):
                    first_ok = (part, build, via, o, a, b, want, modes, got, pred, pth, lossy, src)

    phases["judge"] = round(time.time() - t0, 1)
    # ---- conversion of Python objects (FromPy: PyComplex_AsCComplex path)
    prelude = r'''
class CSub(complex): pass
class HasComplex:
    def __init__(self, v): self.v = v
    def __complex__(self): return self.v
class HasFloat:
    def __float__(self): return -2.5
class HasIndex:
    def __index__(self): return 7
class Raises:
    def __complex__(self): raise ValueError("no")
'''
    objs = ["complex(1.5, -2.5)", "CSub(-0.0, 3.0)", "CSub(2.0, float('inf'))", "HasComplex(complex(0.0, -0.0))", "HasComplex(complex(float('nan'), 1.0))",
            "2.5", "-0.0", "float('inf')", "float('nan')", "3", "True", "2**53 + 1", "-(2**70)", "10**400", "HasFloat()", "HasIndex()",
            "None", "object()", "b'1'", "Raises()", "HasComplex('x')", "HasComplex(1.0)", "[1]"]
    ns = {}
    exec(prelude, ns)
    ocl = [[f, [{"py": e}]] for e in objs for f in ("from_obj", "from_arg")]
    owant = []
    import warnings
    for e in objs:
        try:
            with warnings.catch_warnings():
                warnings.simplefilter("ignore")
                v = complex(eval(e, ns))
            owant.append((v.real, v.imag))
        except Exception as exn:
            owant.append("E:" + type(exn).__name__)
    n_obj = 0
    for build, bld in (("cc", b_cc), ("struct", b_st)):
        oobs = calls.run_calls(bld, ocl, prelude=prelude, timeout=300, tag="objs")
        for j, (c_, o_) in enumerate(zip(ocl, oobs)):
            w = owant[j // 2]
            n_obj += 1
            desc = {"part": "objects", "build": build, "via": "arg", "op": "conv", "path": "c99" if build == "cc" else "parts", "conv_lossy": False}
            detail = {"call": c_, "want": w if isinstance(w, str) else [lc.hx(x) for x in w], "got": o_}
            if isinstance(w, str):
                if o_ != w:
                    rep.disagree(desc, "exception" if isinstance(o_, str) else "wrong-value", detail)
                continue
            g = None
            if isinstance(o_, list) and o_ and o_[0] == "c":
                g = (lc.unhx(o_[1][1]), lc.unhx(o_[2][1]))
            pred = conv(w) if (build == "cc" and (lc.hx(w[0]), lc.hx(w[1])) in conv_of) else (oracle.run([("conv", w, (0.0, 0.0))])[0] if build == "cc" else w)
            if g is None or not (lc.same(g[0], w[0]) and lc.same(g[1], w[1])):
                desc["conv_lossy"] = not (lc.same(pred[0], w[0]) and lc.same(pred[1], w[1]))
                oc = "as-model" if (g is not None and lc.same(g[0], pred[0]) and lc.same(g[1], pred[1])) else ("exception" if isinstance(o_, str) else "wrong-value")
                rep.disagree(desc, oc, detail)

    phases["objects"] = round(time.time() - t0, 1)
    # ---- binding demonstration: corrupted expectations must be rejected
    if first_ok is None:
        core.die("no agreeing finite mul cell for the binding self-test")
    rep2 = core.Reporter.__new__(core.Reporter)
    rep2.prop, rep2.kf, rep2.kf_hits, rep2.violations, rep2.drift, rep2.notes = PROP, [], {}, [], [], []
    J2 = Judge(rep2, {"judged": 0})
    fo = list(first_ok)
    w = list(fo[6])
    fo[6] = [w[0] + 1.0 if w[0] != 0 else -w[0] if math.copysign(1, w[0]) > 0 else 1.0, w[1]]
    if J2.judge(*fo) or len(rep2.violations) != 1:
        core.die("binding self-test failed: corrupted expectation accepted")
    fo = list(first_ok)
    fo[6] = "ZDE"
    if J2.judge(*fo) or len(rep2.violations) != 2:
        core.die("binding self-test failed: corrupted exception expectation accepted")

    n_calls = len(cl_cc) + len(cl_st) + 2 * len(ocl)
    nontriv = len({(it[1], lc.hx(it[2][0]), lc.hx(it[2][1]), lc.hx(it[3][0]), lc.hx(it[3][1])) for it in items
                   if it[4] == "ZDE" or any(lc.cls(x) != "fin" for x in it[2] + it[3]) or it[0] == "random"})
    samp = [items[i] for i in rng.sample(range(len(items)), 4)]
    cov.update({
        "states": tl.generated, "distinct_states": tl.distinct, "transitions": tl.generated,
        "traces_validated_against_impl": n_calls, "evaluations": n_calls, "distinct_nontrivial": nontriv,
        "exhaustive": True,
        "grid_cells_published_by_tlc": len(cells), "grid_items_with_demand": n_grid, "random_items_python_oracle": len(items) - n_grid,
        "random_items_skipped_python_raises": n_skipped_python_raises, "object_conversions": n_obj,
        "calls_c99_variant": len(cl_cc), "calls_struct_variant": len(cl_st), "agreeing_calls": agree,
        "c99_variant_results_differing_from_plain_c99_program": n_cc_differs_from_plain_c99,
        "actions": {"Eval": len(tl.printed), "Done": len(tl.printed)},
        "rule": "grid: every (op, a, b) with all four components from the component grid (nan, +-inf, +-0, +-1, +-2, huge 2^1023, tiny 2^-1074; "
                "thorough adds +-1/2, +-3 and negative huge/tiny), ** with its own exponent grid, unary ops on a 32-value grid; each item is run "
                "on both builds, component-wise and as complex arguments.  random: seeded finite operands (moderate and extreme magnitudes), "
                "demand from CPython.  distinct non-trivial = distinct (op, a, b) having a special/extreme component, an expected exception, "
                "or random operands",
        "samples": [{"part": s[0], "op": s[1], "a": repr(complex(*s[2])), "b": repr(complex(*s[3])),
                     "want": s[4] if isinstance(s[4], str) else [None if x is None else lc.hx(x) for x in s[4]], "struct_path": s[6]} for s in samp],
    })
    if os.environ.get("VERIF_C08_DUMP"):
        # development aid: all disagreement classes (known ones included) with two examples each
        summ = {}
        for d, detail in rep.violations + [({"kf": k}, x) for k, v in rep.kf_hits.items() for x in v]:
            e = summ.setdefault(json.dumps(d, sort_keys=True), [0, []])
            e[0] += 1
            if len(e[1]) < 2:
                e[1].append(detail)
        with open(os.environ["VERIF_C08_DUMP"], "w") as f:
            json.dump(summ, f, indent=1, default=str)
    phases["evidence"] = round(time.time() - t0, 1)
    rc = rep.finish()
    cov["known_findings"] = rep.kf_summary()
    core.write_evidence(PROP, tier, seed, "model_checking", cov, time.time() - t0,
                        assumptions=["XReal decides a double operation only when the exact result is a dyadic m*2^e with m < 2^15 (or an overflow / subnormal rounding of one); "
                                     "the other components are compared with CPython under a 1e-9 tolerance on moderate operands, or not at all",
                                     "Python's OverflowError (abs, **) and ZeroDivisionError of 0**(negative|complex) are treated as 'no value demanded'",
                                     "C99 `* /`, cabs and cpow of the default variant are not modelled in TLA+; deviations there are classified by a plain C99 program built with the same gcc",
                                     "libm of CPython and of the extension module is the same shared library"],
                        violations=rep.n_violations())
    return rc
