"""C47 — source literal stripping is lossless and complete.

spec/Strip.tla: token shapes with declared partitions, Python's lexical structure as a
reference scanner (class of every character), and a transcription of
strip_string_literals.  TLC enumerates token sequences as states and checks the scanner
against the declared partitions, lexical completeness, and the transcribed algorithm against
the demands (on every text); every state is published.

Binding: the real strip_string_literals (snapshot of the working tree) runs on every
published text.  Judged: (i) substituting the labels back (single pass, and the sequential
str.replace of Inline.cython_inline) gives the text; (ii) no character the spec classes as
literal / comment body is kept; (iii) every top-level code character, prefix, quote and '#'
is kept.  Characters inside f-string replacement fields (other than nested literal and comment
bodies) and format-spec text carry no demand.  P: the tokenize module classifies every text
as well; S != P is spec drift.  User level: parse_dependencies on real files for every text
that mentions cimport/include/extern, compared with the same function running on the
spec-ideal stripping.
"""
import json
import os
import random
import time

import core
import lib_strip as L

PROP = "C47"

RULES = ["comment", "name", "code-char", "newline", "open1", "open3", "prefix", "fstring", "close1", "close3",
         "body-char", "escaped-quote", "backslash", "backslash-newline", "named-escape", "quote-in-triple",
         "other-quote", "hash-in-string", "doubled-brace", "field-open", "field-close", "field-char", "bracket",
         "spec-start", "spec-char", "spec-field", "neq"]
ACTIONS = ["plain", "fstr", "comment", "code", "EndLine"]   # Add<category> actions and EndLine
CONFIGS = {"quick": ["pairs", "triples"], "thorough": ["pairs", "triples_wide", "quads"]}


def collect(tier, cov):
    """Run TLC; return list of distinct cases (dicts) in a compact form."""
    cases = {}
    rules = set()
    acts = {}
    lens = {"sp": 1, "nl": 1, "glue": 0}      # characters per token / joiner name (from the one-token states)
    for cfg in CONFIGS[tier]:
        r = core.tlc_or_die("Strip", cfg="Strip_" + cfg, timeout=7200, heap="3g")
        cov["tlc"].append(dict(r.summary(), config=cfg))
        if len(r.printed) != r.distinct:
            core.die("Strip_%s: %d states but %d published cases" % (cfg, r.distinct, len(r.printed)))
        for c in r.printed:
            text = L.render(c["text"])
            rules.update(c["rules"])
            acts[c["act"]] = acts.get(c["act"], 0) + 1
            if text in cases:
                continue
            if len(c["ref"]) != len(text) or len(c["impl"]) != len(text):
                core.die("published record inconsistent: %r" % (c,))
            cases[text] = {"text": text, "names": c["names"], "ref": c["ref"], "impl": c["impl"]}
            if len(c["names"]) == 1:
                lens[c["names"][0]] = len(text)
        del r
    # vacuity guard on the model: every scanner rule fired, every action taken
    missing = [x for x in RULES if x not in rules]
    if missing:
        core.die("vacuous model: scanner rules never fired: %s" % missing)
    for a in ACTIONS:
        if not acts.get(a):
            core.die("vacuous model: action %s never produced a state" % a)
    cov["states_by_action"] = acts
    cov["scanner_rules_fired"] = sorted(rules)
    out = list(cases.values())
    for i, c in enumerate(out):
        c["id"] = i
        c["lens"] = [lens[x] for x in c["names"]]
        if sum(c["lens"]) != len(c["text"]):
            core.die("token lengths do not add up: %r" % (c,))
    return out


def run_real(cases, tag):
    wd = core.subdir("c47")
    inp, outp = os.path.join(wd, tag + ".in"), os.path.join(wd, tag + ".out")
    recs = []
    for c in cases:
        rec = {"id": c["id"], "text": c["text"]}
        if c.get("alt_prefix"):
            rec["prefix"] = c["alt_prefix"]
        if c.get("deps"):
            rec["ideal"] = list(L.ideal_strip(c["text"], c["ref"]))
        recs.append(rec)
    core.write_ndjson(inp, recs)
    ch = core.run_child(L.CHILD, [inp, outp, wd], with_snapshot=True, timeout=3000, mem_mb=8192)
    if ch.rc != 0 or not ch.json_lines() or ch.json_lines()[-1]["done"] != len(recs):
        return None, {"rc": ch.rc, "stderr": ch.err[-3000:], "timed_out": ch.timed_out}
    return {r["id"]: r for r in core.read_ndjson(outp)}, None


def where(c, idx):
    """Spec-side location of character idx: the name of the token shape (or separator) it belongs to."""
    pos = 0
    for k, (name, n) in enumerate(zip(c["names"], c.get("lens") or [])):
        pos += n
        if idx < pos:
            return name if k % 2 == 0 else "separator"
    return "n/a"


def examine(c, res, stats=None):
    """All disagreements of one case: list of (desc, obs_class, detail)."""
    text, ref = c["text"], c["ref"]
    base = {}
    det = {"text": text, "names": c["names"], "lens": c.get("lens"), "ref": ref}
    out = []
    if "exc" in res:
        return [(dict(base, part="strip", where="n/a"), "exception", dict(det, got=res["exc"]))]
    stripped, literals = res["stripped"], res["literals"]
    det["stripped"] = stripped
    a, b = L.substitute_back(stripped, literals)
    if a != text or b != text:
        out.append((dict(base, part="strip", where="n/a"), "not-lossless",
                    dict(det, regex_sub=a, sequential_replace=b, literals=literals)))
    kx, why = L.partition(text, stripped, literals)
    if kx is None:
        if not out:
            out.append((dict(base, part="strip", where="n/a"), "not-lossless", dict(det, why=why, literals=literals)))
        return out
    if "alt" in res or "alt_exc" in res:
        ok = False
        if "alt" in res:    # other label prefix: rebuild by plain replacement
            t2 = res["alt"][0]
            for k, v in res["alt"][1].items():
                t2 = t2.replace(k, v)
            ok = t2 == text and all(k.startswith(c["alt_prefix"]) for k in res["alt"][1]) and len(res["alt"][1]) == len(literals)
        if not ok:
            out.append((dict(base, part="strip-prefix", where="n/a"), "not-lossless", dict(det, alt=res.get("alt"), exc=res.get("alt_exc"))))
    first = None
    for oc, idx in L.judge(text, ref, kx):
        first = idx if first is None else min(first, idx)
        out.append((dict(base, part="strip", where=where(c, idx)), oc, dict(det, kept=kx, first_bad=idx)))
    if stats is not None:
        stats["impl_model_mismatch"] += kx != c["impl"]
        mb, rb = bool(L.judge(text, ref, c["impl"])), first is not None
        stats["predicted_not_observed"] += mb and not rb
        stats["observed_not_predicted"] += rb and not mb
        if kx != c["impl"] and len(stats["impl_model_mismatch_samples"]) < 5:
            stats["impl_model_mismatch_samples"].append({"text": text, "model": c["impl"], "real": kx})
        stats["spec_chars_kept"] += sum(1 for r, k in zip(ref, kx) if r == "S" and k == "K")
        stats["field_chars_stripped"] += sum(1 for r, k in zip(ref, kx) if r == "E" and k == "X")
    if "deps_real" in res:
        dr, di = res["deps_real"], res["deps_ideal"]
        w = "no-strip-divergence" if first is None else where(c, first)
        dd = dict(det, deps_real=dr, deps_ideal=di)
        if "exc" in di:
            out.append((dict(base, part="deps-harness", where=w), "ideal-failed", dd))
        elif "exc" in dr:
            out.append((dict(base, part="deps", where=w), "dep-exception", dd))
        else:
            extra = any(x not in di[k] for k in dr for x in dr[k])
            missed = any(x not in dr[k] for k in di for x in di[k])
            if extra:
                out.append((dict(base, part="deps", where=w), "dep-from-literal", dd))
            if missed:
                out.append((dict(base, part="deps", where=w), "dep-missed", dd))
        if stats is not None:
            stats["deps_files"] += 1
            stats["deps_nonempty"] += bool("exc" not in di and (di["cimports"] or di["includes"] or di["externs"]))
    return out


def run(tier, seed):
    t0 = time.time()
    rng = random.Random(seed)
    rep = core.Reporter(PROP)
    cov = {"tlc": []}
    cases = collect(tier, cov)
    if len(cases) < 20000:
        core.die("only %d cases published" % len(cases))

    # ---- S vs P: the tokenize module on every text
    for c in cases:
        pc, err = L.p_classes(c["text"])
        if pc is None:
            rep.spec_drift("tokenize rejects a text the spec calls lexically complete", {"text": c["text"], "names": c["names"], "error": err})
            continue
        k = L.s_vs_p(c["ref"], pc)
        if k >= 0:
            rep.spec_drift("Strip.Ref vs tokenize", {"text": c["text"], "names": c["names"], "spec": c["ref"], "tokenize": pc, "at": k})
    if rep.drift:
        return rep.finish()

    # ---- C: the real function on every text, parse_dependencies where a dependency word occurs
    for c in cases:
        c["deps"] = any(w in c["text"] for w in L.DEP_WORDS)
    for c in rng.sample(cases, 500):
        c["alt_prefix"] = "QZ_lbl"
    results, fail = run_real(cases, "all")
    stats = {"impl_model_mismatch": 0, "impl_model_mismatch_samples": [], "predicted_not_observed": 0, "observed_not_predicted": 0,
             "spec_chars_kept": 0, "field_chars_stripped": 0,
             "deps_files": 0, "deps_nonempty": 0}
    n_eval = 0
    by_class = {}
    disagreeing = set()
    if results is None:
        rep.disagree({"part": "harness-child", "where": "n/a"}, "crash", fail)
    else:
        for c in cases:
            n_eval += 1
            for desc, oc, det in examine(c, results[c["id"]], stats):
                disagreeing.add(c["id"])
                by_class[(desc["part"], desc["where"], oc)] = by_class.get((desc["part"], desc["where"], oc), 0) + 1
                rep.disagree(desc, oc, det)
        # binding demonstration: corrupted expectations must be rejected
        good = [c for c in cases if c["id"] not in disagreeing and "L" in c["ref"] and "C" in c["ref"]]
        bad = 0
        sel = rng.sample(good, min(40, len(good)))
        for c in sel:
            ref = c["ref"]
            i = ref.index("L") if rng.random() < 0.5 else ref.index("C")
            c2 = dict(c, ref=ref[:i] + ("C" if ref[i] == "L" else "L") + ref[i + 1:], deps=False)
            r2 = {k: v for k, v in results[c["id"]].items() if not k.startswith("deps")}
            bad += any(oc in ("leak", "code-lost") for _, oc, _ in examine(c2, r2))
        if bad != len(sel):
            core.die("binding self-test failed: %d corrupted expectations, %d rejected" % (len(sel), bad))
        cov["binding_selftest"] = {"corrupted": len(sel), "rejected": bad}

    nontrivial = sum(1 for c in cases if "L" in c["ref"] or "M" in c["ref"])
    smp = rng.sample(cases, 4)
    cov.update({
        "states": sum(t["states_generated"] for t in cov["tlc"]), "distinct_states": sum(t["distinct_states"] for t in cov["tlc"]),
        "transitions": sum(t["states_generated"] for t in cov["tlc"]),
        "traces_validated_against_impl": n_eval, "evaluations": n_eval + stats["deps_files"] * 2, "distinct_nontrivial": nontrivial,
        "exhaustive": True,
        "rule": "texts = all token sequences of spec/Strip.tla up to the configured bounds (%s), each with and without a final "
                "newline, separated by space / newline / nothing; distinct by text; non-trivial = contains at least one literal-body "
                "or comment-body character" % ", ".join(CONFIGS[tier]),
        "disagreements_by_part_token_class": {"/".join(k): v for k, v in sorted(by_class.items())},
        "real_vs_transcription_mismatches": stats["impl_model_mismatch"],
        "fidelity": {"transcription_bad_real_ok": stats["predicted_not_observed"],
                     "real_bad_transcription_ok": stats["observed_not_predicted"]},
        "real_vs_transcription_mismatch_samples": stats["impl_model_mismatch_samples"],
        "no_demand_chars": {"format_spec_chars_kept": stats["spec_chars_kept"], "field_chars_stripped": stats["field_chars_stripped"]},
        "parse_dependencies_files": stats["deps_files"], "parse_dependencies_files_with_expected_deps": stats["deps_nonempty"],
        "samples": [{"text": c["text"], "tokens": c["names"], "spec_partition": c["ref"],
                     "stripped": (results or {}).get(c["id"], {}).get("stripped")} for c in smp],
    })
    if stats["impl_model_mismatch"]:
        print("NOTE: real strip_string_literals differs from the transcription in Strip.tla on %d text(s) "
              "(informational; the verdict compares the real function with the reference partition)" % stats["impl_model_mismatch"])
    rc = rep.finish()
    cov["known_findings"] = rep.kf_summary()
    core.write_evidence(PROP, tier, seed, "model_checking", cov, time.time() - t0,
                        assumptions=["input texts do not contain the label prefix __Pyx_L themselves",
                                     "format-spec text and the expression part of replacement fields carry no demand (the documented behaviour keeps "
                                     "them, whatever the f-string prefix); tokenize classes format-spec text as literal",
                                     "prefix letters, quote characters and '#' are kept by documented behaviour and treated like code",
                                     "line endings are \\n only; non-ASCII text is not generated"],
                        violations=rep.n_violations())
    return rc


def replay(path, seed):
    with open(path) as f:
        rec = json.load(f)
    rep = core.Reporter(PROP)
    cases = []
    for i, d in enumerate(rec["cases"]):
        cases.append({"id": i, "text": d["text"], "names": d.get("names"), "ref": d["ref"], "impl": "", "lens": d.get("lens"),
                      "deps": any(w in d["text"] for w in L.DEP_WORDS)})
    results, fail = run_real(cases, "replay")
    if results is None:
        core.die("child failed: %r" % (fail,))
    for c in cases:
        for desc, oc, det in examine(c, results[c["id"]]):
            print("%s %s %r -> %r" % (oc, desc, c["text"], det.get("stripped")))
            rep.disagree(desc, oc, det)
    return rep.finish()
