"""C21 — unbound local variables fail exactly where CPython fails.

spec/DefAssign.tla: the definedness view of a Python function (which names are bound, and to the
value of which statement) over assign / del / read / closure read / walrus / conditional
expression / comprehension / if / while / for (+else, break, continue) / try-except(-as)-else-
finally / with / match (capture, guard) / return / raise / calls that may raise.
 gen phase : TLC enumerates programs (states = programs, growth by appending statements) and a
             seeded TLC simulation grows larger ones.
 build     : the selected programs are rendered as Python functions and compiled by Cython from the
             snapshot in lenient mode (Options.error_on_uninitialized=False) under infer_types
             default ("safe") and infer_types=False, with the B3 fact exporter `defassign`
             (cf_maybe_null / cf_is_null per name use, inferred C type per local), and Cython-only
             in default mode (which programs are rejected, and for which use).
 run phase : TLC executes every program (numbered, facts merged in) as a small-step machine with
             nondeterministic choices = explores EVERY path (<= MaxWord free choices); terminal
             states publish path word, expected event log, outcome and the fact verdicts
             (unbound-at-use => cf_maybe_null ; cf_is_null => unbound-at-use).
 replay    : every path on CPython (P) and on the compiled modules (C), in child processes.
S != P -> spec drift (exit 2);  C != S -> disagreement with a descriptor built from the spec event
at which the logs part (statement kind, why the name is unbound there, facts, inferred type).
"""
import collections
import concurrent.futures
import json
import os
import random
import re
import sys
import time

import core
import lib_defassign as ld

PROP = "C21"

GEN_ACTIONS = ["AddAssign", "AddDel", "AddRead", "AddClosureRead", "AddWalrus", "AddCondRead", "AddComp", "AddMaybeRaise",
               "AddRaise", "AddReturn", "AddBreak", "AddContinue", "AddIf", "AddWhile", "AddFor", "AddWith", "AddMatch",
               "AddTry", "AddDead"]
RUN_ACTIONS = ["Assign", "Delete", "Read", "ClosureRead", "Walrus", "CondRead", "MaybeRaise", "RaiseStmt", "Return", "Break",
               "Continue", "Branch", "EnterLoop", "EnterTry", "EnterWith", "EnterComp", "MatchSubject", "MatchGuard",
               "BlockEnd", "LoopTest", "ForNext", "CompNext", "TryBodyDone", "Handle", "TryAbrupt", "LeaveElse",
               "LeaveHandler", "FinallyDone", "FinallyOverride", "WithExit", "LoopBreak", "LoopContinue", "Unwind", "Finish"]

FAMILIES = {
    "DefAssign_gflow": "1 variable, <= 4 statements, <= 1 compound of {if, while, for}, leaves asg/del/read/mr/raise/ret/brk/cnt",
    "DefAssign_gtry": "1 variable, <= 4 statements, 1 try (handlers (), (V), (*), as-name, finally), leaves asg/del/read/mr",
    "DefAssign_gmisc": "2 variables, <= 3 statements, <= 1 compound of {match, with, if}, leaves asg/read/cread/wal/cex/comp/ret + dead assignments",
    "DefAssign_gtry5": "variable bound on entry, then <= 4 statements: 1 try (bare except, optional finally), leaves del/read/mr",
    "DefAssign_gloop5": "variable bound on entry, then <= 4 statements: 1 loop (while / for, else), leaves asg/del/read/brk/cnt",
}
SIMWHAT = "random growth: 3 variables, <= 10 statements, nesting <= 3, <= 4 compound statements, all kinds"

# gen: (cfg, number of programs selected; None = the whole family is replayed) ; sim: (cfg, seconds, depth, max records, selected)
TIERS = {
    "quick": {
        "gen": [("DefAssign_gflow", 40), ("DefAssign_gtry", 50), ("DefAssign_gmisc", 55), ("DefAssign_gtry5", 40), ("DefAssign_gloop5", 40)],
        "sim": ("DefAssign_gsim", 600, 14, 1500, 45),
        "run": "DefAssign_run", "per_module": 45,
    },
    "thorough": {
        "gen": [("DefAssign_gflow", 220), ("DefAssign_gtry", 220), ("DefAssign_gmisc", 220), ("DefAssign_gtry5", None), ("DefAssign_gloop5", 250)],
        "sim": ("DefAssign_gsim", 1200, 16, 6000, 160),
        "run": "DefAssign_runt", "per_module": 50,
    },
}

LENIENT = {"error_on_uninitialized": False}
CONFIGS = [("safe", {}), ("off", {"infer_types": False})]     # infer_types default (None = safe) / False


# --------------------------------------------------------------------------- selection

def stratified(progs, n, rng):
    """pick n programs, round-robin over feature signatures so that rare shapes are present"""
    groups = collections.defaultdict(list)
    for p in progs:
        groups[ld.shape_key(p)].append(p)
    keys = sorted(groups)
    rng.shuffle(keys)
    for k in keys:
        rng.shuffle(groups[k])
    out = []
    while len(out) < n and keys:
        nxt = []
        for k in keys:
            if groups[k] and len(out) < n:
                out.append(groups[k].pop())
            if groups[k]:
                nxt.append(k)
        keys = nxt
    return out


# --------------------------------------------------------------------------- static (spec-side) structure

def index_program(prog):
    """id -> statement ; id -> chain of (ancestor id, ancestor kind, selector) from the outside in"""
    stmts, chain = {}, {}

    def blk(b, anc):
        for s in b:
            stmts[s["id"]] = s
            chain[s["id"]] = anc
            if s["t"] in ld.COMPOUND:
                blk(s["a"], anc + [(s["id"], s["t"], "a")])
                for j, h in enumerate(s["hs"], 1):
                    blk(h["a"], anc + [(s["id"], s["t"], "h%d" % j)])
                blk(s["b"], anc + [(s["id"], s["t"], "b")])
                blk(s["f"], anc + [(s["id"], s["t"], "f")])
    blk(prog, [])
    return stmts, chain


def relation(chain, unbinder, use):
    """where the use lies relative to the try statements that enclose the unbinding statement: in the handler of a try
    whose BODY contains the unbinder, or in the finally block of a try that contains it (body, handler or else)"""
    for tid, kind, sel in reversed(chain.get(unbinder, [])):
        if kind != "try" or sel == "f":
            continue
        for a in chain.get(use, []):
            if a[0] == tid:
                if a[2] == "f":
                    return "finally"
                if a[2].startswith("h") and sel == "a":
                    return "handler"
                if a[2] == sel:
                    return "same_block"
                return "else" if a[2] == "b" else "other_clause"
    return "after" if any(k == "try" for _, k, _ in chain.get(unbinder, [])) else "no_try"


# --------------------------------------------------------------------------- comparison

def real(log):
    return [[e[0], e[1]] for e in log if e[1] >= 0]


def classify(rec, cobs, info, cfg):
    """rec: spec record of the path; cobs = [log, out] observed on compiled code; info: per-program data.
    Returns (descriptor, obs_class) for the first divergence."""
    slog, sout = rec["log"], rec["xout"]
    clog, cout = cobs
    sreal = real(slog)
    k = 0
    while k < len(sreal) and k < len(clog) and sreal[k] == list(clog[k]):
        k += 1
    # segment of the full spec log after the k-th real entry, up to and including the next real one
    seg, seen = [], 0
    for e in slog:
        if seen >= k:
            seg.append(e)
            if e[1] >= 0:
                if seen == k:
                    break
        if e[1] >= 0:
            seen += 1
    fails = [e for e in seg if e[1] < 0]
    full_real = [e for e in slog if e[1] >= 0]
    nxt = full_real[k] if k < len(full_real) else None
    crashed = isinstance(cout, str) and (cout.startswith("CRASH") or cout == "TIMEOUT")
    resp = None
    if crashed and k == len(clog):       # died before producing anything the spec does not expect
        obs = "crash"
        resp = fails[0] if fails else nxt
        # the compiler's "cannot be unbound here" claims that the spec refutes on this path, in the gap where the child died
        bad = [v for v in rec["fv"] if v[1] == "mn" and v[3] == k]
        hit = [e for e in fails if bad and e[0] == bad[0][0]]
        if hit:
            resp = hit[0]            # a use: described below like every failed use
        elif bad:
            sid = bad[0][0]
            st = info["stmts"].get(sid) or info["stmts"][sid // 100]
            var = st["v"] if sid in info["stmts"] else st["hs"][sid % 100 - 1]["v"]
            d = {"config": cfg, "spec_out": sout, "ev": st["t"] if sid in info["stmts"] else "except-as",
                 "spec": "unbound_at_assignment", "read_maybe_unbound": False, "is_null_fact": False}
            d.update(var_features(info, var, cfg))
            return d, obs
    elif k < len(clog):
        ce = clog[k]
        same = [e for e in fails if e[0] == ce[0]]
        if same:
            obs, resp = "value_instead_of_unbound", same[0]
        elif nxt is not None and nxt[0] == ce[0]:
            obs, resp = "wrong_value", nxt
        else:
            obs, resp = "diverged", (fails[0] if fails else nxt)
    elif k < len(sreal):
        obs, resp = ("spurious_" + str(cout)), nxt
    else:
        obs, resp = "outcome", (fails[-1] if fails else None)
    stmts, chain = info["stmts"], info["chain"]
    d = {"config": cfg, "spec_out": sout}
    if resp is None:
        d.update({"ev": "end", "spec": "end"})
        return d, obs
    sid = resp[0]
    if sid not in stmts:            # handler entry mark
        d.update({"ev": "handler", "spec": "mark"})
        return d, obs
    s = stmts[sid]
    var = s["r"] if s["t"] == "comp" else s["v"]
    d.update({"ev": s["t"], "spec": "unbound" if resp[1] < 0 else "value",
              "read_maybe_unbound": resp[3] >= 1, "is_null_fact": resp[3] == 2})
    d.update(var_features(info, var, cfg))
    if resp[1] < 0:
        why = {-1: "never_bound", -2: "del", -3: "except_as_cleanup"}[resp[1]]
        d["why_unbound"] = why
        if why != "never_bound":
            d["use_vs_try_of_unbinder"] = relation(chain, resp[2], sid) if why == "del" else "after_handler"
    return d, obs


def touched_in_pattern_case(prog, var):
    """the name is captured by, or bound / deleted inside the body of, a pattern case that is followed by a wildcard case"""
    for x in ld.walk(prog):
        if x["t"] == "match" and x["d"]:
            if x["v"] == var:
                return True
            for y in ld.walk(x["a"]):
                if (y["v"] == var and y["t"] in ("asg", "wal", "for", "with", "match", "del")) or any(h["v"] == var for h in y["hs"]):
                    return True
    return False


def var_features(info, var, cfg):
    ty = (info["types"].get(cfg) or {}).get(ld.VNAMES[var]) or {}
    return {"inferred_ctype": ty.get("ctype", "?").strip(), "c_numeric": bool(ty.get("numeric", False)),
            "closure_var": var in info["cells"],
            "match_with_default": touched_in_pattern_case(info["prog"], var),
            "binders": "+".join(sorted(ld.binders(info["prog"], var))) or "none"}


# --------------------------------------------------------------------------- the check

def tlc_gen(cfg, workers):
    r = core.tlc("DefAssign", cfg, workers=workers, coverage=True, timeout=2400, heap="4g")
    if not r.ok:
        sys.stderr.write(r.out[-4000:])
        core.die("TLC (gen %s) failed: %s" % (cfg, r.violation or r.rc))
    return r


def err_lines(errors, modname):
    out = []
    for line in errors.splitlines():
        if line.startswith("warning:") or line.startswith("note:"):
            continue
        m = re.match(r"\S*%s\.py:(\d+):(\d+): (.*)" % re.escape(modname), line)
        if m:
            out.append((int(m.group(1)), int(m.group(2)), m.group(3).strip()))
    return sorted(set(out))


def run(tier, seed, only=None):
    t0 = time.time()
    rng = random.Random(seed)
    rep = core.Reporter(PROP) if only is None else ReplayReporter()
    T = TIERS[tier]
    workers = int(os.environ.get("VERIF_TLC_WORKERS", "0")) or 8
    jobs = int(os.environ.get("VERIF_JOBS", "0")) or 8
    cov = {"tlc": []}
    timing = {}

    # ---- 1. gen phase: programs are TLC states
    selected, gen_cov, n_enum = [], collections.Counter(), 0
    states = transitions = 0
    if only is None:
        with concurrent.futures.ThreadPoolExecutor(max_workers=5) as ex:
            futs = [(cfg, n, FAMILIES[cfg], ex.submit(tlc_gen, cfg, max(2, workers // 2))) for cfg, n in T["gen"]]
            simcfg, simsec, simdepth, simmax, simn = T["sim"]
            simwhat = SIMWHAT
            # one worker + a record cap that is reached well before the time budget: the same seed gives the same programs
            sim = core.tlc_simulate("DefAssign", simcfg, seconds=simsec, depth=simdepth, workers=1, seed=seed + 1, max_records=simmax)
            gens = [(cfg, n, what, f.result()) for cfg, n, what, f in futs]
        if not sim.ok:
            sys.stderr.write(sim.out[-3000:])
            core.die("TLC simulation (gen) reported %s" % sim.violation)
        seen = set()
        for cfg, n, what, r in gens:
            progs = [p["prog"] for p in r.printed]
            n_enum += len(progs)
            states += r.distinct
            transitions += r.generated
            for a, (d, tot) in r.coverage.items():
                if a in GEN_ACTIONS:
                    gen_cov[a] += tot
            pick = stratified(progs, n, rng) if n is not None else list(progs)
            cov["tlc"].append(dict(r.summary(), config=cfg, what=what, programs_published=len(progs), programs_selected=len(pick), exhaustive=True,
                                   whole_family_replayed=n is None))
            for p in pick:
                c = ld.canon(p)
                if c not in seen:
                    seen.add(c)
                    selected.append((cfg, p))
        simprogs = []
        for p in sim.printed:
            c = ld.canon(p["prog"])
            if c not in seen and p["n"] >= 5:
                seen.add(c)
                simprogs.append(p["prog"])
        pick = stratified(simprogs, simn, rng)
        cov["tlc"].append({"config": simcfg, "what": simwhat, "mode": "simulate", "programs_published": len(sim.printed),
                           "programs_selected": len(pick), "wall_s": round(sim.wall, 1), "cmd": sim.cmd})
        selected += [(simcfg, p) for p in pick]
        if len(selected) < 50:
            core.die("too few programs: %d" % len(selected))
    else:
        selected = [("replay", p) for p in only]

    timing["gen"] = time.time() - t0
    sys.stderr.write("c21: gen done %.0fs, %d programs\n" % (timing["gen"], len(selected)))
    # ---- 2. render + build
    progs = {}          # pid -> info
    for pid, (fam, p) in enumerate(selected, 1):
        np_ = ld.number(p)
        vk = {v: rng.choice("iifso") for v in (1, 2, 3)}
        stmts, chain = index_program(np_)
        progs[pid] = {"pid": pid, "family": fam, "prog": np_, "vk": vk, "stmts": stmts, "chain": chain,
                      "cells": ld.cell_vars(np_), "types": {}, "fname": "f%d" % pid}
    wd = core.subdir("c21")
    per = T["per_module"]
    pids = sorted(progs)
    # programs with statements after a return/break/continue/raise go into small modules that are first compiled
    # Cython-only: rejected programs (compile errors in lenient mode) have to be taken out before the real build
    risky = [p for p in pids if has_dead_code(progs[p]["prog"])]
    plain = [p for p in pids if p not in set(risky)]
    modules = [plain[i:i + per] for i in range(0, len(plain), per)]
    n_plain_modules = len(modules)
    modules += [risky[i:i + 12] for i in range(0, len(risky), 12)]
    rt_files = {ld.RT_NAME + ".py": ld.RT_SOURCE}

    def make_module(mi, members):
        funcs = [(progs[p]["fname"], ld.render(progs[p]["prog"], progs[p]["fname"], progs[p]["vk"])) for p in members]
        text, first = ld.module_source(funcs)
        return text, first, dict(funcs)

    mods = {}
    for mi, members in enumerate(modules):
        text, first, rend = make_module(mi, members)
        mods[mi] = {"members": list(members), "text": text, "first": first, "rend": rend, "precheck": mi >= n_plain_modules}

    def func_of_line(mod, line):
        best = None
        for fname, l0 in mod["first"].items():
            if l0 <= line and (best is None or l0 > best[1]):
                best = (fname, l0)
        return best[0] if best else None

    def build_round(members_by_mod, tag):
        specs = []
        for mi, mod in members_by_mod.items():
            if mod.get("precheck"):      # cheap Cython-only pass for modules that are likely to contain rejected programs
                specs.append(core.BuildSpec("c21%s_m%d_pre" % (tag, mi), mod["text"], kind="py",
                                            options={"global_options": LENIENT, "extra_files": rt_files}, cython_only=True))
                continue
            for cname, directives in CONFIGS:
                specs.append(core.BuildSpec("c21%s_m%d_%s" % (tag, mi, cname), mod["text"], kind="py", directives=directives,
                                            options={"global_options": LENIENT, "extra_files": rt_files}, facts="defassign"))
            specs.append(core.BuildSpec("c21%s_m%d_dflt" % (tag, mi), mod["text"], kind="py",
                                        options={"extra_files": rt_files}, facts="defassign", cython_only=True))
        res = core.build_many(specs, workdir=wd, jobs=jobs)
        return {b.name: b for b in res}

    builds = {}
    rejected = {}        # pid -> {(config, msg, line offset)}: lenient-mode compile errors, attributed to functions
    todo, n_rebuilt, rnd = dict(mods), 0, 0
    while todo:
        tag = "r%d" % rnd
        bs = build_round(todo, tag)
        nxt = {}
        for mi, mod in todo.items():
            bad = set()
            if mod.get("precheck"):
                check = [("safe", bs["c21%s_m%d_pre" % (tag, mi)])]
            else:
                for suffix in [c for c, _ in CONFIGS] + ["dflt"]:
                    builds["c21a_m%d_%s" % (mi, suffix)] = bs["c21%s_m%d_%s" % (tag, mi, suffix)]
                check = [(cname, builds["c21a_m%d_%s" % (mi, cname)]) for cname, _ in CONFIGS]
            for cname, b in check:
                if b.ok:
                    continue
                if b.stage != "cython":
                    core.die("build of %s failed at stage %s: %s" % (b.name, b.stage, (b.errors or "")[-3000:]))
                errs = err_lines(b.errors or "", b.name)
                if not errs:
                    core.die("build of %s failed without positions: %s" % (b.name, (b.errors or "")[-3000:]))
                for line, col, msg in errs:
                    fn = func_of_line(mod, line)
                    rejected.setdefault(int(fn[1:]), set()).add((cname, msg, line - mod["first"][fn]))
                    bad.add(int(fn[1:]))
            if bad:
                keep = [p for p in mod["members"] if p not in bad]
                text, first, rend = make_module(mi, keep)
                mods[mi] = nxt[mi] = {"members": keep, "text": text, "first": first, "rend": rend, "precheck": mod.get("precheck")}
                n_rebuilt += 1
            elif mod.get("precheck"):
                mod["precheck"] = False
                nxt[mi] = mod
        todo = {mi: mod for mi, mod in nxt.items() if mod["members"]}
        for mi in [mi for mi, mod in nxt.items() if not mod["members"]]:
            del mods[mi]
        rnd += 1
        if rnd > 12:
            core.die("lenient-mode compile errors do not converge: %s" % sorted(rejected.items())[-5:])
    timing["build"] = time.time() - t0
    sys.stderr.write("c21: build done %.0fs\n" % timing["build"])
    for pid, errs in sorted(rejected.items()):
        info = progs[pid]
        for cname, msg, off in sorted(errs):
            m = re.search(r"(undeclared name not builtin|referenced before assignment)", msg)
            vname = msg.rsplit(":", 1)[-1].strip() if "undeclared" in msg else (re.search(r"'(\w+)'", msg) or [None, "?"])[1]
            var = {v: k for k, v in ld.VNAMES.items()}.get(vname, 0)
            info.setdefault("lenient_errors", []).append({"config": cname, "msg": msg, "line_offset": off, "var": var,
                                                          "msg_class": m.group(1) if m else "other"})

    # ---- 3. facts -> programs ; default-mode rejections
    fact_stats = collections.Counter()
    dflt_rejected = {}
    for mi, mod in mods.items():
        bs = {c: builds["c21a_m%d_%s" % (mi, c)] for c, _ in CONFIGS}
        base = bs["safe"]
        gen_by_pos = collections.defaultdict(list)
        for f in (base.facts or {}).get("gen", []):
            gen_by_pos[(f["line"], f["name"])].append(f)
        if (base.facts or {}).get("errors"):
            core.die("fact exporter errors: %s" % base.facts["errors"][:3])
        for pid in mod["members"]:
            info = progs[pid]
            fname = info["fname"]
            l0 = mod["first"][fname]
            r = mod["rend"][fname]
            def merge(fs, what):
                fx = {}
                for f in fs:          # one NameNode per copy of the enclosing finally blocks
                    code = 2 if f["isn"] else (1 if f["mn"] else 0)
                    if f["ctx"] in fx and fx[f["ctx"]] != code:
                        fact_stats[what + "_with_conflicting_facts_in_one_context"] += 1
                        code = min(code, fx[f["ctx"]])
                    fx[f["ctx"]] = code
                if len(fx) > 1:
                    fact_stats[what + "_compiled_in_several_finally_copies"] += 1
                return fx

            for sid, (off, vname) in r.use_line.items():
                fs = gen_by_pos.get((l0 + off, vname))
                if not fs:
                    fact_stats["uses_without_fact(unreachable for the compiler)"] += 1
                    continue
                fact_stats["uses_with_fact"] += 1
                info["stmts"][sid]["fx"] = merge(fs, "uses")
            for sid, (off, vname) in r.bind_line.items():
                fs = [f for f in gen_by_pos.get((l0 + off, vname), []) if f.get("target")]
                if not fs:
                    fact_stats["binders_without_fact(unreachable for the compiler)"] += 1
                    continue
                fact_stats["binders_with_fact"] += 1
                if sid in info["stmts"]:
                    info["stmts"][sid]["fx"] = merge(fs, "binders")
                else:                                   # `as` name of handler j of try statement sid // 100
                    info["stmts"][sid // 100]["hs"][sid % 100 - 1]["fx"] = merge(fs, "binders")
            for cname, b in bs.items():
                for key, tys in ((b.facts or {}).get("types") or {}).items():
                    if key.split("@")[0] == fname:
                        info["types"][cname] = tys
        d = builds["c21a_m%d_dflt" % mi]
        if d.ok:
            continue
        if d.stage != "cython":
            core.die("default-mode compile of module %d failed at %s: %s" % (mi, d.stage, (d.errors or "")[-2000:]))
        for line, col, msg in err_lines(d.errors or "", d.name):
            fn = func_of_line(mod, line)
            dflt_rejected.setdefault(int(fn[1:]), []).append((line - mod["first"][fn], msg))

    # ---- 4. run phase: TLC explores every path of every program
    live = [pid for mi, mod in mods.items() for pid in mod["members"]]
    progfile = os.path.join(wd, "progs.ndjson")

    def strip(blk):
        return [dict({k: s[k] for k in ("t", "id", "v", "r", "c", "g", "d")}, fx=s.get("fx") or {"c": 1},
                     a=strip(s["a"]), b=strip(s["b"]), f=strip(s["f"]),
                     hs=[{"c": h["c"], "v": h["v"], "a": strip(h["a"]), "fx": h.get("fx") or {"c": 1}} for h in s["hs"]]) for s in blk]
    allp = sorted(progs)            # rejected programs are explored too (expected behaviour of CPython, drift check)
    core.write_ndjson(progfile, [{"pid": pid, "prog": strip(progs[pid]["prog"])} for pid in allp])
    r = core.tlc("DefAssign", T["run"], workers=workers, env={"PROGS": progfile}, coverage=True, timeout=3000, heap="6g")
    if not r.ok:
        sys.stderr.write(r.out[-5000:])
        core.die("TLC (run phase) failed: %s" % (r.violation or r.rc))
    timing["run_tlc"] = time.time() - t0
    sys.stderr.write("c21: run-phase TLC done %.0fs, %d states\n" % (timing["run_tlc"], r.distinct))
    states += r.distinct
    transitions += r.generated
    run_cov = {a: r.coverage.get(a, (0, 0))[1] for a in RUN_ACTIONS}
    cov["tlc"].append(dict(r.summary(), config=T["run"], what="small-step execution of %d programs, every path" % len(allp), exhaustive=True))
    paths = collections.defaultdict(list)
    for rec in r.printed:
        rec["xout"] = {"end": "end", "ret": "ret"}.get(rec["out"]) or ("E:" + ld.EXC_NAMES[rec["out"]])
        paths[rec["pid"]].append(rec)
    for pid in allp:
        if not paths.get(pid):
            core.die("no path published for program %d" % pid)
        paths[pid].sort(key=lambda x: x["word"])
    if only is None:
        for a in GEN_ACTIONS:
            if gen_cov[a] == 0:
                core.die("vacuous model: gen action %s never taken" % a)
        for a in RUN_ACTIONS:
            if run_cov[a] == 0:
                core.die("vacuous model: run action %s never taken" % a)

    # ---- 5. replay: P (CPython) and C (compiled, both configurations)
    n_paths = sum(len(v) for v in paths.values())
    pdir = os.path.join(wd, "py")
    os.makedirs(pdir, exist_ok=True)
    with open(os.path.join(pdir, ld.RT_NAME + ".py"), "w") as f:
        f.write(ld.RT_SOURCE)
    funcs = [(progs[p]["fname"], ld.render(progs[p]["prog"], progs[p]["fname"], progs[p]["vk"])) for p in allp]
    text, _ = ld.module_source(funcs)
    with open(os.path.join(pdir, "c21all_src.py"), "w") as f:
        f.write(text)
    pcalls = [[progs[pid]["fname"], rec["word"]] for pid in allp for rec in paths[pid]]
    pkeys = [(pid, i) for pid in allp for i, rec in enumerate(paths[pid])]
    pobs = ld.run_paths(pdir, "c21all", "py", pcalls, "p")
    n_drift = 0
    for (pid, i), o in zip(pkeys, pobs):
        rec = paths[pid][i]
        if o is None or [[list(e) for e in o[0]], o[1]] != [real(rec["log"]), rec["xout"]]:
            n_drift += 1
            rep.spec_drift("S != P", {"program": progs[pid]["prog"], "word": rec["word"], "spec": [rec["log"], rec["xout"]],
                                      "cpython": o, "source": "\n".join(dict(funcs)[progs[pid]["fname"]].lines)})

    def replay_module(mi, cname):
        mod = mods[mi]
        b = builds["c21a_m%d_%s" % (mi, cname)]
        calls = [[progs[pid]["fname"], rec["word"]] for pid in mod["members"] for rec in paths[pid]]
        keys = [(pid, i) for pid in mod["members"] for i, rec in enumerate(paths[pid])]
        moddir = os.path.dirname(b.so)
        with open(os.path.join(moddir, ld.RT_NAME + ".py"), "w") as f:
            f.write(ld.RT_SOURCE)
        os.rename(os.path.join(moddir, b.name + ".py"), os.path.join(moddir, b.name + "_src.py"))   # never import the .py
        return cname, keys, ld.run_paths(moddir, b.name, "so", calls, "c")

    n_c = 0
    cls_count = collections.Counter()
    fv_events = collections.Counter()
    with concurrent.futures.ThreadPoolExecutor(max_workers=jobs) as ex:
        results = list(ex.map(lambda a: replay_module(*a), [(mi, c) for mi in mods for c, _ in CONFIGS]))
    for cname, keys, obs in results:
        for (pid, i), o in zip(keys, obs):
            rec = paths[pid][i]
            n_c += 1
            if o is None:
                core.die("no observation for program %d path %s" % (pid, rec["word"]))
            got = [[list(e) for e in o[0]], o[1]]
            crashed = o[1].startswith("CRASH") or o[1] == "TIMEOUT"
            if not crashed and got == [real(rec["log"]), rec["xout"]]:
                continue
            info = progs[pid]
            d, obs_class = classify(rec, got, info, cname)
            cls_count[obs_class] += 1
            rep.disagree(d, obs_class, {"source": "\n".join(ld.render(info["prog"], info["fname"], info["vk"]).lines), "word": rec["word"], "config": cname,
                                        "vkinds": info["vk"], "spec [log, outcome]": [rec["log"], rec["xout"]],
                                        "compiled [log, outcome]": got, "fact_verdicts": rec["fv"], "program": strip(info["prog"]),
                                        "family": info["family"]})
    # fact verdicts decided by TLC (per use: unsound maybe_null / unsound is_null), reported in the evidence
    for pid in allp:
        for rec in paths[pid]:
            for sid, kind, ctx, nre in rec["fv"]:
                fv_events[(pid, sid, kind, ctx)] += 1
    # lenient-mode rejections: the property says definitely-unbound names become run-time errors there
    for pid, info in progs.items():
        for e in info.get("lenient_errors", []):
            d = {"config": e["config"], "ev": "compile", "spec": "accepted_by_cpython", "msg_class": e["msg_class"],
                 "binders": "+".join(sorted(ld.binders(info["prog"], e["var"]))) if e["var"] else "none",
                 "local_only_by_unreachable_statements": bool(e["var"]) and declarers_never_executed(info, e["var"], paths[pid])}
            cls_count["compile_error_lenient"] += 1
            rep.disagree(d, "compile_error_lenient", {"source": "\n".join(ld.render(info["prog"], info["fname"], info["vk"]).lines),
                                                       "error": e["msg"], "line_offset": e["line_offset"], "program": strip(info["prog"])})
    # default mode: a rejection must be for a use that is unbound on every path that reaches it (cf_is_null, verdict by TLC)
    n_dflt_ok = 0
    for pid, errs in dflt_rejected.items():
        info = progs[pid]
        if pid in rejected:
            continue
        r_ = ld.render(info["prog"], info["fname"], info["vk"])
        by_off = {off: sid for sid, (off, vn) in r_.use_line.items()}
        for off, msg in errs:
            sid = by_off.get(off)
            # spec side: the use is unbound on every explored path that reaches it
            bound_somewhere = any(e[0] == sid and e[1] >= 0 for rec in paths[pid] for e in rec["log"]) if sid is not None else True
            if "referenced before assignment" in msg and sid is not None and not bound_somewhere:
                n_dflt_ok += 1
            else:
                cls_count["default_mode_rejects_bindable_use"] += 1
                d = {"config": "default", "ev": info["stmts"][sid]["t"] if sid else "other", "spec": "bound_on_some_path",
                     "msg_class": "referenced before assignment" if "referenced before" in msg else "other"}
                if sid:
                    st = info["stmts"][sid]
                    d.update(var_features(info, st["r"] if st["t"] == "comp" else st["v"], "safe"))
                rep.disagree(d, "default_mode_rejects", {"source": "\n".join(r_.lines), "error": msg, "line_offset": off,
                                                      "program": strip(info["prog"])})
    timing["replay"] = time.time() - t0
    # ---- 6. binding demonstration: corrupted expectations must be rejected by the comparison
    demo = {"corrupted": 0, "rejected": 0}
    for (pid, i), o in list(zip(pkeys, pobs))[:400]:
        rec = paths[pid][i]
        if o is None or not rec["log"]:
            continue
        bad = json.loads(json.dumps(rec))
        e = bad["log"][-1]
        if e[1] < 0:
            bad["log"][-1] = [e[0], 4242, 0]            # "the read succeeded" instead of UnboundLocalError
        else:
            bad["log"][-1] = [e[0], e[1] + 1, 0]          # a different (stale) value
        demo["corrupted"] += 1
        if [[list(x) for x in o[0]], o[1]] != [real(bad["log"]), bad["xout"]]:
            demo["rejected"] += 1
    if demo["corrupted"] == 0 or demo["corrupted"] != demo["rejected"]:
        core.die("binding self-test failed: %s" % demo)

    # ---- 7. evidence
    nontrivial = sum(1 for pid in allp for rec in paths[pid] if any(e[1] < 0 for e in rec["log"]))
    kinds_seen = collections.Counter()
    for pid in allp:
        for k in ld.kinds_of(progs[pid]["prog"]):
            kinds_seen[k] += 1
    ctyped = sum(1 for info in progs.values() for v, t in (info["types"].get("safe") or {}).items()
                 if v in ("a", "b", "c") and t.get("numeric"))
    samples = []
    for pid in core.sample(allp, 3, rng):
        rec = rng.choice(paths[pid])
        samples.append({"source": "\n".join(ld.render(progs[pid]["prog"], progs[pid]["fname"], progs[pid]["vk"]).lines),
                        "word": rec["word"], "expected_log [stmt id, value | -why, unbinder]": rec["log"], "expected_outcome": rec["xout"]})
    cov.update({
        "states": states, "transitions": transitions, "distinct_states": states,
        "traces_validated_against_impl": n_paths,
        "evaluations": n_c + len(pcalls), "distinct_nontrivial": nontrivial,
        "rule": "case = (program, path word); programs = TLC states of the gen phase (stratified seeded selection from the exhaustive "
                "families, plus TLC -simulate growth), paths = ALL terminal behaviours of the run-phase machine for each selected program "
                "(<= MaxWord free choices); every case replayed on CPython and on 2 compiled configurations; non-trivial = the path "
                "contains at least one use (read/del/closure read) of a name that is unbound at that moment",
        "programs_enumerated": n_enum, "programs_selected": len(allp), "programs_compiled": len(live), "paths": n_paths,
        "spec_vs_cpython_drift": n_drift, "modules_rebuilt_after_lenient_errors": n_rebuilt,
        "gen_action_coverage": dict(gen_cov), "run_action_coverage": run_cov,
        "statement_kinds_in_selected_programs": dict(kinds_seen),
        "locals_inferred_as_C_numeric(safe)": ctyped,
        "facts": dict(fact_stats, unsound_maybe_null_uses=sum(1 for k in fv_events if k[2] == "mn"),
                      unsound_is_null_uses=sum(1 for k in fv_events if k[2] == "isn")),
        "default_mode": {"programs_rejected": len(dflt_rejected), "rejections_for_definitely_unbound_use": n_dflt_ok},
        "disagreement_classes": dict(cls_count),
        "binding_selftest": demo, "phase_end_times_s": {k: round(v, 1) for k, v in timing.items()},
        "samples": samples,
    })
    rc = rep.finish()
    if only is not None:
        return rc
    cov["known_findings"] = rep.kf_summary()
    core.write_evidence(PROP, tier, seed, "model_checking", cov, time.time() - t0,
                        assumptions=["default mode and lenient mode generate the same C code for accepted programs (Options.error_on_uninitialized "
                                     "only turns a warning into an error), so run-time behaviour is replayed on the lenient builds; default mode is "
                                     "compiled Cython-only to obtain the rejected uses",
                                     "exception TYPE is compared, not the message; UnboundLocalError vs NameError is distinguished",
                                     "del of a variable referenced in a nested function is rejected by Cython by design and not generated",
                                     "literal kind of assigned values (int / float / str / object) is drawn per variable from the seed",
                                     "a guard that fails after a successful capture pattern leaves the capture bound (CPython behaviour; PEP 634 "
                                     "leaves bindings of failed matches unspecified)"],
                        violations=rep.n_violations())
    return rc


class ReplayReporter(object):
    """--replay: same interface as core.Reporter, prints instead of writing replay files (and leaves them alone)"""

    def __init__(self):
        self.kf = core.load_known_findings(PROP)
        self.n = 0
        self.drift = []

    def disagree(self, desc, obs_class, detail):
        d = dict(desc, obs_class=obs_class)
        known = [k["id"] for k in self.kf if core._match(k["match"], d)]
        print("DISAGREEMENT%s %s" % (" (known: %s)" % known[0] if known else "", json.dumps(d, sort_keys=True)))
        print("   word=%s spec=%s compiled=%s" % (detail.get("word"), json.dumps(detail.get("spec [log, outcome]")),
                                                   json.dumps(detail.get("compiled [log, outcome]") or detail.get("error"))))
        if not known:
            self.n += 1

    def spec_drift(self, what, detail=None):
        self.drift.append((what, detail))

    def finish(self):
        if self.drift:
            core.die("spec drift in replay: %s" % json.dumps(self.drift[0], default=str)[:1500])
        return 1 if self.n else 0

    def n_violations(self):
        return self.n

    def kf_summary(self):
        return {}


def has_dead_code(prog):
    def blk(b):
        for i, s in enumerate(b):
            if s["t"] in ("ret", "brk", "cnt", "raise") and i + 1 < len(b):
                return True
            if s["t"] in ld.COMPOUND and (blk(s["a"]) or blk(s["b"]) or blk(s["f"]) or any(blk(h["a"]) for h in s["hs"])):
                return True
            if s["t"] == "try" and s["a"] and s["a"][-1]["t"] in ("ret", "brk", "cnt", "raise") and s["b"]:
                return True
        return False
    return blk(prog)


def declarers_never_executed(info, var, recs):
    """spec side (decided by the run phase): the name is local only because of statements (binders, del) that are
    executed on no explored path, e.g. they follow a return or stand in the else clause of a try whose body returns."""
    prog = info["prog"]
    ids = {s["id"] for s in ld.walk(prog) if s["v"] == var and s["t"] in ("asg", "wal", "for", "with", "match")}
    marks = {s["id"] * 100 + j for s in ld.walk(prog) for j, h in enumerate(s["hs"], 1) if h["v"] == var}
    marks |= {s["id"] for s in ld.walk(prog) if s["v"] == var and s["t"] == "del"}
    if not ids and not marks:
        return False
    for rec in recs:
        if ids & set(rec["bset"]):
            return False
        if marks & {e[0] for e in rec["log"]}:
            return False
    return True


def replay(path, seed):
    """Re-run the cases of a replay file: rebuild the recorded programs and replay all their paths."""
    with open(path) as f:
        rec = json.load(f)
    progs = []
    for case in rec["cases"]:
        if "program" in case:
            print(case.get("source", ""))
            print("word:", case.get("word"), " spec:", json.dumps(case.get("spec [log, outcome]")),
                  " compiled:", json.dumps(case.get("compiled [log, outcome]")))
            progs.append(case["program"])
    if not progs:
        print(json.dumps(rec)[:3000])
        return 1
    return run("quick", seed, only=progs)
