"""C34 — fused functions dispatch to the matching specialisation.

spec/Fused.tla: reference selection RefSel (exact match, else the biggest corresponding
numeric member, else `object`, else TypeError; defined on the SET of members), conversion
table, explicit indexing; implementation-shaped transcription of FusedNode.make_fused_cpdef
(list.sort over the `__lt__` of PyrexTypes, _split_fused_types, the generated type mapper,
match_signatures_single / index_signature with its None wildcard).  TLC explores every
ordered declaration x argument kind as a behaviour of the dispatcher and checks that the
implementation-shaped outcome lies in the reference outcome set outside four structurally
defined hazard classes (sort, bool, wild, idsort), that the reference is a partial function
exactly where the rules say so, and that the steps equal the functional form.

Bindings
  B3 split : the real FusedCFuncDefNode._split_fused_types runs on real PyrexTypes objects for
             EVERY declaration of the sweep; its output is checked against the reference
             demands (first member per Python type must be the biggest, bool before int, ...)
             and against the implementation-shaped model (model mismatch = machinery error).
  B1 replay: a core list + seeded sample of declarations (incl. hazard declarations found by
             TLC) is compiled (def and cpdef, 1 / 2 / repeated fused parameters); TLC publishes
             every case of these declarations with the reference outcome set, the modelled
             outcome and the hazard class; each case runs on the compiled module (positional,
             keyword, cpdef, f[str], f[tuple], f[python types]) next to the generic source in
             CPython (value oracle).
  B3 sigs  : __signatures__ keys = product of the member spellings.
P (independent oracle): lib_fused.p_want applies the documented rules to the concrete objects.
"""
import concurrent.futures
import json
import os
import random
import time

import calls
import core
import lib_fused as L

PROP = "C34"

CORE_ONE = [
    ["short", "int", "long"], ["float", "double"], ["short", "int", "long", "float", "double", "fc", "dc"],
    ["int", "ulong"], ["ulong", "int"], ["ulong", "int", "long"], ["short", "uint", "long"],
    ["bint", "int"], ["int", "bint"], ["bint", "long"], ["bint"],
    ["float", "dc", "double"], ["fc", "object", "dc"], ["int", "fc", "long"], ["fc", "list", "dc"],
    ["double", "object"], ["list", "object"], ["int"], ["object"], ["long", "double", "dc", "list", "object"],
    ["long", "mvd", "int"], ["mvd", "mvi", "mvd2", "object"], ["mvf", "mvl"], ["double", "mvd"], ["int", "mvi", "object"],
    ["mvd2", "double", "mvd", "float"], ["mvd", "mvf", "object"], ["mvl", "mvi"], ["fc", "mvi", "dc"],
]
CORE_TWO = [
    (["int"], ["double", "object"]), (["int", "long"], ["float", "double"]), (["int", "double"], ["mvd", "mvi"]),
    (["object", "int"], ["list", "object"]), (["double"], ["int"]), (["bint", "int"], ["dc", "double"]),
    (["mvd"], ["int", "long"]), (["int", "ulong"], ["object"]),
]
CORE_SAME = [["float", "dc", "double"], ["short", "int", "long", "float", "double", "fc", "dc"], ["int", "double", "object"],
             ["mvd", "mvi"], ["long", "list"]]


def choose_decls(tier, rng, split_recs):
    quick = tier == "quick"
    n_one, n_two, n_same, n_hz = (26, 10, 5, 4) if quick else (120, 50, 25, 20)
    decls = [{"mode": "one", "f1": f, "f2": []} for f in CORE_ONE]
    decls += [{"mode": "two", "f1": f, "f2": g} for f, g in CORE_TWO]
    decls += [{"mode": "same", "f1": f, "f2": []} for f in CORE_SAME]
    seen = {json.dumps(d, sort_keys=True) for d in decls}

    def add(d):
        k = json.dumps(d, sort_keys=True)
        if k not in seen:
            seen.add(k)
            decls.append(d)
            return True
        return False

    def rnd_fused(maxlen, universe):
        k = rng.randint(1, maxlen)
        return rng.sample(universe, k)
    hz = sorted(r["f"] for r in split_recs if r["hzsort"])
    for f in rng.sample(hz, min(n_hz, len(hz))):
        add({"mode": "one", "f1": f, "f2": []})
    scal = [t for t in L.UALL if not L.is_buf(t)]
    tries = 0
    cnt = {"one": 0, "two": 0, "same": 0}
    while (cnt["one"] < n_one or cnt["two"] < n_two or cnt["same"] < n_same) and tries < 10000:
        tries += 1
        mode = rng.choice([m for m in cnt if cnt[m] < {"one": n_one, "two": n_two, "same": n_same}[m]])
        # one declaration in four may contain memoryview members (they need the big memoryview utility code)
        uni = L.UALL if rng.random() < 0.3 else scal
        if mode == "one":
            d = {"mode": "one", "f1": rnd_fused(4, uni), "f2": []}
        elif mode == "two":
            d = {"mode": "two", "f1": rnd_fused(2, uni), "f2": rnd_fused(3, uni)}
        else:
            d = {"mode": "same", "f1": rnd_fused(3, uni), "f2": []}
        if add(d):
            cnt[mode] += 1
    for i, d in enumerate(decls):
        d["cpdef"] = (i % 4 == 1)
    return decls


# --------------------------------------------------------------------------
# observation handling

def dec(x):
    """driver encoding -> comparable Python value"""
    if isinstance(x, dict):
        if "big" in x:
            return int(x["big"])
        return ("?", json.dumps(x, sort_keys=True))
    if isinstance(x, list) and x:
        tag = x[0]
        if tag == "f":
            s = x[1]
            return float(s) if s in ("nan", "inf", "-inf") else float.fromhex(s)
        if tag == "c":
            return complex(dec(x[1]), dec(x[2]))
        if tag in ("t", "l"):
            return (tag,) + tuple(dec(v) for v in x[1:])
        if tag == "bool":
            return bool(x[1])
        return ("raw", json.dumps(x, sort_keys=True))
    return x


def eqv(a, b):
    a, b = dec(a), dec(b)
    try:
        return bool(a == b)
    except Exception:
        return False


def parse_c(o, npar):
    """-> ('exc', name) | ('crash', text) | ('ret', [typeof..], [values..]) | ('odd', o)"""
    if isinstance(o, str):
        if o.startswith("E:"):
            return ("exc", o[2:])
        if o.startswith("CRASH") or o == "TIMEOUT":
            return ("crash", o)
    if isinstance(o, list) and o and o[0] == "t" and len(o) == 1 + 2 * npar:
        return ("ret", o[1:1 + npar], o[1 + npar:])
    return ("odd", o)


def accepts(w, c, pvals):
    if w["k"] == "any":
        return True
    if w["k"] == "exc":
        return c[0] == "exc" and c[1] == w["e"]
    if c[0] != "ret":
        return False
    if c[1] != [L.TYPES[m][1] for m in w["ty"]]:
        return False
    for j, need in enumerate(w["val"]):
        if need and not (pvals is not None and eqv(c[2][j], pvals[j])):
            return False
    return True


def obs_class_of(want, c):
    if c[0] == "crash":
        return "crash"
    if c[0] == "odd":
        return "odd-result"
    wk = {w["k"] for w in want}
    if c[0] == "exc":
        return "unexpected-exception" if "ret" in wk else "wrong-exception"
    if "ret" not in wk:
        return "missing-exception"
    if all(c[1] != [L.TYPES[m][1] for m in w["ty"]] for w in want if w["k"] == "ret"):
        return "wrong-specialisation"
    return "wrong-value"


def run(tier, seed):
    t0 = time.time()
    quick = tier == "quick"
    rng = random.Random(seed)
    rep = core.Reporter(PROP)
    cov = {"tlc": []}
    work = core.subdir("c34")

    # ---- B3 facts: the real _split_fused_types over the whole declaration space of the sweep
    space = L.seqs(L.UALL, 2) + [s for s in L.seqs(L.UNUMQ if quick else L.UTHOR3, 3) if len(s) == 3]
    declf, factf = os.path.join(work, "split_decls.json"), os.path.join(work, "split_facts.json")
    with open(declf, "w") as f:
        json.dump(space, f)
    ch = core.run_child(L.SPLIT_CHILD, [declf, factf], with_snapshot=True, timeout=600)
    if ch.rc != 0 or not os.path.exists(factf):
        # the exporter could not run _split_fused_types as it is in the tree: an observation about the code
        rep.disagree({"part": "split", "hz": ""}, "exporter-failed", {"stderr": ch.err[-3000:]})
        facts, flags = {"facts": []}, {k: False for k in ("int", "bool", "float", "complex", "obj", "builtin")}
    else:
        with open(factf) as f:
            facts = json.load(f)
        flags = facts["flags"]
    inf = os.path.join(work, "split_in.ndjson")
    core.write_ndjson(inf, [{"flags": flags}])

    tmo = 1700 if quick else 9000
    ex = concurrent.futures.ThreadPoolExecutor(max_workers=6)
    futs = {}
    futs["split"] = ex.submit(core.tlc, "Fused", cfg="Fused_split_q" if quick else "Fused_split", workers=4,
                              env={"C34_IN": inf}, timeout=tmo)
    futs["one"] = ex.submit(core.tlc, "Fused", cfg="Fused_one_q" if quick else "Fused_one", workers=4 if quick else 8, timeout=tmo)
    futs["multi"] = ex.submit(core.tlc, "Fused", cfg="Fused_multi_q" if quick else "Fused_multi", workers=4 if quick else 8, timeout=tmo)
    if not quick:
        futs["one4"] = ex.submit(core.tlc, "Fused", cfg="Fused_one4", workers=4, timeout=tmo)
        # the hazard classes must be inhabited: the strict invariant has to fail (quick tier: the replay part shows it)
        futs["strict"] = ex.submit(core.tlc, "Fused", cfg="Fused_strict", workers=2, timeout=tmo)

    sp = futs["split"].result()
    cov["tlc"].append(dict(sp.summary(), config="split"))
    if not sp.ok:
        core.die("TLC Fused split: %s\n%s" % (sp.violation, sp.out[-2000:]))
    split_recs = sp.printed
    by_f = {json.dumps(r["f"]): r for r in split_recs}
    if facts["facts"] and set(by_f) != {json.dumps(x["f"]) for x in facts["facts"]}:
        core.die("split: TLC explored %d declarations, the harness enumerated %d" % (len(by_f), len(facts["facts"])))
    model_mismatch = []
    n_split_ok = 0
    for x in facts["facts"]:
        r = by_f[json.dumps(x["f"])]
        same_as_model = (x["normal"] == r["normal"] and x["bufs"] == r["bufs"] and x["obj"] == r["obj"])
        if not same_as_model:
            model_mismatch.append({"f": x["f"], "real": [x["normal"], x["bufs"], x["obj"]], "model": [r["normal"], r["bufs"], r["obj"]]})
        bad = []
        kind_of = {"short": "int", "int": "int", "long": "int", "uint": "int", "ulong": "int", "llong": "int", "bint": "bool",
                   "float": "float", "double": "float", "fc": "complex", "dc": "complex", "list": "list"}
        for py, wkey in (("int", "wint"), ("float", "wfloat"), ("complex", "wcomplex")):
            first = [m for m in x["normal"] if kind_of.get(m) == py][:1]
            if r[wkey] and (not first or first[0] not in r[wkey]):
                bad.append(("sort" if r["hzsort"] else ("idsort" if r["hzid"] else ""), "first-%s-member-not-biggest" % py, first))
            if len([m for m in x["normal"] if kind_of.get(m) == py]) > 1:
                bad.append(("", "duplicate-%s-check" % py, x["normal"]))
        if "bint" in x["f"] and any(kind_of.get(m) == "int" for m in x["f"]):
            order = [kind_of.get(m) for m in x["normal"]]
            if "bool" not in order or "int" not in order or order.index("bool") > order.index("int"):
                bad.append(("bool", "int-check-before-bool-check", x["normal"]))
        if sorted(x["bufs"]) != sorted(m for m in x["f"] if L.is_buf(m)) or x["obj"] != ("object" in x["f"]) \
                or ("list" in x["f"]) != ("list" in x["normal"]):
            bad.append(("", "member-lost", [x["normal"], x["bufs"], x["obj"]]))
        if x["spec"] != [L.TYPES[m][0] for m in x["normal"] + x["bufs"]]:
            bad.append(("", "specialization-string", x["spec"]))
        for hz, what, got in bad:
            rep.disagree({"part": "split", "hz": hz, "what": what}, "as-modelled" if same_as_model else "other",
                         {"declaration": x["f"], "real_split": {"normal": x["normal"], "bufs": x["bufs"], "obj": x["obj"]},
                          "got": got, "model": {"normal": r["normal"], "bufs": r["bufs"]}, "flags": flags})
        if not bad:
            n_split_ok += 1

    # ---- replay: declarations, TLC cases, compiled modules
    decls = choose_decls(tier, rng, split_recs)
    rin = os.path.join(work, "replay_in.ndjson")
    core.write_ndjson(rin, [{"flags": flags}] + [{"mode": d["mode"], "f1": d["f1"], "f2": d["f2"]} for d in decls])
    futs["replay"] = ex.submit(core.tlc, "Fused", cfg="Fused_replay" if quick else "Fused_replay_t", workers=4, env={"C34_IN": rin},
                               timeout=tmo)
    idx = list(enumerate(decls, 1))
    bufd = [(i, d) for i, d in idx if L.decl_has_buf(d)]
    scad = [(i, d) for i, d in idx if not L.decl_has_buf(d)]
    per = 14 if quick else 22
    groups = [(True, bufd[k:k + per]) for k in range(0, len(bufd), per)] + [(False, scad[k:k + 2 * per]) for k in range(0, len(scad), 2 * per)]
    specs, preludes, mod_of = [], {}, {}
    for n, (wb, grp) in enumerate(groups):
        name = "c34m%d" % n
        pyx, pre = L.gen_module(grp, wb)
        specs.append(core.BuildSpec(name, pyx))
        preludes[name] = pre
        for i, _ in grp:
            mod_of[i] = name
    tb = time.time()
    builds = core.build_many(specs, jobs=4 if quick else 8, timeout=3000 if quick else 6000)
    cov["build_s"] = round(time.time() - tb, 1)
    built = {}
    for b, (wb, grp) in zip(builds, groups):
        if b.ok:
            built[b.name] = b
        elif b.stage == "timeout":
            core.die("build of %s timed out (machine load), no verdict" % b.name)
        else:
            rep.disagree({"part": "build", "stage": b.stage, "hz": ""}, "build-failed",
                         {"errors": (b.errors or "")[-3000:], "declarations": [d for _, d in grp][:40]})

    rp = futs["replay"].result()
    cov["tlc"].append(dict(rp.summary(), config="replay"))
    if not rp.ok:
        core.die("TLC Fused replay: %s\n%s" % (rp.violation, rp.out[-2000:]))
    cases = rp.printed
    acts = {}
    for r in cases:
        for a in r["path"]:
            acts[a] = acts.get(a, 0) + 1
    missing_actions = [a for a in ("MapArg", "MatchSingle", "NoMatchSingle", "MatchMulti", "Ambiguous",
                                   "IndexHit", "IndexMiss", "Convert", "ConvertRaise") if not acts.get(a)]
    if missing_actions:
        core.die("vacuous model: actions never taken in the replay part: %s" % missing_actions)
    cov["action_coverage"] = acts

    V = L.make_values()
    per_mod = {}     # module -> (calls, meta)
    classes = {}
    n_drift = 0
    for r in cases:
        d = decls[r["id"] - 1]
        vals = [V[a] for a in r["args"]]
        pw = L.p_want(d, r["op"], r["key"], vals)
        if L.canon(pw) != L.canon(r["want"]):
            n_drift += 1
            rep.spec_drift("Fused.tla reference vs documented rules on concrete objects",
                           {"decl": d, "op": r["op"], "key": r["key"], "args": r["args"], "spec": r["want"], "python": pw})
        wk = r["want"][0]
        cls = "any" if wk["k"] == "any" else (wk["e"] if wk["k"] == "exc" else "ret")
        if r["hz"]:
            cls = "hazard:" + "+".join(sorted(r["hz"]))
        classes[(r["op"], cls)] = classes.get((r["op"], cls), 0) + 1
        mod = mod_of[r["id"]]
        if mod not in built:
            continue
        cl, meta = per_mod.setdefault(mod, ([], []))
        args = [{"py": L.ARGS[a]} for a in r["args"]]
        fname = "f%d" % r["id"]
        pidx = len(cl)
        cl.append(["P%d" % r["id"], args])
        meta.append(None)
        forms = []
        if r["op"] == "call":
            forms.append(("pos", [fname, args]))
            forms.append(("kw", ["KW", [fname, ["x", "y"][:len(args)]] + args]))
            if d.get("cpdef"):
                forms.append(("cpdef", ["g%d" % r["id"], args]))
        else:
            spell = [L.TYPES[k][0] for k in r["key"]]
            forms.append(("idx-str", ["IDX", [fname, "|".join(spell)] + args]))
            forms.append(("idx-tuple", ["IDXT", [fname, spell] + args]))
            if all(k in ("int", "float", "list", "object") for k in r["key"]):
                forms.append(("idx-pytype", ["IDXP", [fname, list(r["key"])] + args]))
        for form, c in forms:
            cl.append(c)
            meta.append((r, d, form, pidx))
    sig_meta = {}
    for i, d in idx:
        mod = mod_of[i]
        if mod in built:
            cl, meta = per_mod.setdefault(mod, ([], []))
            cl.append(["SIGS", ["f%d" % i]])
            meta.append(("sigs", i, d))

    n_eval = n_ok = n_known = 0
    agree_ret = []
    sample_pool = []
    nontrivial = set()

    def run_mod(mod):
        cl, meta = per_mod[mod]
        return mod, calls.run_calls(built[mod], cl, prelude=preludes[mod], timeout=900, tag="c34")
    for mod, obs in ex.map(run_mod, list(per_mod)):
        cl, meta = per_mod[mod]
        for c, m, o in zip(cl, meta, obs):
            if m is None:
                continue
            if m[0] == "sigs":
                _, i, d = m
                want = ["l"] + sorted(L.sig_key(s) for s in L.sigs(d))
                n_eval += 1
                if o != want:
                    rep.disagree({"part": "sigs", "mode": d["mode"], "hz": ""}, "wrong-signatures", {"decl": d, "want": want, "got": o})
                else:
                    n_ok += 1
                continue
            r, d, form, pidx = m
            npar = len(r["args"])
            po = obs[pidx]
            pvals = po[1:] if isinstance(po, list) and po and po[0] == "t" and len(po) == 1 + npar else None
            cobs = parse_c(o, npar)
            n_eval += 1
            key = (r["id"], r["op"], json.dumps(r["key"]), json.dumps(r["args"]), form)
            if any(accepts(w, cobs, pvals) for w in r["want"]):
                n_ok += 1
                if r["want"][0]["k"] != "any":
                    nontrivial.add(key)
                if r["want"][0]["k"] == "ret" and not r["hz"] and len(r["want"]) == 1:
                    agree_ret.append((r, cobs, pvals))
                if r["want"][0]["k"] != "any":
                    sample_pool.append({"decl": d, "op": r["op"], "key": r["key"], "args": r["args"], "form": form, "want": r["want"], "got": o})
                continue
            nontrivial.add(key)
            models = [r["impl"]] + list(r.get("alts") or [])
            as_model = False
            via_alt = False
            for k, mo in enumerate(models):
                if mo["k"] == "any" and k == 0 and r["fn"]:
                    # the modelled dispatcher runs specialisation fn; its argument conversions carry no single demand
                    # (r["convs"]): returning from fn, or raising what one of the conversions raises, is "as modelled"
                    fn_ty = [L.TYPES[x][1] for x in [r["fn"][p - 1] for p in L.params(d)]]
                    hit = (cobs[0] == "ret" and cobs[1] == fn_ty) or \
                          (cobs[0] == "exc" and (cobs[1] in r["convs"] or "nodemand" in r["convs"]))
                elif mo["k"] == "any":
                    hit = False
                else:
                    hit = accepts(mo, cobs, pvals)
                if hit:
                    as_model, via_alt = True, k > 0
                    break
            hz = "+".join(sorted(r["hz"]))
            if as_model and via_alt and not hz:
                hz = "idsort"
            desc = {"part": "replay", "mode": d["mode"], "op": r["op"], "form": form, "hz": hz,
                    "want": "|".join(sorted({w["k"] + (":" + w["e"] if w["e"] else "") for w in r["want"]}))}
            res = rep.disagree(desc, "as-modelled" if as_model else obs_class_of(r["want"], cobs),
                               {"decl": d, "call": c, "want": r["want"], "got": o, "generic_source_result": po,
                                "modelled": r["impl"], "dest": r["dest"], "module": mod})
            if res == "known":
                n_known += 1

    # ---- binding demonstration: corrupted expectations must be rejected
    demo = rng.sample(agree_ret, min(200, len(agree_ret)))
    n_demo = 0
    for r, cobs, pvals in demo:
        w = r["want"][0]
        other = [m for m in L.TYPES if m != w["ty"][0]][rng.randrange(len(L.TYPES) - 1)]
        bad1 = dict(w, ty=[other] + w["ty"][1:])
        bad2 = {"k": "exc", "ty": [], "val": [], "e": "TypeError"}
        if accepts(bad1, cobs, pvals) or accepts(bad2, cobs, pvals):
            core.die("binding self-test failed: a corrupted expectation was accepted (%r)" % (r,))
        n_demo += 1
    if built and n_demo == 0:
        core.die("binding self-test could not run (no agreeing value case)")

    # ---- the sweeps
    for name in ("one", "multi", "one4", "strict"):
        if name not in futs:
            continue
        t = futs[name].result()
        cov["tlc"].append(dict(t.summary(), config=name))
        if name == "strict":
            if t.ok or "ImplAgreesStrict" not in (t.violation or ""):
                core.die("Fused_strict: the hazard classes are not inhabited in the model (%s)\n%s" % (t.violation, t.out[-1500:]))
        elif not t.ok:
            core.die("TLC Fused %s: %s\n%s" % (name, t.violation, t.out[-3000:]))
    ex.shutdown()
    need = [("call", "ret"), ("call", "TypeError"), ("call", "OverflowError"), ("index", "KeyError"), ("index", "ret"), ("call", "any"),
            ("call", "hazard:wild")]
    if built and any(classes.get(k, 0) == 0 for k in need):
        core.die("vacuous replay: case classes %s" % {("%s/%s" % k): v for k, v in classes.items()})
    if model_mismatch and rep.n_violations() == 0:
        rep.spec_drift("implementation-shaped Split differs from the real _split_fused_types (model needs repair)", model_mismatch[:5])

    sweeps = [t for t in cov["tlc"]]
    cov.update({
        "states": sum(t.get("states_generated", 0) or 0 for t in sweeps), "distinct_states": sum(t.get("distinct_states", 0) or 0 for t in sweeps),
        "transitions": sum(t.get("states_generated", 0) or 0 for t in sweeps),
        "traces_validated_against_impl": n_eval + len(facts["facts"]),
        "evaluations": n_eval + len(facts["facts"]), "distinct_nontrivial": len(nontrivial) + n_split_ok,
        "declarations_split_checked": len(facts["facts"]), "declarations_split_without_finding": n_split_ok,
        "declarations_compiled": len(decls), "modules": len(specs), "modules_built": len(built),
        "cases_from_tlc": len(cases), "calls_compared": n_eval, "calls_agreeing": n_ok, "calls_known_finding": n_known,
        "case_classes": {"%s/%s" % k: v for k, v in sorted(classes.items())},
        "corrupted_expectations_rejected": n_demo, "spec_vs_python_drift": n_drift,
        "id_order_flags_measured": flags, "model_mismatch_declarations": len(model_mismatch),
        "exhaustive": True,
        "rule": "model: every ordered declaration (<=2 members over 18 types, 3 members over %s) x argument kind, 2-parameter and "
                "indexing cases over a smaller universe; code: _split_fused_types on every declaration of the sweep; compiled: core + "
                "seeded declarations x all argument kinds x call forms; non-trivial = distinct (declaration, operation, key, "
                "arguments, form) with a demand (not 'any') + declarations whose real split meets every demand" % ("11 scalar types" if quick else "15 types"),
        "samples": rng.sample(sample_pool, min(4, len(sample_pool))) or [{"note": "no module could be built"}],
    })
    rc = rep.finish()
    cov["known_findings"] = rep.kf_summary()
    core.write_evidence(PROP, tier, seed, "model_checking", cov, time.time() - t0,
                        assumptions=["LP64: short 16, int 32, long 64 bits; numpy and array.array exporters stand for 'buffer objects'",
                                     "list.sort is modelled as CPython 3.12 does it for n < 64 (count_run + binary insertion); the model's "
                                     "Split is validated against the real _split_fused_types on every declaration",
                                     "None for a fused type with memoryview members, float -> C integer, buffers -> scalars and a "
                                     "read-only exporter -> memoryview carry no demand",
                                     "id()-dependent order of memoryview vs other type classes: measured in an exporter child that imports "
                                     "the compiler like the build child; deviations are classified with the alternative orders"],
                        violations=rep.n_violations())
    return rc
