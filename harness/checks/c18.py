"""C18 - string formatting produces exactly CPython's text.

spec/FormatSpec.tla: reference semantics of the format-spec mini-language (a parser over the spec
text + Format for int / bool / str / float / None), of !s !r !a, of %-formatting, of
str()/repr()/format() and of joins; implementation-shaped transcription of
PyrexTypes._parse_format, TypeConversion.c CIntToPyUnicode / the 'c' path, FormattedValueNode,
Optimize._build_fstring and JoinedStrNode's length/kind precomputation.  Integers are
sign + 16-bit limbs, so every C type is modelled at its real width; floats are dyadic rationals.
TLC: one case per behaviour (site + spec / template / part list); the step ops -> done computes the
row of reference outcomes over the operand grid; invariants WellFormed, DigitLaw (digits denote the
value, sign, width), BufOK (stack buffer of the C digit loop), ImplExplained (the
implementation-shaped model leaves the reference only in documented hazard classes).
Binding B1: every published cell (case x operand) is rendered into compiled functions - the
operand typed as each of 12 C integer types, bint, double, object, str - and called in child
processes.  S = published outcome, P = the identical expression evaluated by CPython (every cell),
C = compiled code.  Cells the dyadic float model does not decide, and extra non-dyadic doubles,
are C-vs-P only and counted separately.
"""
import collections
import json
import os
import random
import sys
import time

import calls
import core
import lib_format as L

PROP = "C18"
CHUNK = 120           # branches per generated function
N_MODULES = 8


def make_params(tier, seed):
    rng = random.Random(1000 + seed)
    rnd = []
    for _ in range(6 if tier == "quick" else 24):
        bits = rng.choice([7, 8, 15, 16, 31, 32, 63, 64])
        n = rng.getrandbits(bits) | (1 << (bits - 1)) if rng.random() < 0.5 else rng.getrandbits(rng.randint(1, bits))
        rnd.append({"neg": rng.random() < 0.4 and n != 0, "mag": L.to_limbs(n)})
    if tier == "quick":
        knobs = {"mod": 320, "pmod": 5, "pmodo": 60, "jmod": [40, 16, 30]}
    else:
        knobs = {"mod": 800, "pmod": 4, "pmodo": 24, "jmod": [8, 16, 24]}
    return dict(knobs, seed=seed % 9973, rnd=rnd)


EXTRA_FLOATS = [0.1, -0.1, 1e-05, 2.5e-07, 1e22, 1.7976931348623157e308, 5e-324, 123456789.123, 1 / 3.0, 2.675, 1e16, 9999999.5, 0.00001234,
                -1e-10, 1e15 + 0.5, 123456.7]


def obs_of(o):
    if isinstance(o, list) and len(o) == 2 and o[0] == "t" and isinstance(o[1], str):
        return "T:" + o[1]
    if isinstance(o, str) and o.startswith("E:"):
        return o
    if isinstance(o, str) and (o.startswith("CRASH") or o == "TIMEOUT"):
        return "X:" + o
    return "O:" + json.dumps(o, default=str)[:80]


def obs_class(want, got):
    if got.startswith("X:"):
        return "crash"
    if want.startswith("T:"):
        if got.startswith("E:"):
            return "exception:" + got[2:]
        return "wrong-text" if got.startswith("T:") else "wrong-type"
    if got.startswith("E:"):
        return "wrong-exception:" + got[2:]
    return "no-exception"


_DRIVER = r'''
import json, sys, importlib
moddir, modname, infile, outfile, start, careful_until = sys.argv[1], sys.argv[2], sys.argv[3], sys.argv[4], int(sys.argv[5]), int(sys.argv[6])
sys.path.insert(0, moddir)
mod = importlib.import_module(modname)
if not mod.__file__.endswith(".so"):
    print("@@" + json.dumps({"fatal": "not an extension: %s" % mod.__file__})); sys.exit(3)
def dec(x):
    if isinstance(x, dict):
        if "big" in x: return int(x["big"])
        s = x["f"]
        return float(s) if s in ("nan", "inf", "-inf") else float.fromhex(s)
    return x
table = json.load(open(infile))
out = open(outfile, "a")
buf = []
for i in range(start, len(table)):
    fn, args = table[i]
    if i <= careful_until or len(buf) >= 200:
        out.write("".join(buf)); out.flush(); buf = []
    try:
        r = getattr(mod, fn)(*[dec(a) for a in args])
        r = ["t", r[0]] if type(r) is tuple and len(r) == 1 and type(r[0]) is str else ["o", type(r).__name__, repr(r)[:100]]
    except BaseException as e:
        r = "E:" + type(e).__name__
    buf.append(json.dumps([i, r]) + "\n")
    if i <= careful_until:
        out.write("".join(buf)); out.flush(); buf = []
out.write("".join(buf)); out.flush(); out.close()
print("@@" + json.dumps({"done": len(table)}))
'''
MAX_CRASHES = 12      # per module; the remaining calls of a module that keeps dying are not replayed (the crashes are reported)


def run_table(build, table, tag="c18"):
    """Call table on a compiled module in child processes; a death of the child is attributed to the exact call
    (after a crash the next 250 calls are flushed one by one).  -> (observations, number of calls not replayed)"""
    moddir = os.path.dirname(build.so)
    inf = os.path.join(moddir, tag + "_in.json")
    outf = os.path.join(moddir, tag + "_out.ndjson")
    with open(inf, "w") as f:
        json.dump(table, f)
    if os.path.exists(outf):
        os.unlink(outf)
    obs = [None] * len(table)
    start, careful, crashes = 0, -1, 0
    while start < len(table):
        ch = core.run_child(_DRIVER, [moddir, build.name, inf, outf, str(start), str(careful)], timeout=1200, mem_mb=4096)
        if os.path.exists(outf):
            with open(outf) as f:
                for line in f:
                    try:
                        i, r = json.loads(line)
                    except ValueError:
                        continue
                    obs[i] = r
        if any("fatal" in j for j in ch.json_lines()):
            core.die("driver: %r" % ch.json_lines())
        if ch.rc == 0 and ch.json_lines():
            break
        nxt = start
        while nxt < len(table) and obs[nxt] is not None:
            nxt += 1
        if nxt >= len(table):
            break
        if nxt > careful:
            # the batch containing the fatal call was not flushed: run it again call by call
            start, careful = nxt, nxt + 250
            continue
        obs[nxt] = "TIMEOUT" if ch.timed_out else ("CRASH:%d" % ch.signal if ch.crashed else "CRASH:exit%s" % ch.rc)
        core.CRASH_LOGS.append({"module": build.name, "call": table[nxt], "obs": obs[nxt], "stderr": ch.err[-2000:]})
        crashes += 1
        start = nxt + 1
        if crashes >= MAX_CRASHES:
            break
    return obs, sum(1 for o in obs if o is None)


def arg_of(x):
    if type(x) is bool or x is None or type(x) is str:
        return x
    if type(x) is int:
        return calls.ienc(x)
    return calls.fenc(x)


def descriptor(case, op, val, want, hz, decided):
    site = case["site"]
    d = {"site": site, "carrier": op["car"], "ctype": L.carrier(op) if op["car"] == "cint" else "",
         "conv": chr(case["conv"]) if case["conv"] else "", "expect": "text" if want.startswith("T:") else want,
         "model_hazard": hz, "decided_by": decided}
    if site == "join":
        d["expr"] = L.expr_of(case)
        a = L.dec_value(op["v"])
        d["a_class"] = L.ord_class(a)
        d["padded_ord_part"] = any((not p["lit"]) and p["op"] == 1 and len(p["s"]) >= 2 and p["s"][-1] == 99 for p in case["parts"])
        return d
    if site == "pct":
        d["tmpl"] = "%" + L.text(case["pre"]) + L.text(case["prectext"]) + chr(case["ty"])
    else:
        d["spec"] = L.text(case["s"])
    if site == "call":
        d["fn"] = case["fn"]
    d["vclass"] = L.value_class(val)
    if type(val) is int:
        d["neg"] = val < 0
        d["ord"] = L.ord_class(val)
    return d


def gen_modules(cells_by_fn):
    """cells_by_fn: {carrier: [expr, ...]} -> list of (module name, source, {(carrier, expr): (fname, k)})"""
    # functions of at most CHUNK branches; modules balanced by number of branches
    funcs = []      # (carrier, chunk index, [exprs])
    for car, exprs in sorted(cells_by_fn.items()):
        for ci in range(0, len(exprs), CHUNK):
            funcs.append((car, ci // CHUNK, exprs[ci:ci + CHUNK]))
    funcs.sort(key=lambda f: -len(f[2]))
    bins = [[] for _ in range(N_MODULES)]
    load = [0] * N_MODULES
    for f in funcs:
        i = load.index(min(load))
        bins[i].append(f)
        load[i] += len(f[2]) + 10
    mods = []
    for i, b in enumerate(bins):
        if not b:
            continue
        name = "c18m%d" % i
        src = ["# cython: language_level=3", ""]
        index = {}
        for car, ci, exprs in b:
            fname = "g_%s_%d" % (car, ci)
            if car == "join":
                src.append("def %s(int k, int a, object b):" % fname)
            else:
                src.append("def %s(int k, %s v):" % (fname, L.decl_of(car)))
            for k, e in enumerate(exprs):
                src.append("    %s k == %d: return (%s,)" % ("if" if k == 0 else "elif", k, e))
                index[(car, e)] = (fname, k)
            src.append("    return None")
            src.append("")
        mods.append((name, "\n".join(src), index))
    return mods


def run(tier, seed):
    t0 = time.time()
    rng = random.Random(seed)
    rep = core.Reporter(PROP)
    cov = {"tlc": []}

    # ---- model checking
    params = make_params(tier, seed)
    pfile = os.path.join(core.subdir("c18"), "params.json")
    with open(pfile, "w") as f:
        f.write(json.dumps(params) + "\n")
    cfg = "FormatSpec_quick" if tier == "quick" else "FormatSpec_thorough"
    r = core.tlc_or_die("FormatSpec", cfg=cfg, env={"C18_PARAMS": pfile}, timeout=900 if tier == "quick" else 3000,
                        workers=min(core.NCPU, 8))      # (no -coverage: cost tracking switches off TLC's LET caching and the run never ends)
    cov["tlc"].append(dict(r.summary(), config=cfg))
    phase = {"tlc": round(time.time() - t0, 1)}
    cases = r.printed
    # vacuity guard on the model: every done state is published by the invariant Publish, so the records count the Eval<Site> steps
    if r.generated != 3 * len(cases) or r.depth != 3:
        core.die("FormatSpec: %d states for %d published cases (expected todo/ops/done per case)" % (r.generated, len(cases)))
    by_cls = collections.Counter((c["site"], c["cls"]) for c in cases)
    for need in (("fstr", "core"), ("fstr", "cfam"), ("fstr", "conv"), ("fstr", "ffam"), ("fstr", "near"), ("fstr", "gen"), ("fstr", "bad"),
                 ("pct", "pct"), ("call", "call"), ("join", "join")):
        if by_cls[need] == 0:
            core.die("vacuous model: no case of class %r published (%r)" % (need, dict(by_cls)))

    # ---- cells: S (spec), P (CPython)
    cells = []        # (case, op, value(s), want, hz, decided)
    hz_count = collections.Counter()
    n_undecided = 0
    n_err_expected = 0
    for c in cases:
        ops = list(zip(c["ops"], c["exp"], c["hz"]))
        if c["site"] == "fstr" and c["cls"] in ("ffam", "gen") and not c["conv"]:
            # doubles outside the dyadic model: C-vs-P only
            for x in EXTRA_FLOATS[:6 if tier == "quick" and c["cls"] == "gen" else len(EXTRA_FLOATS)]:
                for car in ("cdouble", "obj"):
                    ops.append(({"car": car, "ti": 0, "v": {"k": "pyfloat", "x": x}}, {"e": 8, "t": []}, ""))
        for op, ex, hz in ops:
            s = L.expected(ex)
            if op["v"]["k"] == "pyfloat":
                val = op["v"]["x"]
                code = compile(L.expr_of(c), "<c18>", "eval")
                p = L.observe(lambda: eval(code, {"v": val}))
            else:
                val = L.dec_value(op["v"])
                p = L.cpython(c, op)
            if s is None:
                n_undecided += 1
                want, decided = p, "oracle-only"
            else:
                want, decided = s, "spec"
                if s != p:
                    rep.spec_drift("FormatSpec reference vs CPython", {"expr": L.expr_of(c), "operand": repr(val), "spec": s, "cpython": p})
            hz_count[hz] += 1
            if want.startswith("E:"):
                n_err_expected += 1
            cells.append((c, op, val, want, hz, decided))
    if rep.drift:
        return rep.finish()
    if n_err_expected == 0 or not any(h for h in hz_count if h):
        core.die("vacuous case set: %d error cells, hazards %r" % (n_err_expected, dict(hz_count)))

    phase["oracle"] = round(time.time() - t0, 1)
    # ---- build
    exprs = collections.defaultdict(dict)
    for c, op, val, want, hz, decided in cells:
        car = "join" if c["site"] == "join" else L.carrier(op)
        exprs[car].setdefault(L.expr_of(c), None)
    mods = gen_modules({car: list(es) for car, es in exprs.items()})
    builds = core.build_many([core.BuildSpec(name, src) for name, src, _ in mods], jobs=min(core.NCPU, N_MODULES))
    where = {}
    failed = []
    for (name, src, index), b in zip(mods, builds):
        if not b.ok:
            failed.append((name, b))
            continue
        for key, (fname, k) in index.items():
            where[key] = (b, fname, k)
    for name, b in failed:
        rep.disagree({"site": "build", "module": name, "stage": b.stage}, "build-failed", {"errors": (b.errors or "")[-3000:]})

    phase["build"] = round(time.time() - t0, 1)
    # ---- replay
    per_mod = collections.defaultdict(list)
    for i, (c, op, val, want, hz, decided) in enumerate(cells):
        car = "join" if c["site"] == "join" else L.carrier(op)
        w = where.get((car, L.expr_of(c)))
        if w is None:
            continue
        b, fname, k = w
        if c["site"] == "join":
            args = [k, arg_of(val), arg_of(L.dec_value(op["w"]))]
        else:
            args = [k, arg_of(val)]
        per_mod[b.name].append((i, b, [fname, args]))
    got = {}
    n_skipped = 0
    import concurrent.futures
    with concurrent.futures.ThreadPoolExecutor(max_workers=min(core.NCPU, N_MODULES)) as ex:
        def one(item):
            name, lst = item
            return lst, run_table(lst[0][1], [x[2] for x in lst])
        for lst, (obs, skipped) in ex.map(one, sorted(per_mod.items())):
            n_skipped += skipped
            for (i, b, call), o in zip(lst, obs):
                if o is not None:
                    got[i] = (obs_of(o), call)
    phase["replay"] = round(time.time() - t0, 1)
    n_replayed = 0
    n_agree = 0
    dump = [] if os.environ.get("C18_DUMP") else None      # development aid: all disagreements of the run as one JSON file
    distinct = set()
    samples_ok = []
    for i, (c, op, val, want, hz, decided) in enumerate(cells):
        if i not in got:
            continue
        o, call = got[i]
        n_replayed += 1
        e = L.expr_of(c)
        # non-trivial: the result is not simply str(operand)
        if want != "T:" + (str(val) if c["site"] != "join" else ""):
            distinct.add((e, op["car"], op.get("ti", 0), repr(val), repr(op.get("w"))))
        if o == want:
            n_agree += 1
            if len(samples_ok) < 400:
                samples_ok.append(i)
            continue
        desc = descriptor(c, op, val, want, hz, decided)
        if dump is not None:
            dump.append({"desc": desc, "obs_class": obs_class(want, o), "expr": e, "operand": repr(val), "want": want, "got": o})
        rep.disagree(desc, obs_class(want, o), {"expr": e, "operand": repr(val), "operand2": repr(L.dec_value(op["w"])) if c["site"] == "join" else None,
                                                 "carrier": L.carrier(op) if c["site"] != "join" else "int,object", "want": want, "got": o,
                                                 "call": call, "model_hazard": hz})

    if dump is not None:
        with open(os.environ["C18_DUMP"], "w") as f:
            json.dump(dump, f)

    # ---- binding demonstration: a corrupted expectation must be rejected by the comparison
    demo = [i for i in samples_ok if cells[i][3].startswith("T:") and len(cells[i][3]) > 2][:50]
    if len(demo) < 10:
        core.die("binding self-test: too few agreeing text cells (%d)" % len(demo))
    for i in demo:
        w = cells[i][3]
        bad = w[:-1] + chr(ord(w[-1]) ^ 1)
        if got[i][0] == bad or obs_class(bad, got[i][0]) != "wrong-text":
            core.die("binding self-test failed for %r" % (got[i],))

    cov.update({
        "states": r.generated, "distinct_states": r.distinct, "transitions": r.generated,
        "eval_steps_by_site": dict(collections.Counter(c["site"] for c in cases)),
        "cases": len(cases), "cases_by_class": {"%s/%s" % k: v for k, v in sorted(by_cls.items())},
        "evaluations": n_replayed, "traces_validated_against_impl": n_replayed, "cells_agreeing": n_agree,
        "cells_not_replayed_after_repeated_crashes": n_skipped,
        "cells_decided_by_spec": len(cells) - n_undecided, "cells_oracle_only": n_undecided,
        "cells_expected_exception": n_err_expected,
        "model_hazard_cells": {k or "none": v for k, v in hz_count.items()},
        "spec_vs_cpython_drift": 0,
        "distinct_nontrivial": len(distinct),
        "phase_end_s": phase, "modules": len(mods), "functions_sites": sum(len(m[2]) for m in mods),
        "rule": "cases = format specs / %-templates / call forms / part lists enumerated by TLC (C-level families completely, the rest of the "
                "grammar as a seeded sample); each case x operand grid (12 C integer types at bounds, digit-count boundaries and seeded random "
                "values, bint, double, object ints/bools/floats/strs/None, str-typed); a cell is non-trivial when its expected outcome is "
                "not simply str(operand); distinct = distinct (expression, carrier, operand)",
        "samples": [{"expr": L.expr_of(cells[i][0]), "carrier": L.carrier(cells[i][1]) if cells[i][0]["site"] != "join" else "join",
                     "operand": repr(cells[i][2]), "expected": cells[i][3], "compiled": got[i][0]}
                    for i in rng.sample(samples_ok, min(6, len(samples_ok)))],
    })
    rc = rep.finish()
    cov["known_findings"] = rep.kf_summary()
    core.write_evidence(PROP, tier, seed, "model_checking", cov, time.time() - t0,
                        assumptions=["floats are decided by the spec on dyadic values m/2^e (e <= 4) with precision <= 3 or default, nan, inf, -0.0; other doubles, "
                                     "'#' and precision-without-type on floats are compared against CPython only",
                                     "locale-dependent type 'n' and the 'z' option are not generated",
                                     "CPython 3.12 is the oracle for every cell (spec drift = machinery error)"],
                        violations=rep.n_violations())
    return rc


def replay(path, seed):
    """Re-run the cases of a replay file: one compiled function per (carrier, expression)."""
    with open(path) as f:
        rec = json.load(f)
    if rec["descriptor"].get("site") == "build":
        print(rec["cases"][0].get("errors", "")[-2000:])
        print("VIOLATION property=%s replay=%s" % (PROP, path))
        return 1
    src = ["# cython: language_level=3", ""]
    names = {}
    for c in rec["cases"]:
        key = (c["carrier"], c["expr"])
        if key in names:
            continue
        names[key] = "r%d" % len(names)
        if c["carrier"] == "int,object":
            src.append("def %s(int a, object b):\n    return (%s,)\n" % (names[key], c["expr"]))
        else:
            src.append("def %s(%s v):\n    return (%s,)\n" % (names[key], L.decl_of(c["carrier"]), c["expr"]))
    b = core.build_many([core.BuildSpec("c18replay", "\n".join(src))])[0]
    if not b.ok:
        print((b.errors or "")[-2000:])
        print("VIOLATION property=%s replay=%s" % (PROP, path))
        return 1
    cl = [[names[(c["carrier"], c["expr"])], c["call"][1][1:]] for c in rec["cases"]]
    obs, _ = run_table(b, cl, tag="replay")
    rc = 0
    for c, o in zip(rec["cases"], obs):
        got = obs_of(o)
        print("%s  carrier=%s operand=%s\n  want %s\n  got  %s" % (c["expr"], c["carrier"], c["operand"], ascii(c["want"]), ascii(got)))
        if got != c["want"]:
            rc = 1
    if rc:
        print("VIOLATION property=%s replay=%s" % (PROP, path))
    return rc
