"""C06 - C double arithmetic and float parsing match CPython.

spec/FloatParse.tla: which strings float(str|bytes|bytearray) accepts and what they denote - the
CPython pipeline (transform, strip, underscore rule, strtod must consume everything; grammar given as
scanner and declaratively) and an implementation-shaped transcription of the fast paths of
Utility/Optimize.c (pyunicode_as_double / pybytes_as_double, inf_nan pre-test, underscore copy,
fallback).  TLC: every string of the enumeration families (symbol classes, both modes) + the long
strings the harness generates (records); it publishes the accepted strings with their denotation and
the hazards (strings where the transcription leaves the reference).
spec/XReal.tla: + - * / // % comparisons, unary minus, int(), round() on extended dyadic reals
(nan, +-inf, signed zeros, subnormals, 2^1023) - CPython's float semantics (// and % declaratively
and as a transcription of float_divmod) and what Cython emits (floor(a / b), CMath.c ModFloat).
Binding B1: every enumerated string (accepted or not) is instantiated with representatives of its
symbol classes and passed to compiled float(s) with s typed str / bytes / bytearray / object; the
expected double is computed from the spec's denotation with exact rationals; P = CPython float().
Every XReal cell is executed on compiled typed-double functions (variable, in-place, constant
operand, cdef / nogil forms).  Where the spec does not decide (inexact results; special and random
doubles) the compiled code is compared with CPython (P) and counted as "not decided by the spec".
"""
import concurrent.futures
import json
import math
import os
import random
import struct
import sys
import time

import core
import lib_cdouble as L

PROP = "C06"

ZOO_CLASSES = r'''
class StrSub(str): pass
class BytesSub(bytes): pass
class FloatSub(float): pass
class HasFloat:
    def __init__(self, v): self.v = v
    def __float__(self): return self.v
class HasIndex:
    def __index__(self): return 7
class Plain: pass
'''

PARSE_SRC = r'''
# cython: language_level=3
def f_str(str s): return float(s)
def f_bytes(bytes s): return float(s)
def f_ba(bytearray s): return float(s)
def f_obj(s): return float(s)
def f_cd(s):
    cdef double d = float(s)
    return d
def f_str_cd(str s):
    cdef double d = float(s)
    return d * 1.0
''' + ZOO_CLASSES

CONSTS = [("2", 2.0, "2.0"), ("m2", -2.0, "-2.0"), ("h", 0.5, "0.5"), ("3", 3.0, "3.0"), ("1", 1.0, "1.0"),
          ("m1", -1.0, "-1.0"), ("1h", 1.5, "1.5")]
SYM = {"add": "+", "sub": "-", "mul": "*", "tdiv": "/", "fdiv": "//", "mod": "%",
       "lt": "<", "le": "<=", "eq": "==", "ne": "!=", "gt": ">", "ge": ">="}
ARITH = ["add", "sub", "mul", "tdiv", "fdiv", "mod"]
CMPS = ["lt", "le", "eq", "ne", "gt", "ge"]
DIVS = ["tdiv", "fdiv", "mod"]


def ops_source():
    src = ["# cython: language_level=3", "cimport cython", ""]
    for op in ARITH + CMPS:
        s = SYM[op]
        src.append("def %s_v(double a, double b):\n    return a %s b\n" % (op, s))
        if op in ARITH:
            src.append("def %s_ip(double a, double b):\n    a %s= b\n    return a\n" % (op, s))
            src.append("def %s_loc(a, b):\n    cdef double x = a\n    cdef double y = b\n    cdef double r = x %s y\n    return r\n" % (op, s))
        for cn, cv, ct in CONSTS:
            src.append("def %s_k_%s(double a):\n    return a %s %s\n" % (op, cn, s, ct))
            src.append("def %s_kl_%s(double b):\n    return %s %s b\n" % (op, cn, ct, s))
    for op in DIVS:
        s = SYM[op]
        src.append("cdef double c_%s(double a, double b) except? -1.5:\n    return a %s b\n" % (op, s))
        src.append("def %s_cdef(double a, double b):\n    return c_%s(a, b)\n" % (op, op))
        src.append("cdef double g_%s(double a, double b) except? -1.5 nogil:\n    return a %s b\n" % (op, s))
        src.append("def %s_ng(double a, double b):\n    cdef double r\n    with nogil:\n        r = g_%s(a, b)\n    return r\n" % (op, op))
    src.append("def neg_v(double a):\n    return -a\n")
    src.append("def int_v(double a):\n    return int(a)\n")
    src.append("def round_v(double a):\n    return round(a)\n")
    src.append("def int_loc(a):\n    cdef double x = a\n    return int(x)\n")
    return "\n".join(src)


def forms_for(op, a, b):
    """compiled functions that compute `a op b` -> list of (function name, form tag, args)"""
    fa, fb = L.farg(a), (L.farg(b) if b is not None else None)
    if op in ("neg", "round"):
        return [(op + "_v", "v", [fa])]
    if op == "int":
        return [("int_v", "v", [fa]), ("int_loc", "loc", [fa])]
    out = [(op + "_v", "v", [fa, fb])]
    if op in ARITH:
        out.append((op + "_ip", "ip", [fa, fb]))
        out.append((op + "_loc", "loc", [fa, fb]))
    if op in DIVS:
        out.append((op + "_cdef", "cdef", [fa, fb]))
        out.append((op + "_ng", "nogil", [fa, fb]))
    for cn, cv, ct in CONSTS:
        if L.fhex(b) == L.fhex(cv):
            out.append(("%s_k_%s" % (op, cn), "kright", [fa]))
        if L.fhex(a) == L.fhex(cv):
            out.append(("%s_kl_%s" % (op, cn), "kleft", [fb]))
    return out


# --------------------------------------------------------------------------------------------
# judging one observation

def is_crash(o):
    return o is None or o.startswith("CRASH") or o == "TIMEOUT"


def is_skip(o):
    return o == "SKIP"      # not executed: the function had crashed 5 times before (each crash is reported)


def judge_parse(want, got, model_val):
    """-> None (agree) or obs_class"""
    if got == want:
        return None
    if is_crash(got):
        return "crash"
    if want.startswith("E:"):
        if got.startswith("E:"):
            return "wrong-exception:" + got[2:]
        return "accepted-as-model" if model_val is not None and got == model_val else "accepted"
    if got.startswith("E:"):
        return "rejected:" + got[2:]
    return "wrong-value"


def judge_op(want, got, model):
    if got == want:
        return None
    if is_crash(got):
        return "crash"
    if model is not None and model != want and got == model:
        return "as-model"
    if got.startswith("E:"):
        return ("wrong-exception:" if want.startswith("E:") else "exception:") + got[2:]
    if want.startswith("E:"):
        return "no-exception"
    if want[:2] != got[:2]:
        return "wrong-type"
    if want.startswith("f:"):
        cw, cg = L.oclass(want), L.oclass(got)
        if {cw, cg} == {"+0", "-0"}:
            return "wrong-zero-sign"
        if "nan" in (cw, cg):
            return "nan-mismatch"
    return "wrong-value"


STR_VARIANTS = [("f_str", "str"), ("f_obj", "obj-str"), ("f_cd", "cdouble-str"), ("f_str_cd", "str-cdouble")]
BYTES_VARIANTS = [("f_bytes", "b", "bytes"), ("f_ba", "ba", "bytearray"), ("f_obj", "b", "obj-bytes"), ("f_obj", "ba", "obj-bytearray")]


def run(tier, seed):
    t0 = time.time()
    rng = random.Random(seed)
    rep = core.Reporter(PROP)
    cov = {"tlc": []}
    workers = int(os.environ["VERIF_WORKERS"]) if os.environ.get("VERIF_WORKERS") else None
    L.class_sanity()
    core.scratch(); core.subdir("tlc"); core.subdir("build"); core.snapshot()

    # ---- records for the spec's record mode
    recs = L.gen_records(tier, rng)
    recf = os.path.join(core.subdir("c06"), "records.ndjson")
    core.write_ndjson(recf, recs)

    # ---- TLC (two modules) and the two builds, concurrently
    fams = L.TIER_FAMILIES[tier]
    with concurrent.futures.ThreadPoolExecutor(max_workers=3) as ex:
        f_fp = ex.submit(core.tlc_or_die, "FloatParse", cfg="FloatParse_" + tier, env={"RECORDS": recf},
                         timeout=1500 if tier == "quick" else 6000, workers=workers, heap="6g")
        f_xr = ex.submit(core.tlc_or_die, "XReal", cfg="XReal_q" if tier == "quick" else "XReal_t", timeout=1500, workers=workers)
        f_b = ex.submit(core.build_many, [core.BuildSpec("c06parse", PARSE_SRC), core.BuildSpec("c06ops", ops_source())], None, workers or 2)
        fp, xr, builds = f_fp.result(), f_xr.result(), f_b.result()
    cov["tlc"].append(dict(fp.summary(), module="FloatParse", config=tier))
    cov["tlc"].append(dict(xr.summary(), module="XReal", config="q" if tier == "quick" else "t"))
    for b in builds:
        if not b.ok:
            rep.disagree({"part": "build", "module": b.name, "stage": b.stage}, "build-failed", {"errors": (b.errors or "")[-3000:]})
    if rep.n_violations():
        rc = rep.finish()
        core.write_evidence(PROP, tier, seed, "model_checking", {"evaluations": 1, "distinct_nontrivial": 0, "states": fp.generated + xr.generated,
                            "transitions": 1, "traces_validated_against_impl": 0, "samples": ["build failed"]}, time.time() - t0, violations=1)
        return rc
    bparse, bops = builds

    # ---- what the parse model published; vacuity / completeness guards on the model
    accepted, hazards, recverdict = {}, {}, {}
    for r in fp.printed:
        if r.get("acc"):
            accepted[(r["fam"], r["mode"], tuple(r["s"]))] = r["ref"]
        elif r.get("hazard"):
            hazards[(r["fam"], r["id"], r["mode"], tuple(r["s"]))] = r["impl"]
        elif r.get("rec"):
            recverdict[r["id"]] = r["ref"]
    expect_states = sum(L.family_size(f) for f in fams) + len(recs)
    if fp.distinct != expect_states:
        core.die("FloatParse explored %d distinct states, the families + records have %d" % (fp.distinct, expect_states))
    if len(recverdict) != len(recs):
        core.die("FloatParse decided %d of %d records" % (len(recverdict), len(recs)))
    kinds = {}
    for k, v in list(accepted.items()) + [((None,), v) for v in recverdict.values() if v["acc"]]:
        kinds[v["kind"]] = kinds.get(v["kind"], 0) + 1
    n_rec_rej = sum(1 for v in recverdict.values() if not v["acc"])
    if min(kinds.get("fin", 0), kinds.get("inf", 0), kinds.get("nan", 0)) < 10 or n_rec_rej < 100 or not hazards:
        core.die("vacuous parse model: accepted kinds %r, rejected records %d, hazards %d" % (kinds, n_rec_rej, len(hazards)))

    # ---- parse cases -> calls, replayed chunk by chunk (cases are kept compact; descriptors are built for disagreements only)
    stats = {"symbol_strings": 0, "accepted_symbol_strings": 0, "hazard_symbol_strings": 0, "instantiations": 0,
             "calls": 0, "calls_from_spec_cases": 0, "disagreements": 0, "chunks": 0}
    seen = set()
    table, meta = [], []       # meta[i] = (case, variant, want, detail) ; case = (base descriptor, model_val, syms)
    nontriv = [0]
    keep = {"acc": [], "rej": [], "samples": []}
    CHUNK = 400000

    def flush():
        if not table:
            return
        stats["chunks"] += 1
        obs = L.run_table(bparse, table, "parse%d" % stats["chunks"], timeout=1800)
        for (case, var, want, detail), got, call in zip(meta, obs, table):
            base, mv, syms = case
            oc = None if is_skip(got) else judge_parse(want, got, mv)
            stats["calls_skipped_after_crashes"] = stats.get("calls_skipped_after_crashes", 0) + is_skip(got)
            if oc:
                stats["disagreements"] += 1
                rep.disagree(dict(base, variant=var), oc, dict(detail, syms=list(syms) if syms else None, function=call[0], want=want, got=got, model=mv))
            elif is_skip(got):
                pass
            elif want.startswith("f:") and len(keep["acc"]) < 200:
                keep["acc"].append((call, got))
            elif want == "E:ValueError" and len(keep["rej"]) < 200:
                keep["rej"].append((call, got))
        for k in rng.sample(range(len(table)), 2):
            if len(keep["samples"]) < 4:
                keep["samples"].append({"call": [table[k][0], meta[k][3]], "syms": list(meta[k][0][2] or ()), "want": meta[k][2], "got": obs[k]})
        stats["calls"] += len(table)
        del table[:], meta[:]
        seen.clear()

    def add_case(src, fam, rid, mode, syms, ref, bytes_too, n_inst):
        hz = hazards.get((fam, rid, mode, tuple(syms)))
        want = L.denote(ref)
        model_val, model = None, "agrees"
        if hz is not None:
            model = "accepts" if hz["acc"] else "rejects"
            mv = L.denote(hz)
            model_val = ("f:" + mv) if hz["acc"] else mv
            stats["hazard_symbol_strings"] += 1
        want_o = want if want.startswith("E:") else "f:" + want
        feat = L.shape_features(syms)
        base = {"part": "parse", "src": src, "mode": mode, "want": "E:ValueError" if not ref["acc"] else ref["kind"], "model": model,
                "und_after_exp_sign": feat["und_after_exp_sign"], "gs_in_outer_space": feat["gs_in_outer_space"],
                "non_ascii": feat["non_ascii"], "has_underscore": feat["has_underscore"],
                "ws_core_len": feat["ws_core_len"] if mode == "str" else -1}
        case = (base, model_val, syms)
        bcase = (dict(base, mode="bytes"), model_val, syms) if mode == "str" else case
        stats["symbol_strings"] += 1
        stats["accepted_symbol_strings"] += bool(ref["acc"])
        nt = len(syms) >= 2 and any(s in L.DIGITS or s in L.LETTERS for s in syms)
        has_choice = any(s in ("e", "sp", "gs", "x", "us", "ux") or s in L.LETTERS or s.startswith("u") for s in syms)
        texts = [L.instantiate(syms)]
        if has_choice:
            texts += [L.instantiate(syms, rng) for _ in range(n_inst)]
        for ti, text in enumerate(dict.fromkeys(texts)):
            stats["instantiations"] += 1
            r2 = rng if ti else None
            if mode == "str":
                p = L.py_float(text)
                if p != want_o:
                    rep.spec_drift("FloatParse.Ref vs CPython float(str)", {"syms": list(syms), "text": text, "spec": want_o, "python": p})
                for fn, var in STR_VARIANTS:
                    key = (fn, text)
                    if key not in seen:
                        seen.add(key)
                        nontriv[0] += nt
                        table.append([fn, text])
                        meta.append((case, var, want_o, {"input": text}))
            if mode == "bytes" or (bytes_too and not feat["non_ascii"]):
                bt = text.encode("ascii") if mode == "str" else L.to_bytes(text, syms, r2)
                p = L.py_float(bt)
                if p != want_o:
                    rep.spec_drift("FloatParse.Ref vs CPython float(bytes)", {"syms": list(syms), "bytes": bt.hex(), "spec": want_o, "python": p})
                for fn, enc, var in BYTES_VARIANTS:
                    key = (fn, enc, bt)
                    if key not in seen:
                        seen.add(key)
                        nontriv[0] += nt
                        table.append([fn, [enc, bt.hex()]])
                        meta.append((bcase, var, want_o, {"input_hex": bt.hex(), "as": enc}))
        if len(table) >= CHUNK:
            flush()

    reject = {"acc": False}
    enum_seen = 0
    for k, fam in enumerate(fams):
        both = len(L.FAMILIES[fam][2]) == 2
        for mode, syms in L.family_strings(fam):
            ref = accepted.get((fam, mode, syms), reject)
            if L.covered_by(fams[:k], mode, syms):
                # same (mode, string) already replayed from an earlier family: the two families must agree on it
                other = next(f for f in fams[:k] if L.covered_by([f], mode, syms))
                m2 = mode if mode in L.FAMILIES[other][2] else "str"
                if accepted.get((other, m2, syms), reject) != ref:
                    core.die("families %s and %s disagree on %r" % (fam, other, syms))
                enum_seen += 1
                continue
            # a family enumerated in mode "str" only: for its ASCII-only strings Transform is the identity in both modes,
            # so the verdict holds for the bytes image as well (P guards this)
            add_case("enum:" + fam, fam, 0, mode, syms, ref, not both, 1)
    stats["symbol_strings_shared_between_families"] = enum_seen
    for r in recs:
        if L.covered_by(fams, r["mode"], tuple(r["s"])):
            continue
        add_case("record", "rec", r["id"], r["mode"], tuple(r["s"]), recverdict[r["id"]], False, 2 if tier == "quick" else 3)
    stats["calls_from_spec_cases"] = stats["calls"] + len(table)

    # float(x) of other objects: outside the spec, compared with CPython only
    zoo = ["None", "3", "True", "10**400", "-(2**1024)", "1.5", "FloatSub(2.5)", "StrSub(' 1_0 ')", "StrSub('1e+_1')", "BytesSub(b'2.5')",
           "memoryview(b'1.5')", "HasFloat(2.5)", "HasFloat(FloatSub(3.5))", "HasFloat(3)", "HasFloat('x')", "HasIndex()", "Plain()", "[]",
           "(1,)", "1j", "'\\uff11\\uff12'", "bytearray(b' nan ')", "b''", "''", "bytearray()"]
    ns = {}
    exec(compile(ZOO_CLASSES, "<zoo>", "exec"), ns)
    import warnings
    for z in zoo:
        with warnings.catch_warnings():
            warnings.simplefilter("ignore")
            want_o = L.py_float(eval(z, ns))
        for fn in ("f_obj", "f_cd"):
            table.append([fn, ["py", z]])
            meta.append((({"part": "parse", "src": "zoo", "want": want_o if want_o.startswith("E:") else "value", "model": "none", "arg": z},
                          None, None), fn, want_o, {"arg": z}))
    for fn, var in [("f_str", "str"), ("f_bytes", "bytes"), ("f_ba", "bytearray")]:
        table.append([fn, ["py", "None"]])
        meta.append((({"part": "parse", "src": "zoo", "want": "E:TypeError", "model": "none", "arg": "None"}, None, None), var, "E:TypeError", {"arg": "None"}))
    flush()

    # binding demonstration (parse): corrupted expectations must be rejected
    if len(keep["acc"]) < 50 or len(keep["rej"]) < 50:
        core.die("binding self-test: too few agreeing parse cases (%d accepted, %d rejected)" % (len(keep["acc"]), len(keep["rej"])))
    for call, got in keep["acc"]:
        other = "f:0x1.0000000000000p+0" if got != "f:0x1.0000000000000p+0" else "f:0x1.0000000000000p+1"
        if judge_parse("E:ValueError", got, None) != "accepted" or judge_parse(other, got, None) != "wrong-value":
            core.die("binding self-test failed (accepted case %r)" % (call,))
    for call, got in keep["rej"]:
        if judge_parse("f:0x1.0000000000000p+0", got, None) != "rejected:ValueError":
            core.die("binding self-test failed (rejected case %r)" % (call,))

    # ---- operators: the XReal cells
    otable, ometa = [], []
    cells = xr.printed
    n_ix = n_hz = 0
    opcount = {}
    for c in cells:
        op = c["op"]
        a = L.xr_to_py(c["a"])
        b = None if op in L.PYUN else L.xr_to_py(c["b"])
        s_want = L.xr_to_py(c["want"])
        s_impl = L.xr_to_py(c["impl"])
        p = L.py_eval(op, a, b)
        m = L.mirror_impl(op, a, b)
        if s_want is not None and L.obs_of(s_want) != p:
            rep.spec_drift("XReal.Ref vs CPython", {"op": op, "a": L.fhex(a), "b": None if b is None else L.fhex(b), "spec": L.obs_of(s_want), "python": p})
        if s_impl is not None and L.obs_of(s_impl) != m:
            rep.spec_drift("XReal.Impl vs its Python mirror", {"op": op, "a": L.fhex(a), "b": None if b is None else L.fhex(b), "spec": L.obs_of(s_impl), "mirror": m})
        cause = L.deviation_cause(op, a, b) if b is not None else None
        if s_want is not None and s_impl is not None and bool(c["hazard"]) != (cause is not None):
            rep.spec_drift("XReal hazard flag vs mirror", {"op": op, "a": L.fhex(a), "b": L.fhex(b), "hazard": c["hazard"], "cause": cause})
        n_ix += s_want is None
        n_hz += bool(c["hazard"])
        opcount[op] = opcount.get(op, 0) + 1
        for fn, form, args in forms_for(op, a, b):
            otable.append([fn] + args)
            ometa.append(({"part": "ops", "src": "grid", "op": op, "form": form, "a": L.fclass(a), "b": "-" if b is None else L.fclass(b),
                           "want": L.oclass(p), "decided_by_spec": s_want is not None,
                           "model": "deviates" if cause else "agrees", "cause": cause or "-"}, p, m,
                          {"a": L.fhex(a), "b": None if b is None else L.fhex(b)}))
    if len(cells) != xr.distinct or n_hz < 20 or len(opcount) != 15 or min(opcount.values()) < 10:
        core.die("vacuous / incomplete XReal run: %d cells, %d states, %d hazards, ops %r" % (len(cells), xr.distinct, n_hz, opcount))
    n_grid_calls = len(otable)

    # ---- operators: special and random doubles (not decided by the spec: compiled code vs CPython)
    fi = sys.float_info
    special = [0.0, -0.0, math.inf, -math.inf, math.nan, 5e-324, -5e-324, fi.max, -fi.max, fi.min, -fi.min, 1.0, -1.0, 0.1, -0.1, 0.3,
               1e308, -1e308, 2.0 ** 53, 2.0 ** 53 + 2, -(2.0 ** 63), 2.0 ** 63, 2.0 ** 31, 1e16, 4503599627370496.5, 0.49999999999999994,
               -0.49999999999999994, 2.5, -2.5, 1e-320, 9007199254740993.0, 1.7976931348623157e308 / 3]
    pairs = [(x, y) for x in special for y in special]
    n_rand = 1500 if tier == "quick" else 40000

    def rnd_double():
        k = rng.random()
        if k < 0.5:
            return struct.unpack("<d", struct.pack("<Q", rng.getrandbits(64)))[0]
        if k < 0.8:
            return rng.choice((-1, 1)) * rng.uniform(0, 10) * 10.0 ** rng.randint(-5, 5)
        return float(rng.randint(-50, 50)) * rng.choice((0.1, 0.25, 0.3, 1.0, 0.7, 1e-3))
    for _ in range(n_rand):
        x = rnd_double()
        k = rng.random()
        if k < 0.5:
            y = rnd_double()
        elif k < 0.8:
            y = rng.choice((0.1, 0.3, 0.7, 1e-3, -0.1, 0.01, 1.1))          # a = n * y: quotients next to integers
            x = rng.randint(-200, 200) * y
        else:
            y = x * rng.choice((2.0, -2.0, 0.5, 3.0, 1.0, -1.0, 1e-300, 1e300))
        pairs.append((x, y))
    unary_vals = special + [rnd_double() for _ in range(n_rand // 3)] + [k + 0.5 for k in range(-6, 7)]
    for op in ARITH + CMPS:
        for x, y in pairs:
            p, m = L.py_eval(op, x, y), L.mirror_impl(op, x, y)
            cause = L.deviation_cause(op, x, y)
            for fn, form, args in forms_for(op, x, y):
                if form in ("loc", "cdef") or (form == "ip" and op not in DIVS):
                    continue
                otable.append([fn] + args)
                ometa.append(({"part": "ops", "src": "special-random", "op": op, "form": form, "a": L.fclass(x), "b": L.fclass(y),
                               "want": L.oclass(p), "decided_by_spec": False, "model": "deviates" if cause else "agrees", "cause": cause or "-"},
                              p, m, {"a": L.fhex(x), "b": L.fhex(y)}))
    for op in ("neg", "int", "round"):
        for x in unary_vals:
            p = L.py_eval(op, x)
            for fn, form, args in forms_for(op, x, None):
                otable.append([fn] + args)
                ometa.append(({"part": "ops", "src": "special-random", "op": op, "form": form, "a": L.fclass(x), "b": "-", "want": L.oclass(p),
                               "decided_by_spec": False, "model": "agrees", "cause": "-"}, p, p, {"a": L.fhex(x)}))
    oobs = L.run_table(bops, otable, "ops", timeout=1500)
    n_ops_bad = 0
    dev_seen = {}
    for (desc, want, mv, detail), got, call in zip(ometa, oobs, otable):
        oc = None if is_skip(got) else judge_op(want, got, mv)
        if desc["model"] == "deviates":
            dev_seen[desc["cause"]] = dev_seen.get(desc["cause"], 0) + 1
        if oc:
            n_ops_bad += 1
            rep.disagree(desc, oc, dict(detail, function=call[0], want=want, got=got, model=mv))
    # binding demonstration (operators)
    z_idx = [i for i, m in enumerate(ometa) if m[1] in ("f:0x0.0p+0", "f:-0x0.0p+0") and oobs[i] == m[1]][:100]
    e_idx = [i for i, m in enumerate(ometa) if m[1].startswith("E:") and oobs[i] == m[1]][:100]
    if len(z_idx) < 20 or len(e_idx) < 20:
        core.die("binding self-test: too few agreeing operator cases")
    for i in z_idx:
        flipped = "f:-0x0.0p+0" if ometa[i][1] == "f:0x0.0p+0" else "f:0x0.0p+0"
        if judge_op(flipped, oobs[i], None) != "wrong-zero-sign":
            core.die("binding self-test failed (zero sign, %r)" % (otable[i],))
    for i in e_idx:
        if judge_op("f:nan", oobs[i], None) is None or judge_op("E:KeyError", oobs[i], None) is None:
            core.die("binding self-test failed (exception, %r)" % (otable[i],))

    # ---- evidence
    nontriv_parse = nontriv[0]
    nontriv_ops = len({json.dumps(c) for c, m in zip(otable, ometa) if not all(a[1] in ("0x0.0p+0", "0x1.0000000000000p+0") for a in c[1:])})
    samp = keep["samples"][:3]
    samp += [{"call": otable[i], "want": ometa[i][1], "got": oobs[i]} for i in rng.sample(range(len(otable)), 3)]
    cov.update({
        "states": fp.generated + xr.generated, "distinct_states": fp.distinct + xr.distinct, "transitions": fp.generated + xr.generated,
        "traces_validated_against_impl": stats["calls"] + len(otable), "evaluations": stats["calls"] + len(otable),
        "distinct_nontrivial": nontriv_parse + nontriv_ops, "exhaustive": True,
        "parse": dict(stats, families=fams, records=len(recs), accepted_by_kind=kinds),
        "ops": {"grid_cells": len(cells), "grid_cells_not_decided_by_spec": n_ix, "grid_cells_where_transcription_deviates": n_hz,
                "grid_calls": n_grid_calls, "special_random_calls_vs_cpython_only": len(otable) - n_grid_calls,
                "calls_in_deviating_cells_by_cause": dev_seen, "disagreements": n_ops_bad},
        "rule": "parse: every symbol string of the families %s (exhaustive up to the family length, both modes where the alphabet has non-ASCII "
                "classes) + generated long strings, each instantiated with canonical and seeded random class representatives, on str / bytes / "
                "bytearray / object typed float(); ops: every XReal grid cell x every compiled form, + special and random doubles against CPython; "
                "non-trivial = distinct call whose string has >= 2 symbols incl. a digit or letter, resp. whose operands are not all in {0.0, 1.0}" % fams,
        "samples": samp,
    })
    rc = rep.finish()
    cov["known_findings"] = rep.kf_summary()
    core.write_evidence(PROP, tier, seed, "model_checking", cov, time.time() - t0,
                        assumptions=["character classes of the spec are represented by the members listed in lib_cdouble (checked against str.isspace / "
                                     "unicodedata of the running CPython)",
                                     "the expected double of an accepted string is the correctly rounded value of the spec's decimal denotation "
                                     "(exact rationals); CPython float() is the drift guard",
                                     "inexact floating-point results are not decided by the TLA+ model: special/random doubles are compared with "
                                     "CPython's float arithmetic only; the sign of a NaN is not observed",
                                     "cdivision=True variants are outside the property (C semantics by request)"],
                        violations=rep.n_violations())
    return rc


def replay(path, seed):
    """Re-execute the cases of a replay file on freshly built modules; exit 1 while any still disagrees."""
    with open(path) as f:
        rec = json.load(f)
    core.scratch(); core.subdir("build"); core.snapshot()
    bparse, bops = core.build_many([core.BuildSpec("c06parse", PARSE_SRC), core.BuildSpec("c06ops", ops_source())], None, 2)
    if not (bparse.ok and bops.ok):
        print("build failed: %s" % ((bparse.errors or "") + (bops.errors or ""))[-2000:])
        return 1
    bad = 0
    for case in rec["cases"]:
        fn = case["function"]
        if rec["descriptor"]["part"] == "ops":
            args = [["f", case["a"]]] + ([["f", case["b"]]] if case.get("b") is not None else [])
            if fn.split("_")[1] == "k":
                args = args[:1]
            elif fn.split("_")[1] == "kl":
                args = args[1:]
            got = L.run_table(bops, [[fn] + args], "replay")[0]
        else:
            arg = case["input"] if "input" in case else ([case["as"], case["input_hex"]] if "input_hex" in case else ["py", case["arg"]])
            got = L.run_table(bparse, [[fn, arg]], "replay")[0]
        print("%s(%s): want %s, got %s%s" % (fn, json.dumps({k: case[k] for k in ("input", "input_hex", "a", "b", "arg") if k in case}),
                                              case["want"], got, "" if got == case["want"] else "   <-- disagrees"))
        bad += got != case["want"]
    return 1 if bad else 0
