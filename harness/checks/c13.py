"""C13 — builtin call and method optimisations preserve semantics.

spec/Builtins.tla: reference semantics (guarded branches per call shape) of ~110 call shapes on a
Python value model (exact types, plain and overriding subclasses, None, unhashable keys, str kinds
1/2/4, indices outside Py_ssize_t).  TLC: one state per (shape, arguments); invariants Functional
(exactly one branch applies), WellFormed, Laws (declarative laws between the operators).
Exceptions that carry data of the call (KeyError(key) of failing lookups) publish their arguments; key pools contain the
classes PyErr_SetObject treats differently (None, tuples, exception instances); KeyLaw ties them to the reference.
Binding B1: every published case is executed on compiled code in all variants of the shape whose
declared parameter types admit the arguments (untyped, builtin-typed receiver, C-typed arguments,
literal arguments), and on the same source run by CPython (P).  S != P -> spec drift; C != S -> verdict.
B3 (reported only): which generated functions contain no generic attribute lookup / builtin lookup.
"""
import collections
import json
import os
import random
import re
import sys
import time

import calls
import core
import lib_builtins as L

PROP = "C13"
ALL_GROUPS = ["num", "pred", "ctor", "dict", "list", "set", "bytearray", "str", "ucs4"]
NO_EXC_SHAPES = {"bool", "isinstance", "str"}      # shapes whose reference never raises on the modelled domain
KEYED_SHAPES = {"d_pop1", "l_pop1", "d_getitem", "d_delitem", "s_remove"}      # failing lookups raise KeyError(key): the key is compared
KEY_CLASSES = {"none", "tuple", "exc", "plain"}


def argclass(v, scaled):
    tag, sub, p = v
    if tag == "big":
        return "big%d" % abs(p)
    if tag == "int" and scaled and p == -128:
        return "int_min"
    if tag in ("fnan", "finf", "fnz"):
        return "float"
    if tag == "types":
        return "type"
    if tag == "exc":
        return "exc_" + p[0] + ("_" + sub if sub else "")
    return tag + ("_" + sub if sub else "")


def norm_value(v):
    """spec JSON -> lib representation (types/tuple-of-types)"""
    tag, sub, p = v
    if tag == "type":
        return ["type", "", p[0]]
    if tag == "types":
        return ["type", "", list(p)]
    if tag in ("list", "tuple", "set", "frozenset"):
        return [tag, sub, [norm_value(x) for x in p]]
    if tag == "dict":
        return [tag, sub, [[norm_value(k), norm_value(x)] for k, x in p]]
    if tag == "exc":
        return [tag, sub, [p[0], norm_value(p[1])]]
    return [tag, sub, p]


def expected_obs(case, mut, w):
    o = case["o"]
    if o[0] == "v":
        out = ["v", L.canon_of_spec(case["ov"], w)]
    elif case["eargs"] is not None:      # the exception carries data of the call (KeyError(key)): part of the observation
        out = ["e", o[1], [L.canon_of_spec(x, w) for x in case["eargs"]]]
    else:
        out = ["e", o[1]]
    post = None
    if mut:
        post = "ANY" if case["post"][0] == "any" else L.canon_of_spec(case["post"], w)
    return [out, post]


def obs_class(want, got):
    if not isinstance(got, list):
        return "crash" if isinstance(got, str) and (got.startswith("CRASH") or got == "TIMEOUT") else "driver:" + str(got)[:40]
    if not same_outcome(want[0], got[0]):
        if got[0][0] == "e":
            if want[0][0] == "e" and got[0][1] == want[0][1]:
                return "exception-args"
            return "exception:" + got[0][1]
        return "value-for-exception" if want[0][0] == "e" else "wrong-value"
    return "wrong-post"


def same_outcome(w, g):
    """exceptions: the type always, the arguments where the spec models them (the child always reports them)"""
    if not isinstance(g, list) or not g:
        return False
    if w[0] == "e":
        if g[0] != "e" or len(g) < 2 or g[1] != w[1]:
            return False
        return len(w) < 3 or (len(g) >= 3 and g[2] == w[2])
    return g == w


def same(want, got):
    if not isinstance(got, list) or len(got) != 2 or not same_outcome(want[0], got[0]):
        return False
    return want[1] == "ANY" or got[1] == want[1]


def tlc_cases(tier, cov):
    runs = [("Builtins_quick", 900)] if tier == "quick" else [("Builtins_t_%s" % g, 2400) for g in ("a", "b", "c")]
    cases = []
    import concurrent.futures
    nw = max(2, min(core.NCPU, 8) // len(runs))
    with concurrent.futures.ThreadPoolExecutor(max_workers=len(runs)) as ex:
        def one(ict):
            time.sleep(0.7 * ict[0])      # core.tlc derives its scratch directory from the clock
            return core.tlc("Builtins", cfg=ict[1][0], timeout=ict[1][1], workers=nw)
        results = list(ex.map(one, enumerate(runs)))
    for (cfg, to), r in zip(runs, results):
        if not r.ok:
            sys.stderr.write(r.out[-6000:])
            core.die("TLC failed (%s): %s" % (r.violation or r.rc, r.cmd))
        cov["tlc"].append(dict(r.summary(), config=cfg, violation=r.violation))
        for rec in r.printed:
            cases.append({"shape": rec["shape"], "args": [norm_value(a) for a in rec["args"]], "o": rec["o"], "kc": rec.get("kc", ""),
                          "eargs": [norm_value(x) for x in rec["o"][2][1]] if rec["o"][0] == "e" and rec["o"][2][0] == "args" else None,
                          "ov": norm_value(rec["o"][1]) if rec["o"][0] == "v" else None,
                          "post": norm_value(rec["post"]) if rec["post"][0] != "any" else ["any", "", 0]})
    return cases


LIT_CAP = {"quick": 3, "thorough": 12}      # literal-argument combinations replayed per (shape, variant)


def plan_calls(cases, tier, rng):
    """-> funcs {fname: pyx source}, pfuncs {pname: python source}, plan [(case index, fname, pname, argsrc, w, vtag, lits)],
    quarantine: functions with a literal None argument (built apart: some are rejected by the C compiler)"""
    # literal variants: one function per combination of literal values; the quick tier keeps a seeded subset
    combos = collections.defaultdict(dict)
    for c in cases:
        sh = L.SHAPE.get(c["shape"])
        if sh is None:
            core.die("shape %r published by the spec is unknown to lib_builtins" % c["shape"])
        for vtag, decl, lits in sh.variants:
            if lits and L.lit_admissible(sh, lits, c["args"]):
                key = L.lit_key(sh, lits, c["args"])
                combos[(sh.name, vtag)].setdefault(key, any(c["args"][sh.params.index(p)][0] == "None" for p in lits))
    keep = {}
    for sv, keys in combos.items():
        names = sorted(keys)
        cap = LIT_CAP[tier]
        if len(names) > cap:
            with_none = [k for k in names if keys[k]]
            rng.shuffle(with_none)
            rest = [k for k in names if not keys[k]]
            rng.shuffle(rest)
            chosen = with_none[:max(2, cap // 3)]
            chosen += rest[:cap - len(chosen)]
            keep[sv] = set(chosen)
        else:
            keep[sv] = set(names)
    funcs, pfuncs, plan, quarantine = {}, {}, [], set()
    for ci, c in enumerate(cases):
        sh = L.SHAPE[c["shape"]]
        args = c["args"]
        for vtag, decl, lits in sh.variants:
            if not L.lit_admissible(sh, lits, args):
                continue
            if lits and L.lit_key(sh, lits, args) not in keep[(sh.name, vtag)]:
                continue
            if sh.scaled:
                bits = {L.CINT_BITS[d] for d in decl.values() if d in L.CINT_BITS}
                ws = [min(bits)] if bits else ([None] if lits else [None, 32, 64])
            else:
                ws = [None]
            for w in ws:
                if not all(L.admits(decl.get(p), args[i], w) for i, p in enumerate(sh.params) if p not in lits):
                    continue
                if w == 64 and any(a[0] == "big" and abs(a[2]) == 2 for a in args) and \
                        any(a[0] == "int" and abs(a[2]) > 100 for a in args):
                    continue    # 2**32+65 lies above the 8-bit images in the model but below their 64-bit realisation
                fn = L.func_name(sh, vtag, lits, args)
                pn = "P_%s%s" % (sh.name, L.lit_key(sh, lits, args))
                if fn not in funcs:
                    funcs[fn] = L.func_source(sh, vtag, decl, lits, args, False)
                    if any(args[sh.params.index(p)][0] == "None" for p in lits):
                        quarantine.add(fn)
                if pn not in pfuncs:
                    pfuncs[pn] = L.func_source(sh, vtag, decl, lits, args, True).replace(
                        "def P_" + fn, "def " + pn, 1)
                cargs = [a for a, p in zip(args, sh.params) if p not in lits]
                argsrc = "(" + "".join(L.pyexpr(a, w) + ", " for a in cargs) + ")"
                plan.append((ci, fn, pn, argsrc, w, vtag, lits))
    return funcs, pfuncs, plan, quarantine


def descriptor(case, sh, vtag, lits, w):
    args = case["args"]
    d = {"shape": sh.name, "group": sh.group, "variant": vtag, "typed": vtag != "u" and vtag != "uk",
         "recv": argclass(args[0], sh.scaled),
         "args": ",".join(argclass(a, sh.scaled) for a in args[1:]),
         "expect": case["o"][1] if case["o"][0] == "e" else "value",
         "lit_none": any(args[sh.params.index(p)][0] == "None" for p in lits),
         "big1": ",".join(p for p, a in zip(sh.params, args) if a[0] == "big" and abs(a[2]) == 1),
         "big2": ",".join(p for p, a in zip(sh.params, args) if a[0] == "big" and abs(a[2]) == 2),
         "none_args": ",".join(p for p, a in zip(sh.params[1:], args[1:]) if a[0] == "None"),
         "float_args": ",".join(p for p, a in zip(sh.params, args) if a[0] in ("float", "fnan", "finf", "fnz")),
         "int_min": any(argclass(a, sh.scaled) == "int_min" for a in args),
         "key_class": case["kc"]}
    if w:
        d["width"] = w
    return d


def specialised(c_src, modname, fname):
    """B3 (coarse): the body of the generated function has no generic attribute / builtin lookup."""
    m = re.search(r"static PyObject \*__pyx_pf_\d+%s_\d*%s\([^;{]*\) \{\n.*?\n\}\n" % (re.escape(modname), re.escape(fname)), c_src, re.S)
    if not m:
        return None
    body = m.group(0)
    return not re.search(r"__Pyx_PyObject_GetAttrStr|__Pyx_GetBuiltinName|__pyx_builtin_|__Pyx_PyObject_CallMethod|__Pyx_GetModuleGlobalName", body)


def run(tier, seed):
    t0 = time.time()
    rng = random.Random(seed)
    rep = core.Reporter(PROP)
    cov = {"tlc": []}
    dev = bool(os.environ.get("C13_DEV"))
    jobs = 4 if dev else None

    cases = tlc_cases(tier, cov)
    if len(cases) < 3000:
        core.die("Builtins published only %d cases" % len(cases))
    # ---- vacuity guard on the model: every shape has value outcomes and (where it can raise) exceptions
    classes = collections.Counter()
    per_shape = collections.defaultdict(set)
    for c in cases:
        k = "v" if c["o"][0] == "v" else c["o"][1]
        classes["%s:%s" % (c["shape"], k)] += 1
        per_shape[c["shape"]].add(k)
    want_shapes = {s.name for s in L.SHAPES}
    missing = want_shapes - set(per_shape)
    if missing:
        core.die("vacuity: shapes without cases: %s" % sorted(missing))
    for s, ks in per_shape.items():
        if "v" not in ks or (len(ks) < 2 and s not in NO_EXC_SHAPES):
            core.die("vacuity: shape %s has outcome classes %s only" % (s, sorted(ks)))
    # exceptions that carry the key: every such shape must be exercised with all classes of keys that the C-level raise
    # treats differently (None, tuples, instances of the exception class, anything else)
    keyed = collections.defaultdict(collections.Counter)
    for c in cases:
        if c["kc"]:
            keyed[c["shape"]][c["kc"]] += 1
    if set(keyed) != KEYED_SHAPES:
        core.die("vacuity: shapes with KeyError(key) outcomes are %s, expected %s" % (sorted(keyed), sorted(KEYED_SHAPES)))
    for s, kcs in keyed.items():
        if set(kcs) != KEY_CLASSES:
            core.die("vacuity: shape %s raises KeyError(key) for the key classes %s only" % (s, sorted(kcs)))
    cov["keyed_exception_cases"] = {s: dict(sorted(k.items())) for s, k in sorted(keyed.items())}

    only = os.environ.get("C13_ONLY")        # development aid: restrict the replay (not the model) to some shape groups
    if only:
        cases = [c for c in cases if L.SHAPE[c["shape"]].group in only.split(",")]

    def tick(what):
        if dev:
            sys.stderr.write("[c13 %6.1fs] %s\n" % (time.time() - t0, what))
    tick("tlc done: %d cases" % len(cases))
    funcs, pfuncs, plan, quarantine = plan_calls(cases, tier, rng)
    tick("planned %d functions, %d calls" % (len(funcs), len(plan)))
    nmod = 12 if tier == "quick" else 24
    mods, rejected = L.build_functions(core, funcs, nmod, jobs, "c13", quarantine=quarantine)
    if mods is None:
        rep.disagree({"part": "build"}, "build-failed", rejected)
        rc = rep.finish()
        core.write_evidence(PROP, tier, seed, "model_checking", {"evaluations": 1, "distinct_nontrivial": 0, "states": len(cases),
                            "transitions": len(cases), "traces_validated_against_impl": 0, "samples": [str(rejected)[:500]]},
                            time.time() - t0, violations=1)
        return rc
    tick("built, %d rejected" % len(rejected))
    where = {}
    for mi, (b, names) in enumerate(mods):
        for n in names:
            where[n] = mi
    # ---- run: per module one child for C (crash isolation), P in a separate child on the pure functions
    by_mod = collections.defaultdict(list)
    for k, p in enumerate(plan):
        if p[1] in where:
            by_mod[where[p[1]]].append(k)
    obsC = [None] * len(plan)
    obsP = [None] * len(plan)
    pkey = {}
    pcalls = []
    for k, (ci, fn, pn, argsrc, w, vtag, lits) in enumerate(plan):
        key = (pn, argsrc)
        if key not in pkey:
            pkey[key] = len(pcalls)
            pcalls.append(["run", [pn, argsrc, L.SHAPE[cases[ci]["shape"]].mut]])
    b0 = mods[0][0]
    pprelude = L.PRELUDE + "\n" + "\n".join(pfuncs[n] for n in sorted(pfuncs))
    pobs = calls.run_calls(b0, pcalls, prelude=pprelude, timeout=1800, tag="P")
    tick("cpython oracle: %d calls" % len(pcalls))
    for k, p in enumerate(plan):
        o = pobs[pkey[(p[2], p[3])]]
        try:
            obsP[k] = json.loads(o) if isinstance(o, str) and o.startswith("[") else o
        except ValueError:
            obsP[k] = o
    spec_count = {}

    def run_module(mi):
        b, names = mods[mi]
        ks = by_mod.get(mi, [])
        # a typed receiver holding None may reach C code without a None check: flush before such calls so that a
        # crash is attributed to the right call
        cl = [["run", [plan[k][1], plan[k][3], L.SHAPE[cases[plan[k][0]]["shape"]].mut],
               plan[k][5] not in ("u", "uk") and cases[plan[k][0]]["args"][0][0] == "None"] for k in ks]
        obs = calls.run_calls(b, cl, prelude=L.PRELUDE, timeout=1800, tag="C") if cl else []
        res = []
        for o in obs:
            try:
                res.append(json.loads(o) if isinstance(o, str) and o.startswith("[") else o)
            except ValueError:
                res.append(o)
        sc = {}
        try:
            csrc = open(b.c_file).read()
            for n in names:
                sc[n] = specialised(csrc, b.name, n)
        except (OSError, TypeError):
            pass
        return ks, res, sc

    import concurrent.futures
    with concurrent.futures.ThreadPoolExecutor(max_workers=jobs or 8) as ex:
        for ks, res, sc in ex.map(run_module, range(len(mods))):
            for k, o in zip(ks, res):
                obsC[k] = o
            spec_count.update(sc)
    tick("compiled calls done")
    # ---- verdicts
    n_eval = n_ok = 0
    distinct = set()
    rej_seen = set()
    samples = []
    agree_idx = []
    for k, (ci, fn, pn, argsrc, w, vtag, lits) in enumerate(plan):
        case = cases[ci]
        sh = L.SHAPE[case["shape"]]
        want = expected_obs(case, sh.mut, w)
        p = obsP[k]
        if not same(want, p):
            rep.spec_drift("Builtins.Ref vs CPython", {"shape": sh.name, "args": argsrc, "width": w, "spec": want, "cpython": p,
                                                         "source": pfuncs[pn]})
            continue
        desc = descriptor(case, sh, vtag, lits, w)
        n_eval += 1
        if fn in rejected:
            r = rejected[fn]
            rep.disagree(desc, "%s-failed" % r["stage"], {"function": funcs[fn], "error": r["error"], "args": argsrc, "want": want})
            rej_seen.add(fn)
            continue
        got = obsC[k]
        if same(want, got):
            n_ok += 1
            agree_idx.append(k)
            if want[0][0] == "e" or case["args"][0][0] != "None":
                distinct.add((fn, argsrc))
            if len(samples) < 4 and rng.random() < 0.001:
                samples.append({"function": funcs[fn], "args": argsrc, "spec": want, "compiled": got})
        else:
            rep.disagree(desc, obs_class(want, got), {"function": funcs[fn], "args": argsrc, "want": want, "got": got, "cpython": p})
    # ---- binding demonstration: corrupted expectations must be rejected
    corrupted = rejected_n = keyed_corrupted = 0
    keyed_idx = [k for k in agree_idx if cases[plan[k][0]]["kc"]]
    for k in core.sample(keyed_idx, 40, rng) + core.sample(agree_idx, 200, rng):
        ci, fn, pn, argsrc, w, vtag, lits = plan[k]
        want = expected_obs(cases[ci], L.SHAPE[cases[ci]["shape"]].mut, w)
        bad = json.loads(json.dumps(want))
        if bad[0][0] == "e" and len(bad[0]) > 2 and corrupted % 2:
            bad[0][2] = [] if bad[0][2] else [["None"]]          # KeyError(key) -> KeyError() / KeyError(None)
            keyed_corrupted += 1
        elif bad[0][0] == "e":
            bad[0][1] = "KeyError" if bad[0][1] != "KeyError" else "TypeError"
        else:
            bad[0] = ["v", ["int", "12345"]] if bad[0][1] != ["int", "12345"] else ["v", ["None"]]
        corrupted += 1
        if not same(bad, obsC[k]):
            rejected_n += 1
    if corrupted < 50 or rejected_n != corrupted or (keyed_idx and not keyed_corrupted):
        core.die("binding self-test failed: %d corrupted expectations, %d rejected" % (corrupted, rejected_n))
    if not samples and agree_idx:
        k = agree_idx[0]
        samples.append({"function": funcs[plan[k][1]], "args": plan[k][3], "compiled": obsC[k]})

    nspec = sum(1 for v in spec_count.values() if v)
    cov.update({
        "states": sum(t["states_generated"] for t in cov["tlc"]), "distinct_states": sum(t["distinct_states"] for t in cov["tlc"]),
        "transitions": sum(t["states_generated"] for t in cov["tlc"]),
        "model_cases": len(cases), "model_outcome_classes": dict(sorted(classes.items())),
        "traces_validated_against_impl": n_eval, "evaluations": n_eval, "agreeing": n_ok,
        "distinct_nontrivial": len(distinct),
        "functions_built": len(where), "functions_rejected_by_compilers": len(rejected),
        "functions_without_generic_lookup": nspec, "functions_inspected": len(spec_count),
        "cpython_evaluations": len(pcalls),
        "binding_selftest": {"corrupted": corrupted, "rejected": rejected_n, "exception_args_corrupted": keyed_corrupted},
        "rule": "every case published by TLC x every variant of its shape admitting the arguments (scaled shapes: realisations "
                "for 32/64-bit types); compared: result value incl. exact type, exception type, exception arguments where they are data of the call "
                "(KeyError(key) of failing lookups), receiver after the call; "
                "non-trivial = distinct (function, arguments) that agree and are not a plain call on a None receiver returning a value",
        "samples": samples[:5],
    })
    if dev and os.path.isdir("/var/tmp/agent_C13"):
        with open("/var/tmp/agent_C13/last_run.json", "w") as f:
            json.dump({"drift": rep.drift, "violations": rep.violations, "kf": {k: v[:20] for k, v in rep.kf_hits.items()}}, f, default=str)
    rc = rep.finish()
    cov["known_findings"] = rep.kf_summary()
    core.write_evidence(PROP, tier, seed, "model_checking", cov, time.time() - t0,
                        assumptions=["integers outside 32 bits travel as symbols (2**70, 2**32+65); C-typed abs/min/max are decided on "
                                     "8-bit images embedded monotonically into the real type (the embedding commutes with the operators)",
                                     "floats are quarters plus nan/inf/-0.0; set arguments have at most one element where iteration "
                                     "order would be observable",
                                     "typed parameters only receive values of their declared domain (exact builtin type or None)",
                                     "character properties: table of 19 code points read off CPython's Unicode database"],
                        violations=rep.n_violations())
    return rc


def replay(path, seed):
    """Re-execute the cases of one replay file: build the recorded functions and compare with the recorded expectation."""
    with open(path) as f:
        rec = json.load(f)
    cases = [c for c in rec.get("cases", []) if isinstance(c, dict) and c.get("function") and "args" in c]
    if not cases:
        core.die("replay file has no executable cases (build failure?): %s" % path)
    funcs = {}
    for c in cases:
        m = re.match(r"def (\w+)\(", c["function"])
        funcs[m.group(1)] = c["function"]
    mods, rejected = L.build_functions(core, funcs, 1, 1, "c13r")
    bad = 0
    for n, r in rejected.items():
        print("rejected by %s: %s: %s" % (r["stage"], n, r["error"][:200]))
        bad += 1
    if mods:
        b, names = mods[0]
        todo = [c for c in cases if re.match(r"def (\w+)\(", c["function"]).group(1) in names]
        cl = [["run", [re.match(r"def (\w+)\(", c["function"]).group(1), c["args"], c["want"][1] is not None]] for c in todo]
        obs = calls.run_calls(b, cl, prelude=L.PRELUDE, timeout=600, tag="R")
        for c, o in zip(todo, obs):
            try:
                got = json.loads(o) if isinstance(o, str) and o.startswith("[") else o
            except ValueError:
                got = o
            ok = same(c["want"], got)
            print("%s args=%s want=%s got=%s %s" % (re.match(r"def (\w+)\(", c["function"]).group(1), c["args"], json.dumps(c["want"]),
                                                     json.dumps(got), "ok" if ok else "DIFFERS"))
            bad += 0 if ok else 1
    return 1 if bad else 0
