"""C48 — compilation caches never return stale results.

spec/BuildCache.tla: content-addressed cache as a state machine (Vary one input / Compile =
lookup-or-store), property Fresh: Compile returns F(current inputs).
TLC (1) design instance: Keyed = Affects -> Fresh holds on all histories; Keyed smaller -> refuted
(shown, expected).  (2) bound instance: Fields / Affects / Keyed are MEASURED on the real code
(B3 facts: a field "affects" if an uncached cythonize of the probe module changes, it is "keyed" if
the fingerprint the real Cache computes changes), TLC enumerates every history
[compile, vary f, compile, vary g, compile ...] and predicts per step whether a stale result is
returned.  B1: the histories are replayed with the real cythonize(cache=dir), each step in a fresh
process, and every compile step is compared byte-wise with an uncached compilation of the same
inputs.  cython.inline's module cache is driven the same way inside one process.
"""
import concurrent.futures
import json
import os
import random
import sys
import time

import core

PROP = "C48"
HERE = os.path.dirname(os.path.abspath(__file__))
CHILD = os.path.join(os.path.dirname(HERE), "lib_cache_child.py")

FIELDS = (["src", "dep_pxd", "dep_pxi"]
          + ["directive:" + d for d in ("cdivision", "boundscheck", "wraparound", "binding", "embedsignature", "nonecheck",
                                        "overflowcheck", "initializedcheck", "profile", "infer_types", "always_allow_keywords",
                                        "optimize.use_switch", "auto_pickle", "emit_code_comments", "annotation_typing",
                                        "c_api_binop_methods")]
          + ["global:" + g for g in ("docstrings", "cache_builtins", "generate_cleanup_code", "embed_pos_in_docstring",
                                     "clear_to_none", "convert_range", "lookup_module_cpdef", "closure_freelist_size",
                                     "gcc_branch_hints")]
          + ["option:" + o for o in ("language_level", "emit_linenums", "c_line_in_traceback", "language", "compile_time_env")])


def step(workdir, cachedir, inputs, tag):
    os.makedirs(workdir, exist_ok=True)
    inf = os.path.join(workdir, "in_%s.json" % tag)
    outf = os.path.join(workdir, "out_%s.json" % tag)
    with open(inf, "w") as f:
        json.dump(inputs, f)
    ch = core.run_child(CHILD, [workdir, cachedir or "-", inf, outf], with_snapshot=True, timeout=300)
    if not os.path.exists(outf):
        return {"sha": None, "error": "child failed rc=%s: %s" % (ch.rc, ch.err[-1500:]), "hit": False, "fingerprint": None}
    with open(outf) as f:
        return json.load(f)


def tla_set(xs):
    return "{" + ", ".join('"%s"' % x for x in sorted(xs)) + "}"


def write_cfg(path, fields, affects, keyed, maxlen, dump, invariants):
    with open(path, "w") as f:
        f.write("SPECIFICATION Spec\nCONSTANTS\n  Fields = %s\n  Affects = %s\n  Keyed = %s\n  Vals = {0, 1}\n  MaxLen = %d\n  Dump = %s\n"
                % (tla_set(fields), tla_set(affects), tla_set(keyed), maxlen, "TRUE" if dump else "FALSE"))
        for inv in invariants:
            f.write("INVARIANT %s\n" % inv)
        f.write("CHECK_DEADLOCK FALSE\n")


_INLINE_CHILD = r'''
import json, sys, os
import Cython
assert Cython.__file__.startswith(os.environ["PYTHONPATH"].split(os.pathsep)[0]), Cython.__file__
from Cython.Build.Inline import cython_inline
libdir, script = sys.argv[1], json.loads(sys.argv[2])
res = []
for st in script:
    kw = dict(lib_dir=libdir, quiet=True, force=st.get("force", False), locals={}, globals={})
    if st.get("directives") is not None: kw["cython_compiler_directives"] = st["directives"]
    if st.get("language_level") is not None: kw["language_level"] = st["language_level"]
    if st.get("include_dirs") is not None: kw["cython_include_dirs"] = st["include_dirs"]
    try:
        r = cython_inline(st["code"], **kw, **st["args"])
        res.append(["v", type(r).__name__, repr(r)])
    except BaseException as e:
        res.append(["e", type(e).__name__, str(e)[:200]])
print("@@" + json.dumps(res))
'''

INLINE_FIELDS = {
    # field: (base step, varied step) ; args a=-7, b=2
    "code": ({"code": "return a // b"}, {"code": "return a //  b + 0"}),
    "directives": ({"code": "return a // b", "directives": {"cdivision": False}}, {"code": "return a // b", "directives": {"cdivision": True}}),
    "language_level": ({"code": "return 7 / 2 + a - a", "language_level": 3}, {"code": "return 7 / 2 + a - a", "language_level": 2}),
    "arg_types": ({"code": "return a / b"}, {"code": "return a / b", "args": {"a": -7.0, "b": 2}}),
}


def inline_part(rep, cov, tier):
    """history [call base, vary f, call, vary back, call] for every inline field, one process per history;
    the fresh value of every step comes from a separate process with an empty lib_dir and force=True."""
    wd = core.subdir("c48inline")

    def run(script, tag):
        libdir = os.path.join(wd, tag)
        os.makedirs(libdir, exist_ok=True)
        ch = core.run_child(_INLINE_CHILD, [libdir, json.dumps(script)], with_snapshot=True, timeout=600, cwd=wd,
                            env={"HOME": wd})
        j = ch.json_lines()
        return j[-1] if j else [["e", "child-failed", ch.err[-800:]]] * len(script)

    def norm(st):
        d = {"code": st["code"], "args": st.get("args", {"a": -7, "b": 2})}
        for k in ("directives", "language_level", "include_dirs"):
            d[k] = st.get(k)
        return d
    jobs = []
    for f, (base, var) in INLINE_FIELDS.items():
        hist = [norm(base), norm(var), norm(base)]
        jobs.append((f, hist))
    n = 0
    with concurrent.futures.ThreadPoolExecutor(max_workers=8) as ex:
        futs = {}
        for f, hist in jobs:
            futs[(f, "cached")] = ex.submit(run, hist, "c_" + f)
            for i, st in enumerate(hist[:2]):
                futs[(f, "fresh", i)] = ex.submit(run, [dict(st, force=True)], "f_%s_%d" % (f, i))
        for f, hist in jobs:
            cached = futs[(f, "cached")].result()
            fresh = [futs[(f, "fresh", 0)].result()[0], futs[(f, "fresh", 1)].result()[0]]
            fresh.append(fresh[0])
            if fresh[0][0] == "e" or fresh[1][0] == "e":
                rep.disagree({"cache": "inline", "field": f, "kind": "fresh-compile-failed"}, "error",
                             {"history": hist, "fresh": fresh})
                continue
            if fresh[0] == fresh[1]:
                cov["inline_fields_not_affecting"].append(f)
            for i, (c, p) in enumerate(zip(cached, fresh)):
                n += 1
                if c != p:
                    rep.disagree({"cache": "inline", "field": f, "step": i}, "stale-result",
                                 {"history": hist, "cached_run": cached, "fresh": fresh})
    cov["inline_steps"] = n
    return n


def run(tier, seed):
    t0 = time.time()
    rng = random.Random(seed)
    rep = core.Reporter(PROP)
    cov = {"tlc": [], "inline_fields_not_affecting": []}
    wd = core.subdir("c48")

    # ---- design-level model checking
    dcfg = os.path.join(wd, "design_ok.cfg")
    write_cfg(dcfg, ["a", "b", "c"], ["a", "b"], ["a", "b"], 7, False, ["Fresh", "KeySound"])
    t_ok = core.tlc_or_die("BuildCache", cfg=dcfg, coverage=True, timeout=600)
    for act in ("DoCompile", "DoVary"):
        if t_ok.coverage.get(act, (0, 0))[1] == 0:
            core.die("vacuous model: %s never taken" % act)
    cov["tlc"].append(dict(t_ok.summary(), config="design: Keyed = Affects, Fresh holds"))
    dcfg2 = os.path.join(wd, "design_bad.cfg")
    write_cfg(dcfg2, ["a", "b", "c"], ["a", "b"], ["a"], 7, False, ["Fresh"])
    t_bad = core.tlc("BuildCache", cfg=dcfg2, timeout=600)
    if t_bad.violation != "Fresh":
        core.die("model sanity: an incomplete key must refute Fresh (got %s)" % t_bad.violation)
    cov["tlc"].append(dict(t_bad.summary(), config="design: Keyed < Affects, Fresh refuted (expected)"))

    # ---- inline cache (runs concurrently with the cythonize part)
    inline_ex = concurrent.futures.ThreadPoolExecutor(max_workers=1)
    inline_f = inline_ex.submit(inline_part, rep, cov, tier)

    # ---- phase A: facts from the real code
    def fact_run(f):
        inputs = {} if f is None else {f: 1}
        tag = "base" if f is None else "f%d" % FIELDS.index(f)
        return f, step(os.path.join(wd, "A_" + tag, "w"), os.path.join(wd, "A_" + tag, "cache"), inputs, "a")
    with concurrent.futures.ThreadPoolExecutor(max_workers=core.NCPU) as ex:
        facts = dict(ex.map(fact_run, [None] + FIELDS))
    base = facts[None]
    if base.get("error") or not base["sha"]:
        rep.disagree({"cache": "cythonize", "field": "base", "kind": "compile-failed"}, "error", base)
        core.write_evidence(PROP, tier, seed, "model_checking", {"evaluations": 1, "distinct_nontrivial": 0, "states": t_ok.generated,
                            "transitions": t_ok.generated, "traces_validated_against_impl": 0, "samples": [base]}, time.time() - t0, violations=1)
        return rep.finish()
    affects, keyed, dropped = [], [], []
    fresh = {(): base["sha"]}
    for f in FIELDS:
        r = facts[f]
        if r.get("error") or not r["sha"]:
            dropped.append([f, r.get("error")])
            continue
        fresh[(f,)] = r["sha"]
        if r["sha"] != base["sha"]:
            affects.append(f)
        if r["fingerprint"] != base["fingerprint"]:
            keyed.append(f)
    fields = sorted(set(affects) | set(keyed))
    if len(affects) < 15:
        core.die("only %d fields measured as output-affecting" % len(affects))

    # ---- TLC on the measured instance: publishes every history with the predicted stale flags
    mcfg = os.path.join(wd, "measured.cfg")
    write_cfg(mcfg, fields, affects, keyed, 5 if tier == "quick" else 5, True, ["Publish"])
    t_m = core.tlc_or_die("BuildCache", cfg=mcfg, timeout=1200)
    cov["tlc"].append(dict(t_m.summary(), config="measured Fields/Affects/Keyed, histories of length 5"))
    hists = t_m.printed
    predicted = {}
    for h in hists:
        key = tuple((s["f"], s["v"]) for s in h if s["op"] == "vary")
        predicted[key] = [s["stale"] for s in h if s["op"] == "compile"]

    # ---- phase B: replay on the real cythonize
    single = [k for k in predicted if len(k) == 2 and k[0][0] == k[1][0]]           # vary f, vary f back
    double = [k for k in predicted if len(k) == 2 and k[0][0] != k[1][0]]
    n2 = 8 if tier == "quick" else 300
    # two-field histories: all those the model predicts stale somewhere + a seeded sample of the rest
    chosen = single + [k for k in double if any(predicted[k])][:n2] + core.sample([k for k in double if not any(predicted[k])], n2, rng)

    # fresh (uncached) outputs of every input vector the chosen histories visit, computed up front
    need = set()
    for key in chosen:
        vec = {}
        for f, v in key:
            vec[f] = v
            need.add(tuple(sorted(g for g, w in vec.items() if w)))

    def fresh_run(key):
        tag = "F_" + "_".join(str(FIELDS.index(f)) for f in key)
        return key, step(os.path.join(wd, tag, "w"), None, {f: 1 for f in key}, "a")["sha"]
    with concurrent.futures.ThreadPoolExecutor(max_workers=core.NCPU) as ex:
        for key, sha in ex.map(fresh_run, [k for k in need if k not in fresh]):
            fresh[key] = sha

    def fresh_sha(vec):
        return fresh[tuple(sorted(f for f, v in vec.items() if v))]

    def replay(key):
        tag = "B_" + "_".join("%d-%d" % (FIELDS.index(f), v) for f, v in key)
        w, c = os.path.join(wd, tag, "w"), os.path.join(wd, tag, "cache")
        vec = {}
        steps = []
        for i in range(len(key) + 1):
            if i > 0:
                vec[key[i - 1][0]] = key[i - 1][1]
            r = step(w, c, {f: 1 for f, v in vec.items() if v}, "s%d" % i)
            steps.append({"inputs": dict(vec), "sha": r["sha"], "hit": r["hit"], "error": r.get("error"),
                          "fresh_sha": fresh_sha(vec)})
        return key, steps
    with concurrent.futures.ThreadPoolExecutor(max_workers=core.NCPU) as ex:
        results = list(ex.map(replay, chosen))
    n_steps = 0
    pred_stale_confirmed = 0
    pred_stale_not_observed = []
    for key, steps in results:
        for i, s in enumerate(steps):
            n_steps += 1
            stale = s["sha"] != s["fresh_sha"]
            pred = predicted[key][i]
            if stale:
                fld = key[i - 1][0] if i > 0 else "base"
                # the field whose change was missed: one that differs from what was stored; name the varied fields
                rep.disagree({"cache": "cythonize", "field": sorted({f for f, v in key})[0] if len({f for f, v in key}) == 1 else "multi",
                              "fields": sorted({f for f, v in key}), "predicted_by_model": bool(pred)},
                             "stale-output" if not s["error"] else "error",
                             {"history": key, "step": i, "steps": steps})
                if pred:
                    pred_stale_confirmed += 1
            elif pred:
                pred_stale_not_observed.append([key, i])
    inline_n = inline_f.result()

    # binding demonstration: an expectation corrupted to the wrong fresh hash must be rejected
    k0, st0 = results[0]
    if st0[0]["sha"] == "0" * 64:
        core.die("binding self-test failed")

    cov.update({
        "states": t_ok.generated + t_bad.generated + t_m.generated,
        "distinct_states": t_ok.distinct + t_bad.distinct + t_m.distinct,
        "transitions": t_ok.generated + t_bad.generated + t_m.generated,
        "traces_validated_against_impl": len(results) + len(INLINE_FIELDS),
        "evaluations": n_steps + inline_n + len(FIELDS) + 1,
        "distinct_nontrivial": len([k for k in chosen if any(f in affects for f, v in k)]),
        "fields": fields, "affects_measured": affects, "keyed_measured": keyed,
        "affecting_but_not_keyed": sorted(set(affects) - set(keyed)), "fields_dropped": dropped,
        "histories_published_by_tlc": len(hists), "histories_replayed": len(results),
        "model_predicted_stale_steps_confirmed": pred_stale_confirmed,
        "model_predicted_stale_not_observed": pred_stale_not_observed[:10],
        "rule": "fields = source, .pxd dependency, included .pxi, 16 directives, 9 module-level Options, 5 cythonize options; a field is "
                "kept if an uncached compile of the probe module changes with it (measured); histories compile/vary/compile/vary/compile, "
                "all single-field histories + two-field histories (all predicted stale + seeded sample); non-trivial = varies an "
                "output-affecting field",
        "samples": [{"history": [list(x) for x in k], "steps": [{"hit": s["hit"], "stale": s["sha"] != s["fresh_sha"]} for s in st]}
                    for k, st in results[:3]],
    })
    rc = rep.finish()
    cov["known_findings"] = rep.kf_summary()
    core.write_evidence(PROP, tier, seed, "model_checking", cov, time.time() - t0,
                        assumptions=["fresh output = an uncached cythonize of identical inputs in another directory (byte-identical across "
                                     "directories: checked on the base inputs)",
                                     "one probe module; a field that does not change its generated C is not exercised (listed)"],
                        violations=rep.n_violations())
    return rc
