"""C05 -- Python object <-> C integer conversion is exact or raises.

spec/IntConv.tla: reference Ref(T, o) (integer value of an int / bool / int subclass / object with
__index__ when it fits T, OverflowError when it does not, TypeError otherwise; ToPy = identity) and an
implementation-shaped transcription of Cython/Utility/TypeConversion.c (CIntFromPy with its digit-count
branches, __PYX_VERIFY_RETURN_INT, the PyLong_As* tails, both forms of __Pyx_LargePyLong_,
__Pyx_PyNumber_Long, __Pyx_PyIndex_AsSsize_t, PyLong_AsSsize_t, CIntToPy) over SCALED constants.
TLC: impl = reference on every integer, C->Python identity, no UB, deviations on non-integers only through
the three modelled root causes (RootCause), every branch of the transcription taken (coverage of the 49
branch actions), NeverDeviates refuted (the model itself exhibits the nb_int / nb_index finding).
Binding B1: IntConv_pub publishes every case of the S = 7 image of the real LP64 / 30-bit-digit platform
as a *symbolic form* (+-2^(S*q [+S-1]) + d, type bound + d) with object kind, expected outcome, branch.
The harness evaluates the forms with the real constants (S = 30, widths read from the compiled module),
realises the object kinds (int, bool, int subclasses, __index__/__int__ objects, float, Decimal, Fraction,
bytearray, ...), and runs `def conv_T(T x)`, `cdef T x = o` and a bytes -> C -> Python function for 22
C integer types on three builds (default, -DCYTHON_USE_PYLONG_INTERNALS=0, -DCYTHON_LIMITED_API=1).
S = class of the scaled outcome, P = operator.index + range test on the real object (S != P: exit 2).
Wide/random witnesses (+-2^150, random bignums, fractional floats) have P and the reference rule only.
"""
import concurrent.futures
import json
import random
import sys
import time

import calls
import core
import lib_intconv as L

PROP = "C05"
E_OVF, E_TYPE, E_VALUE, E_BAD = 100000001, 100000002, 100000003, 100000004
ERRNAME = {E_OVF: "E:OverflowError", E_TYPE: "E:TypeError", E_VALUE: "E:ValueError"}
IMG = {3: 8, 5: 16, 9: 32, 16: 64, 30: 128}      # scaled width (S = 7) -> real bits
REAL_SHIFT = 30
#          name           cflags                               (internals, slots, chunks) of the model
CONFIGS = [("default", [], (True, True, False)),
           ("nointernals", ["-DCYTHON_USE_PYLONG_INTERNALS=0"], (False, True, False)),
           ("limited", ["-DCYTHON_LIMITED_API=1"], (False, False, True))]
BRANCHES = """u_neg u_neg_cmp u_compact u_join_long2 u_join_long3 u_join_long4 u_join_T2 u_join_T3 u_join_T4
u_api_long u_api_llong u_large s_compact sneg_join_long2 sneg_join_long3 sneg_join_long4 sneg_join_T2 sneg_join_T3
sneg_join_T4 spos_join_long2 spos_join_long3 spos_join_long4 spos_join_T2 spos_join_T3 spos_join_T4 s_api_int
s_api_long s_api_llong s_large np_value np_raise np_typeerror ss_zero ss_join1 ss_join2 ss_join3 ss_join4 ss_api
ss_index_value ss_index_typeerror cs_api cs_typeerror tp_u_long tp_u_ulong tp_u_ullong tp_u_bytes tp_s_long
tp_s_llong tp_s_bytes""".split()


def trange(bits, unsigned):
    return (0, (1 << bits) - 1) if unsigned else (-(1 << (bits - 1)), (1 << (bits - 1)) - 1)


def real_form_value(fm):
    if fm["f"] == "bit":
        return fm["sg"] * (1 << (REAL_SHIFT * fm["q"] + (REAL_SHIFT - 1 if fm["r"] else 0))) + fm["d"]
    lo, hi = trange(IMG[fm["tw"]], not fm["ts"])
    return (hi if fm["hi"] else lo) + fm["d"]


def realisations(kind, v):
    """model object kind -> [(source_kind, encoded argument)]"""
    s = str(v)
    if kind == "pylong":
        out = [("int", calls.ienc(v)), ("int-subclass", {"py": "MyInt(%s)" % s})]
        if v in (0, 1):
            out.append(("bool", bool(v)))
        return out
    if kind == "sublong_ov":
        return [("int-subclass-overriding", {"py": "MyIntOv(%s)" % s})]
    if kind == "index_only":
        return [("__index__-only", {"py": "IdxOnly(%s)" % s})]
    if kind == "nbint_only":
        out = [("__int__-only", {"py": "IntOnly(%s)" % s}), ("Decimal", {"py": "decimal.Decimal(%s)" % s}),
               ("Fraction", {"py": "fractions.Fraction(%s)" % s})]
        if abs(v) <= 2 ** 1000 and int(float(v)) == v:
            out.append(("float", calls.fenc(float(v))))
        return out
    if kind == "both_same":
        return [("__index__+__int__-same", {"py": "Both(%s, %s)" % (s, s)})]
    if kind == "both_differ":
        return [("__index__+__int__-differ", {"py": "Both(%s, %d)" % (s, v + 1)})]
    if kind == "nbint_raises_V":
        return [("float", {"f": "nan"})]
    if kind == "nbint_raises_O":
        return [("float", {"f": "inf"}), ("float", {"f": "-inf"})]
    if kind == "strlike":
        return [("bytearray-digits", {"py": "bytearray(b'%s')" % s}), ("str-subclass-digits", {"py": "SStr('%s')" % s}),
                ("bytes-subclass-digits", {"py": "SBytes(b'%s')" % s})]
    if kind == "no_slots":
        return [("None", None), ("str", "12"), ("bytes", {"b": [49, 50]}), ("list", [1]), ("complex", {"c": [{"f": "0x1p+0"}, {"f": "0x0p+0"}]}),
                ("object", {"py": "object()"})]
    raise ValueError(kind)


class Decoder(object):
    """the harness-side twin of the child's argument decoding (needed to evaluate P on the real object)"""

    def __init__(self):
        self.ns = L.harness_namespace()

    def __call__(self, x):
        if isinstance(x, dict):
            if "big" in x:
                return int(x["big"])
            if "f" in x:
                s = x["f"]
                return float(s) if s in ("nan", "inf", "-inf") else float.fromhex(s)
            if "b" in x:
                return bytes(x["b"])
            if "c" in x:
                return complex(self(x["c"][0]), self(x["c"][1]))
            if "py" in x:
                return eval(x["py"], self.ns)
            raise ValueError(x)
        if isinstance(x, list):
            return [self(v) for v in x]
        return x


def want_obs(typ, expect):
    """expected observation as the child driver encodes it"""
    if isinstance(expect, str):
        return expect
    if typ["to_py"] == "cpdef-enum":
        return ["l", typ["ct"], calls.obs_int(expect)]
    return calls.obs_int(expect)


def obs_class(want, got):
    if isinstance(got, str) and (got.startswith("CRASH") or got == "TIMEOUT"):
        return "crash"
    if isinstance(got, str) and got.startswith("E:"):
        return "raised:" + got[2:]
    if isinstance(want, str):
        return "accepted"
    return "wrong-value"


def judge(want, got):
    """None when the observation is the expected one, else the class of the wrong observation"""
    return None if got == want else obs_class(want, got)


def corrupt(want):
    """binding demonstration: a different, still well-formed expectation"""
    if isinstance(want, str):
        return "E:OverflowError" if want != "E:OverflowError" else "E:TypeError"
    if isinstance(want, list):
        return want[:2] + [corrupt(want[2])]
    if isinstance(want, dict):
        return {"big": str(int(want["big"]) + 1)}
    return want + 1


def build_cases(pub, types, rng, tier):
    """-> {config: [case]}; case = dict(func, arg, desc, want, src, model)"""
    dec = Decoder()
    drift = []
    out = {c[0]: [] for c in CONFIGS}
    seen = {c[0]: {} for c in CONFIGS}
    cfgname = {c[2]: c[0] for c in CONFIGS}
    bytag = {t["tag"]: t for t in types}
    stats = {"pub_cases": 0, "pub_cases_without_real_type": 0}

    def add(config, typ, func, arg, source_kind, expect, src, model, part):
        lo, hi = typ["lo"], typ["hi"]
        desc = {"part": part, "config": config, "type": typ["tag"], "from_py": L.FROM_PY[typ["path"]], "to_py": typ["to_py"],
                "expect": expect if isinstance(expect, str) else "value"}
        if part == "from-py":
            desc["form"] = "arg" if func == "conv" else "assign"
            desc["source_kind"] = source_kind
        desc["above_signed_max"] = bool(typ["unsigned"] and not isinstance(expect, str) and expect > hi // 2)
        key = (func, typ["tag"], json.dumps(arg, sort_keys=True))
        if key in seen[config]:
            prev = seen[config][key]
            if prev["model"] is None and model is not None:
                prev["model"], prev["src"] = model, src
            return
        case = {"func": "w_%s_%s" % (func, typ["tag"]), "arg": arg, "desc": desc, "want": want_obs(typ, expect), "src": src, "model": model}
        seen[config][key] = case
        out[config].append(case)

    def frompy(config, typ, kind, v, src, model, s_expect):
        """kind: model kind; v: real integer payload; s_expect: expectation of the spec (None: reference rule)"""
        rule = L.reference_rule(kind, v, typ["lo"], typ["hi"])
        if s_expect is None:
            s_expect = rule
        elif s_expect != rule:
            drift.append(("scaled class vs reference rule on real constants", {"type": typ["tag"], "kind": kind, "v": str(v), "spec": s_expect, "rule": rule, "model": model}))
        for source_kind, arg in realisations(kind, v):
            p = L.python_oracle(dec(arg), typ["lo"], typ["hi"])
            if p != s_expect:
                drift.append(("spec vs operator.index oracle", {"type": typ["tag"], "kind": kind, "source": source_kind, "arg": arg, "spec": s_expect, "python": p}))
                continue
            for func in ("conv", "convo"):
                add(config, typ, func, arg, source_kind, s_expect, src, model, "from-py")

    def topy(config, typ, v, src, model):
        size = typ["bits"] // 8
        raw = (v % (1 << typ["bits"])).to_bytes(size, "little")
        p = int.from_bytes(raw, "little", signed=not typ["unsigned"])
        if p != v:
            drift.append(("to-py byte image", {"type": typ["tag"], "v": str(v), "python": str(p)}))
            return
        add(config, typ, "topy", {"b": list(raw)}, "bytes", v, src, model, "to-py")

    # (1) cases published by TLC (S = 7 image), mapped by symbolic form
    for r in pub:
        stats["pub_cases"] += 1
        config = cfgname[(r["internals"], r["slots"], r["chunks"])]
        bits, unsigned = IMG[r["w"]], not r["s"]
        v = real_form_value(r["form"])
        model = {"br": r["br"], "sub": r["sub"], "deviates": r["impl"] != r["ref"], "impl": ERRNAME.get(r["impl"], "value")}
        if r["path"] == "topy":
            reals = [t for t in types if t["bits"] == bits and t["unsigned"] == unsigned]
            for config2 in out:     # CIntToPy does not depend on the build configuration in the model
                for t in reals:
                    topy(config2, t, v, "tlc-pub", model)
            continue
        reals = [t for t in types if t["path"] == r["path"] and t["bits"] == bits and t["unsigned"] == unsigned]
        if not reals:
            stats["pub_cases_without_real_type"] += 1
        s_expect = ERRNAME[r["ref"]] if r["ref"] in ERRNAME else v
        if r["ref"] not in ERRNAME and r["ref"] != r["v"]:
            drift.append(("published ref is neither the object's value nor an error", r))
        for t in reals:
            frompy(config, t, r["kind"], v, "tlc-pub", model, s_expect)

    # (2) witnesses beyond the scaled image: P and the reference rule on real constants
    nrand = 40 if tier == "quick" else 500
    for config in out:
        for t in types:
            lo, hi = t["lo"], t["hi"]
            wide = [sg * (1 << e) + d for sg in (1, -1) for e in (149, 150, 179, 180, 1000) for d in (-1, 0, 1)]
            for v in wide:
                frompy(config, t, "pylong", v, "python-oracle", None, None)
            for v in (1 << 150, -(1 << 150), hi + 1, lo - 1, hi, lo):
                for kind in ("sublong_ov", "index_only", "nbint_only", "both_same", "both_differ", "strlike"):
                    frompy(config, t, kind, v, "python-oracle", None, None)
            rnd = []
            for _ in range(nrand):
                k = rng.randint(1, t["bits"])
                rnd.append(rng.randint(max(lo, -(1 << k)), min(hi, (1 << k) - 1)))          # in range, every magnitude
                k = rng.randint(t["bits"] - 2, 200)
                rnd.append(rng.choice((1, -1)) * rng.randint(1 << max(k - 1, 0), 1 << k))   # mostly out of range
            for v in rnd:
                frompy(config, t, "pylong", v, "python-oracle", None, None)
                if lo <= v <= hi:
                    topy(config, t, v, "python-oracle", None)
            for v in rnd[:10]:
                for kind in ("sublong_ov", "index_only", "both_same"):
                    frompy(config, t, kind, v, "python-oracle", None, None)
            # fractional / huge floats, non-integral Decimal / Fraction: not integers -> TypeError by the reference
            for source_kind, arg in [("float", calls.fenc(1.5)), ("float", calls.fenc(-1.5)), ("float", calls.fenc(0.5)), ("float", calls.fenc(-0.0)),
                                     ("float", calls.fenc(1e30)), ("float", calls.fenc(-1e300)), ("float", calls.fenc(2.0 ** 63)),
                                     ("Decimal", {"py": "decimal.Decimal('1.5')"}), ("Decimal", {"py": "decimal.Decimal(10) ** 40"}),
                                     ("Fraction", {"py": "fractions.Fraction(7, 2)"}), ("Fraction", {"py": "fractions.Fraction(2 ** 70, 3)"})]:
                p = L.python_oracle(dec(arg), lo, hi)
                if p != "E:TypeError":
                    drift.append(("non-integer accepted by operator.index", {"arg": arg}))
                for func in ("conv", "convo"):
                    add(config, t, func, arg, source_kind, "E:TypeError", "python-oracle", None, "from-py")
    return out, drift, stats


def read_types(build):
    obs = calls.run_calls(build, [["info_", []]], prelude=L.PRELUDE + L.wrappers(), tag="info")
    if not (isinstance(obs[0], list) and obs[0][0] == "l"):
        core.die("info() failed on %s: %r" % (build.name, obs[0]))
    sizes = {e[1]: (e[2] * 8, e[3][1]) for e in obs[0][1:]}
    types = []
    for tag, ct, path, topy in L.TYPES:
        bits, unsigned = sizes[tag]
        if bits not in IMG.values():
            core.die("type %s has %d bits: no scaled image" % (tag, bits))
        lo, hi = trange(bits, unsigned)
        types.append({"tag": tag, "ct": ct, "path": path, "to_py": topy, "bits": bits, "unsigned": unsigned, "lo": lo, "hi": hi})
    return types


def _phase(t0, what):
    sys.stderr.write("[c05 %6.1fs] %s\n" % (time.time() - t0, what))


def run(tier, seed):
    t0 = time.time()
    rng = random.Random(seed)
    rep = core.Reporter(PROP)
    cov = {"tlc": []}

    # ---- model checking (concurrently with the builds)
    jobs = [("pub", "IntConv_pub", False), ("quick", "IntConv_quick", False), ("cov", "IntConv_cov", True), ("refute", "IntConv_refute", False)]
    if tier != "quick":
        jobs += [("deep", "IntConv_deep", False), ("sweep", "IntConv_sweep", False)]
    src = L.gen_source()
    core.scratch(), core.subdir("tlc"), core.snapshot()     # (not thread-safe on first use)
    ex = concurrent.futures.ThreadPoolExecutor(max_workers=len(jobs) + 1)

    def tlc_job(i, cfg, cv):
        time.sleep(0.2 * i)    # core.tlc derives its metadir name from the clock
        return core.tlc("IntConv", cfg=cfg, workers=6 if tier == "quick" else 8, timeout=900 if tier == "quick" else 3000, coverage=cv)
    futs = {name: ex.submit(tlc_job, i, cfg, cv) for i, (name, cfg, cv) in enumerate(jobs)}
    fb = ex.submit(core.build_many, [core.BuildSpec("c05_" + name, src, cflags=fl) for name, fl, _ in CONFIGS])
    tl = {}

    def collect(names):
        for name in names:
            r = tl[name] = futs[name].result()
            _phase(t0, "TLC %s: %d states, %.0fs" % (name, r.generated, r.wall))
            cov["tlc"].append(dict(r.summary(), config=name, violation=r.violation))
            if name == "refute":
                if r.violation != "NeverDeviates":
                    core.die("IntConv_refute: TLC did not refute NeverDeviates (%r): the transcription no longer exhibits the nb_int deviation\n%s" % (r.violation, r.out[-1500:]))
            elif not r.ok:
                core.die("TLC %s failed: violation=%r\n%s" % (name, r.violation, r.out[-3000:]))

    def finish_tlc():
        collect([n for n, _, _ in jobs if n not in tl])
        ex.shutdown()
        missing = [b for b in BRANCHES if tl["cov"].coverage.get("A_" + b, (0, 0))[1] == 0]
        if missing:
            core.die("vacuity: branches of the transcription never taken in IntConv_cov: %s" % missing)

    # the published cases and the builds are needed first; the other model-checking runs finish during the replay
    collect(["pub"])
    builds = fb.result()
    _phase(t0, "builds done")
    pub = tl["pub"].printed
    if len(pub) < 5000:
        core.die("IntConv_pub published only %d cases" % len(pub))

    # ---- builds
    for b in builds:
        if not b.ok:
            rep.disagree({"part": "build", "config": b.name, "stage": b.stage}, "build-failed", {"errors": (b.errors or "")[-3000:]})
    if rep.n_violations():
        finish_tlc()
        rc = rep.finish()
        core.write_evidence(PROP, tier, seed, "model_checking", {"evaluations": 1, "distinct_nontrivial": 0, "states": 1, "transitions": 1,
                            "traces_validated_against_impl": 0, "samples": ["build failed"]}, time.time() - t0, violations=rep.n_violations())
        return rc
    bmap = {name: b for (name, _, _), b in zip(CONFIGS, builds)}
    types = read_types(bmap["default"])
    for name in ("nointernals", "limited"):
        if read_types(bmap[name]) != types:
            core.die("type facts differ between builds")

    cases, drift, stats = build_cases(pub, types, rng, tier)
    for what, detail in drift:
        rep.spec_drift(what, detail)
    _phase(t0, "cases built: %s" % {k: len(v) for k, v in cases.items()})

    # ---- replay
    n_calls = 0
    predicted_confirmed = predicted_not_observed = unpredicted = 0
    witnessed = {}
    samples = []
    selftest_ok = 0
    nontriv = set()
    classes = {}
    for name, _, _ in CONFIGS:
        cl = [[c["func"], [c["arg"]]] for c in cases[name]]
        obs = calls.run_calls(bmap[name], cl, prelude=L.PRELUDE + L.wrappers(), timeout=900, tag="conv")
        n_calls += len(cl)
        _phase(t0, "replayed on %s" % name)
        for c, o in zip(cases[name], obs):
            m = c["model"]
            if m:
                witnessed.setdefault(name, set()).add(m["br"])
            if not (isinstance(c["arg"], int) and not isinstance(c["arg"], bool) and abs(c["arg"]) <= 1):
                nontriv.add((name, c["func"], json.dumps(c["arg"], sort_keys=True)))
            verdict = judge(c["want"], o)
            if verdict is None:
                if m and m["deviates"]:
                    predicted_not_observed += 1
                # binding demonstration: a corrupted expectation must be rejected
                if selftest_ok < 3000 and rng.random() < 0.05:
                    if judge(corrupt(c["want"]), o) is None:
                        core.die("binding self-test failed: %r accepted for %r" % (corrupt(c["want"]), o))
                    selftest_ok += 1
                continue
            if m and m["deviates"]:
                predicted_confirmed += 1
            elif m:
                unpredicted += 1
            d = c["desc"]
            k = "%s|%s|%s|%s|%s|expect=%s|%s|above_signed_max=%s" % (name, d["part"], d["from_py"], d["to_py"], d.get("source_kind"), d["expect"],
                                                                     verdict, d["above_signed_max"])
            classes[k] = classes.get(k, 0) + 1
            rep.disagree(c["desc"], verdict,
                         {"config": name, "call": [c["func"], c["arg"]], "want": c["want"], "got": o, "expected_from": c["src"], "model": m})
        idx = rng.sample(range(len(cl)), 2)
        samples += [{"config": name, "call": cl[i], "want": cases[name][i]["want"], "got": obs[i], "model": cases[name][i]["model"]} for i in idx]
    if selftest_ok < 50:
        core.die("binding self-test: too few value cases (%d)" % selftest_ok)
    finish_tlc()

    pub_branches = sorted({r["br"] for r in pub})
    cov.update({
        "states": sum(t.generated for t in tl.values()), "distinct_states": sum(t.distinct for t in tl.values()),
        "transitions": sum(t.generated for t in tl.values()),
        "traces_validated_against_impl": n_calls, "evaluations": n_calls, "distinct_nontrivial": len(nontriv),
        "exhaustive": True,
        "action_coverage": {b: tl["cov"].coverage["A_" + b][1] for b in BRANCHES},
        "branches_in_LP64_image": pub_branches,
        "branches_with_real_witness": {k: sorted(v) for k, v in witnessed.items()},
        "published_cases": stats["pub_cases"], "calls_per_config": {k: len(v) for k, v in cases.items()},
        "real_types": {t["tag"]: [t["bits"], "unsigned" if t["unsigned"] else "signed", t["path"]] for t in types},
        "model_predicted_deviations_confirmed": predicted_confirmed,
        "model_predicted_deviations_not_observed": predicted_not_observed,
        "disagreements_on_cases_the_model_calls_conforming": unpredicted,
        "binding_selftest_cases": selftest_ok,
        "disagreement_classes": classes,
        "rule": "every published case of the S=7 image (22 C integer types x symbolic value forms x object kinds) + seeded random / wide witnesses, "
                "x {argument, assignment, C->Python} x 3 builds; non-trivial = distinct (build, function, argument) whose argument is not a plain int in [-1, 1]",
        "samples": samples,
    })
    rc = rep.finish()
    cov["known_findings"] = rep.kf_summary()
    core.write_evidence(PROP, tier, seed, "model_checking", cov, time.time() - t0,
                        assumptions=["the transcription is of the CPython >= 3.12 code paths (compact PyLong layout); PyLong_AsInt (3.13) and other ABIs "
                                     "(ILP32, LLP64, 15-bit digits) are checked on the model only",
                                     "real expectations are mapped from the S=7 model by symbolic value form and cross-checked class by class against "
                                     "operator.index + range test on the real object (TLC integers are 32-bit); random and > 128-bit witnesses have "
                                     "the Python-evaluated reference rule only",
                                     "C library functions PyLong_As*/PyLong_From*/_PyLong_AsByteArray are modelled by their documented contract",
                                     "the C type of an enum is the compiler's choice (read from the compiled module: gcc picks unsigned int without negative members)"],
                        violations=rep.n_violations())
    return rc


def replay(path, seed):
    """re-run the calls stored in a replay file on fresh builds"""
    with open(path) as f:
        rec = json.load(f)
    src = L.gen_source()
    fl = {n: f for n, f, _ in CONFIGS}
    rc = 0
    for case in rec["cases"]:
        b = core.build_many([core.BuildSpec("c05_" + case["config"], src, cflags=fl[case["config"]])])[0]
        obs = calls.run_calls(b, [case["call"]], prelude=L.PRELUDE + L.wrappers(), tag="replay")
        print("replay %s %s -> %s (want %s)" % (case["config"], json.dumps(case["call"]), json.dumps(obs[0]), json.dumps(case["want"])))
        if obs[0] != case["want"]:
            rc = 1
    return rc
