"""C40 -- safe type inference never changes pure-Python results.

spec/TypeInfer.tla:
  arith phase  PyNum (unbounded ints on limbs, dyadic floats, strings) against CPython, one state per case;
  run phase    per (program, input): small-step reference execution (no notion of inference) of programs with
               untyped locals; on that execution the *hazard judgement* over the B3 facts exported from the real
               compiler (class of entry.type of every local, might_overflow marks): where does a C-typed local /
               a C-typed operation not behave like the Python object it replaces, and which rule of the inferer
               let it through (Leaves / ArithCause); static states: transcription of MarkOverflowingArithmetic and
               safe_spanning_type, which the exported facts must satisfy.
Binding B1 + B3: every program is compiled twice from the snapshot (infer_types default = safe, and False); the
facts of the safe build are fed to TLC; every case is run on CPython (P, must agree with the spec: drift = exit 2)
and on both builds.  A case where the safe build differs from S = P while the build without inference agrees is a
disagreement, reported once per hazard the spec found on that case (none -> descriptor hazard=none).
"""
import collections
import concurrent.futures
import json
import math
import os
import random
import re
import signal
import sys
import time

import calls
import core
import lib_typeinfer as lt

PROP = "C40"
RUN_ACTIONS = ["StaticStep", "StepAsg", "StepAug", "StepIf", "StepForRange", "StepForStr", "StepReturn", "StepIter",
               "StepLoopEnd", "StepBlockEnd"]
LENIENT = {"global_options": {"error_on_uninitialized": False}}
TIERS = {
    "quick": dict(random=40, inputs=4, arith_random=150, chunk=60, tlc_timeout=900),
    "thorough": dict(random=600, inputs=6, arith_random=3000, chunk=80, tlc_timeout=3000),
}
WORKERS = int(os.environ.get("VERIF_TLC_WORKERS", "0") or 0) or None
JOBS = int(os.environ.get("VERIF_BUILD_JOBS", "0") or 0) or 8


# --------------------------------------------------------------------------- observations

def canon(v):
    """python value -> comparable canonical form that separates 1 / 1.0 / True and 0.0 / -0.0"""
    if isinstance(v, tuple):
        return ("t",) + tuple(canon(x) for x in v)
    if isinstance(v, bool):
        return ("b", v)
    if isinstance(v, int):
        return ("i", v)
    if isinstance(v, float):
        return ("f", "nan" if v != v else v.hex())
    if isinstance(v, complex):
        return ("c", canon(v.real), canon(v.imag))
    if isinstance(v, str):
        return ("s", v)
    if v is None:
        return ("n",)
    return ("o", repr(v)[:80])


def from_child(r):
    """calls.run_calls observation -> ('v', canon) | ('E', name) | ('X', what)"""
    if isinstance(r, str):
        if r.startswith("E:"):
            return ("E", r[2:])
        if r.startswith("CRASH") or r == "TIMEOUT":
            return ("X", r.split(":")[0] + (":" + r.split(":")[1] if r.startswith("CRASH:") and len(r.split(":")) > 1 else ""))
        return ("v", ("s", r))
    return ("v", _dec(r))


def _dec(r):
    if r is None:
        return ("n",)
    if isinstance(r, str):
        return ("s", r)
    if isinstance(r, bool):
        return ("b", r)
    if isinstance(r, int):
        return ("i", r)
    if isinstance(r, dict) and "big" in r:
        return ("i", int(r["big"]))
    if isinstance(r, list):
        tag = r[0]
        if tag == "bool":
            return ("b", r[1])
        if tag == "f":
            return ("f", r[1])
        if tag == "t":
            return ("t",) + tuple(_dec(x) for x in r[1:])
        if tag == "c":
            return ("c", _dec(r[1]), _dec(r[2]))
        return ("o", json.dumps(r)[:80])
    return ("o", repr(r)[:80])


def py_obs(fn, args):
    try:
        v = fn(*args)
    except Exception as e:       # noqa
        return ("E", type(e).__name__)
    return ("v", canon(v))


def spec_accepts(spec, pobs):
    """spec: lt.from_spec shape; pobs: ('v', canon)|('E', name).  -> (ok, fully_decided)"""
    if spec == lt.UND:
        return True, False
    if spec[0] == "E":
        return pobs == ("E", spec[1]), True
    if pobs[0] != "v":
        return False, True
    return _acc(spec, pobs[1])


def _acc(spec, c):
    if spec == lt.UND:
        return True, False
    if spec[0] == "fund":
        return c[0] == "f", False
    if spec[0] == "t":
        if c[0] != "t" or len(c) - 1 != len(spec[1]):
            return False, True
        ok, dec = True, True
        for s, x in zip(spec[1], c[1:]):
            o, d = _acc(s, x)
            ok, dec = ok and o, dec and d
        return ok, dec
    if spec[0] == "v":
        return canon(spec[1]) == c, True
    return False, True


TYN = {"i": "int", "f": "float", "b": "bool", "s": "str", "n": "None", "t": "tuple", "c": "complex", "o": "object"}


def obs_class(exp, got):
    """class of the wrong observation `got` against the expected `exp` (both ('v', canon)|('E', n)|('X', w))"""
    if got[0] == "X":
        return "crash" if got[1].startswith("CRASH") else "timeout"
    if got[0] == "C":
        return "compile_error"
    if exp[0] == "E":
        return ("value_instead_of_" + exp[1]) if got[0] == "v" else "other_exception"
    if got[0] == "E":
        return "exception_instead_of_value:" + got[1]
    return _vclass(exp[1], got[1])


def _vclass(e, g):
    if e[0] == "t" and g[0] == "t" and len(e) == len(g):
        for x, y in zip(e[1:], g[1:]):
            if x != y:
                return _vclass(x, y)
    if e[0] != g[0]:
        return "type_changed:%s->%s" % (TYN.get(e[0], e[0]), TYN.get(g[0], g[0]))
    return "wrong_value:" + TYN.get(e[0], e[0])


def verdict(pobs, c_off, c_safe):
    """the rule: inference is judged where the build without inference agrees with S = P"""
    if c_off != pobs:
        # not inference: the build without it already differs from Python (another property's business)
        if c_safe == c_off or c_safe == pobs:
            return "baseline_deviation"
    if c_safe == pobs:
        return "agree"
    return "safe_deviates"


# --------------------------------------------------------------------------- building

def build_robust(name, funcs, directives, facts, jobs_note=""):
    """funcs: [(fname, source)].  Functions that Cython rejects are dropped and recorded (an observation).
    -> (BuildResult or None, {fname: message}, whole_module_error or None)"""
    bad = {}
    live = list(funcs)
    for _attempt in range(8):
        if not live:
            return None, bad, None
        src = "\n".join(s for _, s in live)
        b = core.build_many([core.BuildSpec(name, src, kind="py", directives=directives, facts=facts, options=LENIENT)], jobs=1)[0]
        if b.ok:
            return b, bad, None
        if b.stage != "cython":
            return None, bad, "%s: %s" % (b.stage, (b.errors or "")[-1500:])
        lines = src.split("\n")
        hit = {}
        for mm in re.finditer(r"%s\.py:(\d+):(\d+): (.*)" % re.escape(name), b.errors or ""):
            msg = mm.group(3)
            if "referenced before assignment" in msg or msg.startswith("Python has no") or "Unraisable" in msg:
                continue
            k = min(int(mm.group(1)) - 1, len(lines) - 1)
            while k >= 0 and not lines[k].startswith("def "):
                k -= 1
            if k < 0:
                continue
            fn = re.match(r"def (\w+)", lines[k]).group(1)
            hit.setdefault(fn, msg)
        if not hit:
            return None, bad, "cython: %s" % (b.errors or "")[-1500:]
        bad.update(hit)
        live = [(f, s) for f, s in live if f not in hit]
    return None, bad, "too many rebuilds"


class _Slow(BaseException):
    pass


def _alarm(*_a):
    raise _Slow()


def python_side(progs, budget=0.4):
    """P: run every (program, input) on CPython; drop inputs that are too slow to replay safely."""
    ns = {}
    exec("\n".join(p["src"] for p in progs), ns)
    old = signal.signal(signal.SIGALRM, _alarm)
    dropped = 0
    try:
        for p in progs:
            keep, obs = [], []
            for inp in p["inputs"]:
                try:
                    signal.setitimer(signal.ITIMER_REAL, budget)
                    o = py_obs(ns[p["fname"]], inp)
                    signal.setitimer(signal.ITIMER_REAL, 0)
                except _Slow:
                    dropped += 1
                    continue
                keep.append(inp)
                obs.append(o)
            p["inputs"], p["P"] = keep, obs
    finally:
        signal.setitimer(signal.ITIMER_REAL, 0)
        signal.signal(signal.SIGALRM, old)
    return dropped


def enc_arg(v):
    return calls.ienc(v) if isinstance(v, int) and not isinstance(v, bool) else v


# --------------------------------------------------------------------------- the check

def make_programs(tier, seed):
    cfg = TIERS[tier]
    rng = random.Random(seed * 7919 + 13)
    progs = []
    for fam, body in lt.families(rng, tier == "quick"):
        progs.append({"fam": fam, "body": body})
    g = lt.RandGen(rng)
    for _ in range(cfg["random"]):
        progs.append({"fam": "random", "body": g.program()})
    for pid, p in enumerate(progs, 1):
        p["pid"] = pid
        p["fname"] = "f%d" % pid
        p["src"] = lt.render(p["fname"], p["body"])
        p["locals"] = lt.PARAMS + [v for v in lt.assigned(p["body"]) if v not in lt.PARAMS]
        p["inputs"] = lt.inputs_for(rng, p["src"], cfg["inputs"])
    return progs


def run(tier, seed):
    t0 = time.time()
    cfg = TIERS[tier]
    rep = core.Reporter(PROP)
    rng = random.Random(seed)
    cov = {"tlc": [], "rule": "C_safe == S == P == C_noinfer ; S != P -> spec drift"}
    timing = {}
    wd = core.subdir("c40")

    # ---- 1. PyNum against CPython (arith phase) -- runs in the background while the modules are built
    core.scratch()
    acases = lt.arith_cases(random.Random(seed + 1), cfg["arith_random"])
    if tier == "quick":
        acases = core.sample(acases, 1500, random.Random(seed + 2))
    af = os.path.join(wd, "arith.ndjson")
    core.write_ndjson(af, [{k: v for k, v in c.items() if not k.startswith("_")} for c in acases])
    bg = concurrent.futures.ThreadPoolExecutor(max_workers=1)
    arith_job = bg.submit(core.tlc, "TypeInfer", "TypeInfer_arith", workers=4, env={"ARITH": af}, timeout=cfg["tlc_timeout"])

    # ---- 2. programs, P
    progs = make_programs(tier, seed)
    dropped = python_side(progs)
    progs = [p for p in progs if p["inputs"]]
    timing["python"] = time.time() - t0

    # ---- 3. the two builds (chunks in parallel), facts of the safe build
    chunks = [progs[i:i + cfg["chunk"]] for i in range(0, len(progs), cfg["chunk"])]
    jobs = []
    for ci, ch in enumerate(chunks):
        funcs = [(p["fname"], p["src"]) for p in ch]
        jobs.append(("safe", ci, "c40s%d" % ci, funcs, {}, "c40_types"))
        jobs.append(("off", ci, "c40n%d" % ci, funcs, {"infer_types": False}, None))
    with concurrent.futures.ThreadPoolExecutor(max_workers=JOBS) as ex:
        res = list(ex.map(lambda j: build_robust(j[2], j[3], j[4], j[5]), jobs))
    builds = {}
    for j, (b, badf, err) in zip(jobs, res):
        if err:
            rep.disagree({"part": "build", "mode": j[0]}, "build-failed", {"module": j[2], "errors": err})
        builds[(j[0], j[1])] = (b, badf)
    if rep.n_violations():
        rc = rep.finish()
        core.write_evidence(PROP, tier, seed, "model_checking", dict(cov, states=1, transitions=1, evaluations=0,
                            distinct_nontrivial=0, traces_validated_against_impl=0, samples=["build failed"]), time.time() - t0, violations=1)
        return rc
    timing["build"] = time.time() - t0
    for ci, ch in enumerate(chunks):
        bs, bad_s = builds[("safe", ci)]
        bo, bad_o = builds[("off", ci)]
        for p in ch:
            p["chunk"] = ci
            p["cerr_safe"] = bad_s.get(p["fname"])
            p["cerr_off"] = bad_o.get(p["fname"])
            d = lt.digest_facts(bs.facts, bs.name, p["fname"], p["locals"]) if (bs is not None and bs.facts and not p["cerr_safe"]) else None
            if d is None:
                p["ty"], p["mk"], p["lmk"], p["facts"] = {v: "O" for v in p["locals"]}, [], [], False
            else:
                p["ty"], p["mk"], p["lmk"] = d
                p["facts"] = True
            unknown = [t for t in p["ty"].values() if t.startswith("?")]
            if unknown:
                core.die("unknown type class %s in %s" % (unknown, p["fname"]))
        if bs is not None and bs.facts and bs.facts.get("errors"):
            core.die("fact exporter errors: %s" % bs.facts["errors"][:3])

    ra = arith_job.result()
    if not ra.ok:
        sys.stderr.write(ra.out[-4000:])
        core.die("TLC (arith phase) failed: %s" % (ra.violation or ra.rc))
    bad, adecided = lt.check_arith(acases, ra.printed)
    cov["tlc"].append(dict(ra.summary(), config="TypeInfer_arith", what="PyNum conformance, %d cases (%d decided)" % (len(acases), adecided)))
    for b in bad[:20]:
        rep.spec_drift("PyNum vs CPython", b)
    if adecided < len(acases) * 0.6:
        core.die("PyNum decides only %d of %d arithmetic cases" % (adecided, len(acases)))
    timing["arith_done"] = time.time() - t0

    # ---- 4. TLC: reference execution + hazard judgement + the inferer's rules on the real facts
    pf = os.path.join(wd, "progs.ndjson")
    core.write_ndjson(pf, [{"pid": p["pid"], "params": lt.PARAMS, "locals": p["locals"], "body": p["body"], "ty": p["ty"],
                            "mk": p["mk"], "lmk": p["lmk"], "inputs": [[lt.e_lit(v) for v in inp] for inp in p["inputs"]]} for p in progs])
    r = core.tlc("TypeInfer", "TypeInfer_run", workers=WORKERS, env={"PROGS": pf}, timeout=cfg["tlc_timeout"], heap="6g")
    if not r.ok:
        sys.stderr.write(r.out[-5000:])
        core.die("TLC (run phase) failed: %s" % (r.violation or r.rc))
    timing["tlc_run"] = time.time() - t0
    cov["tlc"].append(dict(r.summary(), config="TypeInfer_run", what="%d programs, every input, every loop iteration" % len(progs), exhaustive=True))
    act = collections.Counter()          # the spec records the actions of every behaviour (TLC's -coverage is unusably slow on this module)
    for rec in r.printed:
        if rec.get("static"):
            act["StaticStep"] += 1
        for a in rec.get("acts") or ():
            act[a] += 1
    cov["action_coverage"] = dict(act)
    vac = [a for a in RUN_ACTIONS if not act.get(a)]
    if vac:
        core.die("vacuous model: actions never taken: %s" % vac)
    bypid = {p["pid"]: p for p in progs}
    for rec in r.printed:
        p = bypid[rec["pid"]]
        if rec.get("static"):
            p["static"] = rec
        else:
            p.setdefault("S", {})[rec["inp"]] = rec
    missing = [p["pid"] for p in progs if "static" not in p or len(p.get("S", {})) != len(p["inputs"])]
    if missing:
        core.die("TLC published no result for programs %s" % missing[:10])

    # ---- 5. run both builds
    def run_chunk(key):
        mode, ci = key
        b, _bad = builds[key]
        cl, idx = [], []
        for p in chunks[ci]:
            if (p["cerr_safe"] if mode == "safe" else p["cerr_off"]) or b is None:
                continue
            for k, inp in enumerate(p["inputs"]):
                cl.append([p["fname"], [enc_arg(v) for v in inp], True])
                idx.append((p["pid"], k))
        obs = calls.run_calls(b, cl, timeout=300, tag="c40") if cl else []
        return mode, idx, obs
    with concurrent.futures.ThreadPoolExecutor(max_workers=JOBS) as ex:
        for mode, idx, obs in ex.map(run_chunk, list(builds)):
            for (pid, k), o in zip(idx, obs):
                bypid[pid].setdefault("C_" + mode, {})[k] = from_child(o)
    timing["replay"] = time.time() - t0

    # ---- 6. verdicts
    st = collections.Counter()
    hz_seen = collections.Counter()
    samples = []
    nontrivial = set()
    selftest_pool = []
    notes = []
    for p in progs:
        stc = p["static"]
        st["programs"] += 1
        st["out_of_fragment"] += (not stc["frag"])
        st["mark_mismatch"] += (not stc["mark_ok"])
        for v, sv in (stc["span"] or {}).items():
            st["span_" + sv.split(":")[0]] += 1
            if sv.startswith("mismatch"):
                notes.append("span %s %s %s: %s" % (p["fam"], v, sv, p["src"].replace("\n", " ; ")[:400]))
        # B3 verdicts on the facts alone: a name the transcribed MarkOverflowingArithmetic marks must be marked by the
        # real one, and a marked name must not keep a C integer type (safe_spanning_type's guard)
        if p["facts"]:
            missing = sorted((set(stc["marks"]) & set(p["locals"])) - set(p["mk"])) + sorted("lambda:" + v for v in set(stc["lmarks"]) - set(p["lmk"]))
            if missing:
                rep.disagree({"part": "static", "kind": "mark_missing"}, "fact", {"family": p["fam"], "source": p["src"], "transcribed_marks": stc["marks"],
                             "exported_marks": p["mk"], "missing": missing})
            bad_c = sorted(v for v, sv in (stc["span"] or {}).items() if sv == "mismatch:marked_c_int")
            if bad_c:
                rep.disagree({"part": "static", "kind": "marked_name_is_c_integer"}, "fact", {"family": p["fam"], "source": p["src"], "locals": bad_c,
                             "types": {v: p["ty"][v] for v in bad_c}})
        if not stc["frag"] or not stc["mark_ok"]:
            notes.append("frag=%s mark_ok=%s marks=%s real=%s lmarks=%s real=%s %s: %s" % (stc["frag"], stc["mark_ok"], stc["marks"], p["mk"], stc["lmarks"], p["lmk"], p["fam"], p["src"].replace("\n", " ; ")[:400]))
        for k, inp in enumerate(p["inputs"]):
            s = p["S"][k + 1]
            spec = lt.from_spec(s["out"])
            pobs = p["P"][k]
            ok, decided = spec_accepts(spec, pobs)
            st["cases"] += 1
            st["decided" if decided else "partly_decided"] += 1
            if not ok:
                rep.spec_drift("reference semantics vs CPython", {"src": p["src"], "input": repr(inp), "spec": repr(spec)[:300], "python": repr(pobs)[:300]})
                continue
            if spec == lt.UND:
                st["undecided_by_model"] += 1       # the model stopped (value outside its bounds): no judgement on this case
                continue
            hzs = sorted({(h["h"], h["c"]) for h in s["hz"]})
            for h in hzs:
                hz_seen["%s/%s" % h] += 1
            c_off = ("C", p["cerr_off"]) if p["cerr_off"] else p.get("C_off", {}).get(k, ("X", "missing"))
            c_safe = ("C", p["cerr_safe"]) if p["cerr_safe"] else p.get("C_safe", {}).get(k, ("X", "missing"))
            if decided and pobs[0] == "v":
                nontrivial.add((p["pid"], k))
            detail = {"family": p["fam"], "source": p["src"], "call": "%s%r" % (p["fname"], tuple(inp)), "expected(S=P)": repr(pobs)[:300],
                      "safe": repr(c_safe)[:300], "no_inference": repr(c_off)[:300], "hazards": ["%s/%s" % h for h in hzs],
                      "types": {v: t for v, t in p["ty"].items() if t not in ("O", "I")}}
            if len(samples) < 12 and (hzs or rng.random() < 0.02):
                samples.append({k2: detail[k2] for k2 in ("source", "call", "expected(S=P)", "safe", "hazards")})
            v = verdict(pobs, c_off, c_safe)
            st[v] += 1
            if v == "agree":
                st["hazard_not_observable"] += bool(hzs)
                if len(selftest_pool) < 60 and pobs[0] == "v":
                    selftest_pool.append((pobs, c_off, c_safe))
            if v != "safe_deviates":
                continue
            oc = obs_class(pobs, c_safe)
            base = {"part": "run", "mark_ok": bool(stc["mark_ok"]), "in_fragment": bool(stc["frag"]), "facts": bool(p["facts"])}
            if not hzs:
                rep.disagree(dict(base, hazard="none", cause="none"), oc, detail)
            for h, c in hzs:
                rep.disagree(dict(base, hazard=h, cause=c), oc, detail)

    # binding demonstration: corrupted expectations must be rejected by the comparison
    bad_self = 0
    for pobs, c_off, c_safe in selftest_pool:
        v = pobs[1]
        if v[0] == "i":
            corrupt = [("i", v[1] + 1), ("f", float(v[1]).hex() if abs(v[1]) < 2 ** 53 else "0x1p+0"), ("b", bool(v[1]))]
        elif v[0] == "t":
            corrupt = [("t",) + v[1:] + (("i", 0),), ("t",) + tuple(("f", "0x1p+0") if x[0] == "i" else ("i", 1) for x in v[1:])]
        else:
            corrupt = [("i", 1), ("s", "?")]
        for c in corrupt:
            if c == v:
                continue
            # a wrong observation of the safe build must be rejected, and a wrong expectation must not be accepted
            if verdict(pobs, c_off, ("v", c)) != "safe_deviates" or verdict(("v", c), c_off, c_safe) == "agree":
                bad_self += 1
    if selftest_pool and bad_self:
        core.die("binding self-test: %d corrupted expectations were accepted" % bad_self)
    if not selftest_pool:
        core.die("binding self-test: no agreeing case to corrupt")
    if len(hz_seen) < 5 and os.environ.get("VERIF_REPO") is None:
        core.die("vacuous model: only %d hazard classes were ever judged" % len(hz_seen))

    rc = rep.finish()
    cov.update(states=ra.distinct + r.distinct, transitions=ra.generated + r.generated,
               evaluations=st["cases"] * 3 + len(acases), distinct_nontrivial=len(nontrivial),
               traces_validated_against_impl=2 * st["cases"], samples=samples[:12], stats=dict(st),
               hazard_classes_judged=dict(hz_seen), dropped_slow_inputs=dropped, timing={k: round(v, 1) for k, v in timing.items()},
               known_findings=rep.kf_summary(), binding_selftest=len(selftest_pool))
    core.write_evidence(PROP, tier, seed, "model_checking", cov, time.time() - t0,
                        assumptions=["floats are decided on the dyadic grid n/2^e (|n| < 2^15, e <= 8) and for the literal 1e308; other float values are compared with CPython only",
                                     "programs are drawn from the fragment of spec/TypeInfer.tla (ExprOK): no bool operands in arithmetic, float ** only with integer literal exponents, no bit operations on floats",
                                     "inputs whose CPython run exceeds 0.4 s are not replayed"],
                        violations=rep.n_violations())
    sys.stderr.write("c40: %s\n" % json.dumps(dict(st)))
    if os.environ.get("C40_NOTES"):
        sys.stderr.write("\n".join(notes) + "\n")
    return rc
