"""C32 — exception declarations of cdef/cpdef functions propagate errors faithfully.

spec/ExcSpec.tla: reference = the documented rules (an exception reaches the caller unless the
function is noexcept; a returned sentinel is a value for except?/except */implicit/noexcept; noexcept
reports once and returns the default); implementation-shaped = the <<ret, err_indicator>> protocol
with separate callee-exit / caller-check actions per hop and the analysed function type
(implicit exception values, class scope, pointer declarators, legacy_implicit_noexcept).  TLC explores
the full product  kind x specification x return type x declared value x body x caller context
(x pointer type for calls through function pointers) and proves that the protocol delivers the
reference outcome, with the error indicator clear/set accordingly, everywhere except the documented
misuse cells ("hazards": `except v` function returns v), which it publishes.
spec/ExcSpecCpp.tla: C++ `except +` family: catch chain of __Pyx_CppExn2PyErr walked handler by
handler against the documented translation table over the std::exception hierarchy, GIL bracket.
Binding B1: every published state becomes a call of generated Cython code (one function per
declaration, the int argument selects the body; def / cdef `except *` / nogil / function-pointer
callers; cpdef from Python; methods of a cdef class); observation = value or exception type,
unraisable-hook reports, PyErr_Occurred() after the call.  B3: the function types Cython analysed
(cython.typeof) must equal the model's (exception value, check); the pointer assignments Cython
accepts must be protocol-compatible according to the model.
P = the documented rule table written independently in lib_excspec.doc_rule / cpp_doc_rule.
Typed numeric layer (WTypes of the cfg): the C integer types of every width / signedness and float as
return types; literals are converted to the return type in the model (wrap-around, rounding), the
caller's test is evaluated under the C promotion rules.  Those cases are built in modules `<kind>_w`.
ExcSpec_nocast.cfg (the caller compares with the unconverted literal) must VIOLATE ImplAgrees:
the model-side demonstration that the invariants see the conversion.
"""
import collections
import concurrent.futures
import json
import os
import random
import re
import sys
import time

import calls
import core
import lib_excspec as L

PROP = "C32"


def pair_of(c):
    return (c["spec"], c["sv"], c["pspec"], c["psv"], c["rt"], c["lg"])


def body_class(c):
    if c["body"] == "raise":
        return "raise"
    if c["body"] == "fall":
        return "fall"
    v, rt = c["body"], c["rt"]
    if c["sv"] != "none" and L.pconv(rt, v) == L.pconv(rt, c["sv"]):
        return "declared-sentinel"
    implicit = "-1" if L.is_int(rt) else {"double": "-1.0", "float": "-1.0", "ptr": "NULL"}.get(rt)
    if implicit is not None and L.pconv(rt, v) == L.pconv(rt, implicit):
        return "implicit-sentinel"
    if v == L.ZERO[c["rt"]]:
        return "zero"
    return "other"


def desc_of(c, config="default"):
    return {"part": "c", "kind": c["kind"], "spec": c["spec"], "rt": c["rt"], "sv": c["sv"], "body": body_class(c),
            "ctx": c["ctx"], "misuse": bool(c["misuse"]), "legacy": bool(c["lg"]), "config": config,
            "ptr_same": c["ctx"] != "fptr" or (c["pspec"], c["psv"]) == (c["spec"], c["sv"])}


def parse_fact(rt, s):
    """'int (int) except? -1 nogil' -> (ev tag, ec)"""
    s = re.sub(r" nogil$", "", s)
    m = re.search(r"\) (except\?|except) (.+)$", s)
    if m:
        if m.group(2) == "*":
            return ("none", True)
        ev = m.group(2).strip("()")
        if ev == "NAN":
            ev = "nan"
        elif ev != "NULL":
            if rt in L.FLT:
                ev = repr(float(ev))
            elif re.match(r"^-?(0[xX][0-9a-fA-F]+|\d+)[uUlL]*$", ev):      # -1L, -1LL, 0xFF, ...
                ev = str(int(re.sub(r"[uUlL]+$", "", ev), 0))
            else:
                ev = str(int(float(ev)))
        return (ev, m.group(1) == "except?")
    if s.endswith("noexcept"):
        return ("none", False)
    if rt == "object" and s.endswith(")"):
        return ("NULLOBJ", False)
    return ("?" + s, None)


def accept_study(pairs, legacy, workdir):
    """Which pointer assignments does Cython accept?  -> set of rejected pairs"""
    src, linemap = L.render_pairs([p[:5] for p in pairs])
    path = os.path.join(workdir, "c32pairs%s.pyx" % ("_lg" if legacy else ""))
    with open(path, "w") as f:
        f.write(src)
    code = L.ACCEPT_CHILD.replace('{"language_level": 3}', '{"language_level": 3, "legacy_implicit_noexcept": %r}' % bool(legacy))
    ch = core.run_child(code, [path], with_snapshot=True, timeout=900)
    recs = ch.json_lines()
    if not recs:
        core.die("acceptance compile produced no record: %s" % (ch.err[-1500:],))
    rec = recs[0]
    rej = set()
    for ln, msg in rec["errors"]:
        if ln in linemap and "Cannot assign type" in msg:
            rej.add(tuple(linemap[ln]) + (legacy,))
        else:
            core.die("unexpected error in the acceptance module, line %s: %s" % (ln, msg))
    if len(rec["errors"]) != rec["num_errors"]:
        core.die("acceptance module: %d errors reported, %d parsed" % (rec["num_errors"], len(rec["errors"])))
    return rej


def run(tier, seed):
    t0 = time.time()
    rng = random.Random(seed)
    rep = core.Reporter(PROP)
    cov = {"tlc": []}
    work = core.subdir("c32")

    # ---- model checking (both specs concurrently; -coverage for the vacuity guard)
    cfg = "ExcSpec" if tier == "quick" else "ExcSpec_thorough"
    with concurrent.futures.ThreadPoolExecutor(3) as ex:
        f1 = ex.submit(core.tlc_or_die, "ExcSpec", cfg=cfg, timeout=2400, coverage=True, workers=4)
        f2 = ex.submit(core.tlc_or_die, "ExcSpecCpp", cfg="ExcSpecCpp", timeout=2400, coverage=True, workers=4)
        # sensitivity of the model: with the caller comparing against the unconverted literal (SentCast = "none")
        # TLC must find the lost exception / fabricated value itself
        f3 = ex.submit(core.tlc, "ExcSpec", cfg="ExcSpec_nocast", timeout=2400, workers=2, deadlock=False)
        r1, r2, r3 = f1.result(), f2.result(), f3.result()
    if r3.ok or r3.violation != "ImplAgrees":
        sys.stderr.write(r3.out[-3000:])
        core.die("ExcSpec_nocast: expected a violation of ImplAgrees, got %r" % (r3.violation or "no error",))
    cov["tlc"] = [dict(r1.summary(), config=cfg), dict(r2.summary(), config="ExcSpecCpp"),
                  dict(r3.summary(), config="ExcSpec_nocast", expected="violation of ImplAgrees", violated=r3.violation)]
    cases, cpp_cases = r1.printed, r2.printed
    # vacuity guard (model only)
    for r, acts in ((r1, ("Body", "CalleeExit", "CallerCheck", "Deliver")),
                    (r2, ("Call", "Catch", "ChainStep", "PyExcStep", "HandlerStep", "Release", "After"))):
        for a in acts:
            if r.coverage.get(a, (0, 0))[0] == 0:
                core.die("vacuous model: action %s never taken (%r)" % (a, r.coverage))
    classes = collections.Counter((c["k"], c["hooks"], c["hazard"]) for c in cases)
    for need in (("val", 0, False), ("exc", 0, False), ("val", 1, False), ("anyexc", 0, True)):
        if classes[need] == 0:
            core.die("vacuous model: no case of class %r" % (need,))
    if len(cases) < 4500 or len(cpp_cases) < 500:
        core.die("published %d / %d cases" % (len(cases), len(cpp_cases)))
    # typed numeric layer: every class of conversion must occur among the published cases
    wcls = collections.Counter()
    for c in cases:
        rt = c["rt"]
        if rt in L.BASE_RT:
            continue
        wcls["typed"] += 1
        if c["sv"] != "none" and str(L.pconv(rt, c["sv"])) != c["sv"]:
            wcls["declared-value-changed-by-conversion"] += 1
            if c["body"] == "raise":
                wcls["raise-with-converted-declared-value"] += 1
            elif c["body"] not in ("fall", c["sv"]) and L.pconv(rt, c["body"]) == L.pconv(rt, c["sv"]):
                wcls["return-of-the-converted-declared-value"] += 1
        if c["ev"] != "none" and c["sv"] == "none" and str(L.pconv(rt, c["ev"])) != c["ev"] and c["body"] == "raise":
            wcls["raise-with-converted-implicit-value"] += 1
        if L.is_int(rt) and L.INTINFO[rt][1] < 32 and c["body"] == "raise":
            wcls["raise-narrow-type"] += 1
    for need in ("typed", "declared-value-changed-by-conversion", "raise-with-converted-declared-value",
                 "return-of-the-converted-declared-value", "raise-with-converted-implicit-value", "raise-narrow-type"):
        if wcls[need] == 0:
            core.die("vacuous model: no typed case of class %r" % need)
    cov["typed_case_classes"] = dict(wcls)
    cov["action_coverage"] = {"ExcSpec": {k: v[0] for k, v in r1.coverage.items()}, "ExcSpecCpp": {k: v[0] for k, v in r2.coverage.items()}}
    cov["case_classes"] = {"%s/hooks=%d/hazard=%s" % k: v for k, v in classes.items()}

    # ---- S vs P
    for c in cases:
        p = L.doc_rule(dict(c, spec="noexc" if (c["lg"] and c["spec"] == "dflt") else c["spec"]))
        if p != (c["k"], L.decode(c["rt"], c["v"]) if c["k"] == "val" else c["v"], c["hooks"]):
            rep.spec_drift("ExcSpec.Ref vs documented rule table", {"case": c, "python": p})
    if set(L.CPP_CLASSES) != {c["fb"] for c in cpp_cases} - {"ret", "pyerr"}:
        core.die("class list of ExcSpecCpp and lib_excspec differ")
    for c in cpp_cases:
        p = L.cpp_doc_rule(c)
        if p != (c["k"], c["v"]):
            rep.spec_drift("ExcSpecCpp.Ref vs documented table", {"case": c, "python": p})

    # ---- B1: render; build and run every module in its own pipeline thread.  The modules that do not depend on the
    # pointer-assignment study start at once, the cross-pointer modules after it.
    configs = [("default", [])]
    if tier == "thorough":
        # the same modules once more, optimised and without the fast thread-state macros
        configs.append(("O2-nofastts", ["-O2", "-DCYTHON_FAST_THREAD_STATE=0"]))
    t_phase = {"tlc": round(time.time() - t0, 1)}
    t_mod = {}      # module -> [start, build seconds, run seconds]

    def pipeline(name, src, cs, cmap, directives, options, cflags, facts):
        tb = time.time()
        b = core.build_many([core.BuildSpec(name, src, directives=directives, options=options, cflags=cflags)], workdir=work, jobs=1,
                            timeout=1800 if tier == "quick" else 3600)[0]      # default 900 s is not enough on a heavily loaded machine
        t_mod[name] = [round(tb - t0, 1), round(time.time() - tb, 1)]
        if not b.ok:
            return b, None
        # One call-table entry per case; the cells where the model itself predicts undefined behaviour (misuse) are flagged
        # risky.  The driver-side `obs_fork` (lib_excspec.PRELUDE) executes the whole table up front in forked copies of the
        # driver that stream their results: a death by signal is attributed to exactly one call and costs a fork.
        cl = [["obs_fork", cmap[i], bool(cs[i].get("misuse"))] for i in range(len(cs))]
        if facts:
            cl.append(["facts", []])
        tr = time.time()
        obs = calls.run_calls(b, cl, prelude=L.PRELUDE, timeout=900, tag="c32")
        t_mod[name].append(round(time.time() - tr, 1))
        return b, obs

    def is_cross(c):
        return c["ctx"] == "fptr" and (c["spec"], c["sv"]) != (c["pspec"], c["psv"])

    def submit(ex, mods):
        out = []
        for key, cs in mods.items():
            src, cm = L.render_module(cs)
            for config, cflags in configs:
                if config != "default" and "_w" in key:
                    continue        # the typed numeric layer is built in the default configuration only
                name = "c32_" + key + ("" if config == "default" else "_o2")
                fut = ex.submit(pipeline, name, src, cs, cm, {"legacy_implicit_noexcept": True} if key.endswith("_lg") else {}, {},
                                cflags, config == "default")
                out.append((name, key, config, cs, cm, fut))
        return out

    # Quick tier: of the misuse cells (each one kills a forked driver copy on the unchanged tree) only the explicit
    # `return -1 / -1.0 / NULL` from an `except -1 / -1.0 / NULL` function is executed, in every kind and context;
    # the other declared values and the fall-off-the-end bodies are executed in the thorough tier.
    def executed(c):
        if tier != "quick" or not c["misuse"]:
            return True
        return c["body"] == c["sv"] and c["sv"] in ("-1", "-1.0", "NULL")
    n_misuse_skipped = sum(1 for c in cases if not executed(c))

    compat = {}
    for c in cases:
        if c["ctx"] == "fptr":      # judged on the legitimate bodies only (the misuse bodies are forbidden by the documentation)
            compat[pair_of(c)] = compat.get(pair_of(c), True) and (c["agrees"] or c["misuse"])
    legs = sorted({c["lg"] for c in cases})
    rejected = set()
    with concurrent.futures.ThreadPoolExecutor(core.NCPU) as ex:
        mods = collections.OrderedDict()
        for c in cases:
            if not is_cross(c) and executed(c):
                # typed numeric layer: separate modules (narrow integer types / 32-64-bit types and float) so that no module grows
                wkey = "" if c["rt"] in L.BASE_RT else ("_wn" if L.is_int(c["rt"]) and L.INTINFO[c["rt"]][1] < 32 else "_ww")
                mods.setdefault(c["kind"] + wkey + ("_lg" if c["lg"] else ""), []).append(c)
        jobs = submit(ex, mods)
        cpp_src, cpp_map = L.render_cpp(cpp_cases)
        cpp_jobs = []
        for config, cflags in configs:
            name = "c32_cpp" + ("" if config == "default" else "_o2")
            cpp_jobs.append((name, "cpp", config, cpp_cases, cpp_map,
                             ex.submit(pipeline, name, cpp_src, cpp_cases, cpp_map, {}, {"cplus": True}, cflags, False)))
        # ---- B3: pointer assignments accepted by the compiler must be compatible in the model
        for f in [ex.submit(accept_study, sorted(p for p in compat if p[5] == lg), lg, work) for lg in legs]:
            rejected |= f.result()
        t_phase["accept_study_done"] = round(time.time() - t0, 1)
        xmods = collections.OrderedDict()
        for c in cases:
            if is_cross(c) and pair_of(c) not in rejected and executed(c):
                xmods.setdefault(c["kind"] + "_x" + ("_lg" if c["lg"] else ""), []).append(c)
        jobs += submit(ex, xmods)
        results = [(name, key, config, cs, cm, fut.result()) for name, key, config, cs, cm, fut in jobs]
        cpp_results = [(name, key, config, cs, cm, fut.result()) for name, key, config, cs, cm, fut in cpp_jobs]
    t_phase["build_and_run_done"] = round(time.time() - t0, 1)

    n_acc_cross = 0
    for p in sorted(compat):
        same = (p[0], p[1]) == (p[2], p[3])
        d = {"part": "ptr-assign", "spec": p[0], "sv": p[1], "pspec": p[2], "psv": p[3], "rt": p[4], "legacy": p[5]}
        if p not in rejected and not compat[p]:
            rep.disagree(d, "accepted-incompatible-pointer-type",
                         {"pair": p, "why": "the model shows a body whose outcome through this pointer type differs from the declared rule"})
        if p in rejected and same:
            rep.disagree(d, "rejected-identical-pointer-type", {"pair": p})
        if p not in rejected and not same:
            n_acc_cross += 1
    cov["pointer_pairs"] = {"total": len(compat), "rejected": len(rejected), "accepted_cross": n_acc_cross,
                            "compatible_but_rejected": sum(1 for p in compat if p in rejected and compat[p])}

    n_eval = 0
    nontriv = set()
    samples = []
    good = []       # (want, got) of agreeing cases, for the binding self-test
    facts_checked = 0
    modules = []

    def judge(name, config, cs, cmap, res, expected, descf, facts):
        nonlocal n_eval, facts_checked
        b, obs = res
        modules.append(name)
        if not b.ok:
            rep.disagree({"part": "build", "module": name.replace("_o2", ""), "stage": b.stage, "config": config}, "build-failed",
                         {"errors": (b.errors or "")[-3000:]})
            return
        for i, (c, o) in enumerate(zip(cs, obs)):
            want = expected(c)
            try:
                got = json.loads(o)
            except (TypeError, ValueError):
                got = o
            n_eval += 1
            if want is None or want[0] == "e" or c.get("hooks") or ("fb" in c and c["fb"] != "ret") or \
                    ("body" in c and body_class(c) != "other"):
                nontriv.add(json.dumps(c, sort_keys=True))
            if want is None:
                # misuse body seen through a different (accepted) pointer type: only "no crash, no stale error" is demanded
                if isinstance(got, list) and (got[0] == "e" or got[2] is False):
                    continue
                want = ["e", None, []]
            if L.obs_matches(want, got):
                good.append((want, got))
                if rng.random() < 0.01:
                    samples.append({"module": name, "call": cmap[i], "case": c, "observed": got})
            else:
                rep.disagree(descf(c, config), L.classify(want, o), {"module": name, "case": c, "want": want, "got": o,
                                                                     "source_hint": "harness/lib_excspec.py render_module/render_cpp"})
        if facts:
            fd = obs[-1]
            if not (isinstance(fd, list) and fd and fd[0] == "d"):
                rep.disagree({"part": "facts", "module": name}, "facts-unavailable", {"got": fd})
                return
            fmap = {k: v for k, v in fd[1:]}
            seen = set()
            for c in cs:
                fn = L.fname(c["kind"], c["spec"], c["rt"], c["sv"], c["ctx"] == "nogil")
                if fn in seen:
                    continue
                seen.add(fn)
                got = parse_fact(c["rt"], fmap.get(fn, "?"))
                want = (c["ev"], c["ec"])
                facts_checked += 1
                if got != want:
                    rep.disagree({"part": "facts", "kind": c["kind"], "spec": c["spec"], "rt": c["rt"], "sv": c["sv"], "legacy": bool(c["lg"])},
                                 "analysed-type-differs", {"function": fn, "typeof": fmap.get(fn), "model": want})

    for name, key, config, cs, cm, res in results:
        judge(name, config, cs, cm, res, lambda c: None if (c["misuse"] and not desc_of(c)["ptr_same"]) else L.expected_obs(c),
              desc_of, config == "default")
    for name, key, config, cs, cm, res in cpp_results:
        judge(name, config, cs, cm, res, L.cpp_expected_obs,
              lambda c, cfgname: {"part": "cpp", "decl": c["decl"], "thrown": c["fb"], "rt": c["rt"], "ctx": c["ctx"], "config": cfgname}, False)

    # ---- binding demonstration: corrupted expectations must be rejected
    if len(good) < 1000:
        if rep.n_violations() == 0:
            core.die("only %d agreeing cases" % len(good))
    else:
        n_rej = 0
        picks = rng.sample(good, 200)
        for want, got in picks:
            w = list(want)
            if w[0] == "e":
                w[1] = "ValueError" if w[1] != "ValueError" else "KeyError"
            elif rng.random() < 0.5:
                w[-1] = w[-1] + ["KeyError"]
            else:
                w[1] = (w[1] or "") + "1"
            if not L.obs_matches(w, got):
                n_rej += 1
        if n_rej != len(picks):
            core.die("binding self-test: %d of %d corrupted expectations accepted" % (len(picks) - n_rej, len(picks)))
        cov["binding_selftest_rejected"] = n_rej

    if len(samples) < 3:
        samples += [{"want": w, "observed": g} for w, g in good[:3]]
    rng.shuffle(samples)
    cov.update({
        "states": r1.generated + r2.generated, "distinct_states": r1.distinct + r2.distinct,
        "transitions": r1.generated + r2.generated,
        "traces_validated_against_impl": n_eval, "evaluations": n_eval, "distinct_nontrivial": len(nontriv),
        "exhaustive": True, "cases_c": len(cases), "cases_cpp": len(cpp_cases),
        "cases_not_built_because_cython_rejects_the_pointer_assignment": sum(1 for c in cases if c["ctx"] == "fptr" and pair_of(c) in rejected),
        "misuse_cells_left_to_the_thorough_tier": n_misuse_skipped,
        "function_types_compared_with_model": facts_checked, "modules": sorted(modules), "configs": [c for c, _ in configs],
        "phase_s": t_phase, "module_start_build_run_s": t_mod,
        "rule": "every state of ExcSpec (kind x specification x return type [incl. the C integer types of every width/signedness and float] x "
                "declared value x body x caller context x pointer type"
                " [x legacy_implicit_noexcept in thorough]) and of ExcSpecCpp (declaration x thrown class x return type x context) is one "
                "call on compiled code; non-trivial = an exception, an unraisable report, or a returned value that coincides with a "
                "declared/implicit sentinel or the zero default",
        "samples": samples[:5],
    })
    rc = rep.finish()
    cov["known_findings"] = rep.kf_summary()
    core.write_evidence(PROP, tier, seed, "model_checking", cov, time.time() - t0,
                        assumptions=["values are tags: four ints, four doubles (incl. NaN), two pointers, two structs; the model treats a value only "
                                     "through equality with the exception value",
                                     "typed integer/float return types: LP64, two's complement, 8-bit char, 16-bit short, IEEE single precision "
                                     "(model: spec/ExcSpec.tla IntInfo; oracle: lib_excspec.pconv)",
                                     "a struct result after falling off the end / after a noexcept failure is unspecified (not compared)",
                                     "C-context callers are cdef functions declared `except *` of the same return type",
                                     "exception TYPE is compared, not the message or traceback",
                                     "expected outcomes for C++ follow the documented table over the ISO C++ exception hierarchy"],
                        violations=rep.n_violations())
    return rc


def replay(path, seed):
    """Re-run the cases stored in a replay file (parts `c` and `cpp`) on a freshly built module."""
    with open(path) as f:
        rec = json.load(f)
    d = rec["descriptor"]
    cs = [x["case"] for x in rec["cases"] if "case" in x]
    if d.get("part") not in ("c", "cpp") or not cs:
        print("replay: descriptor %r is not a call case; re-run the check" % (d,))
        return 2
    work = core.subdir("c32replay")
    if d["part"] == "c":
        src, cm = L.render_module(cs)
        spec = core.BuildSpec("c32_replay", src, directives={"legacy_implicit_noexcept": True} if cs[0]["lg"] else {})
        exp = L.expected_obs
    else:
        src, cm = L.render_cpp(cs)
        spec = core.BuildSpec("c32_replay", src, options={"cplus": True})
        exp = L.cpp_expected_obs
    b = core.build_many([spec], workdir=work, jobs=1)[0]
    if not b.ok:
        print("replay: build failed at stage %s\n%s" % (b.stage, (b.errors or "")[-2000:]))
        return 1
    obs = calls.run_calls(b, [["obs_fork", cm[i], True] for i in range(len(cs))], prelude=L.PRELUDE, timeout=600, tag="c32")
    rc = 0
    for c, o in zip(cs, obs):
        want = exp(c)
        try:
            got = json.loads(o)
        except (TypeError, ValueError):
            got = o
        ok = L.obs_matches(want, got)
        print("%s case=%s want=%s got=%s" % ("ok  " if ok else "DIFF", json.dumps(c, sort_keys=True), want, got))
        rc = rc or (0 if ok else 1)
    print("source: %s" % os.path.join(b.dir, "c32_replay.pyx"))
    return rc
