"""C41 — compiler directives apply exactly within their scope; directive strings are parsed
to the documented value or rejected.

spec/Directives.tla   : scope trees (module -> def / cdef function / cdef class / class / with-block
    -> ... -> lambda / generator expression / comprehension leaves) with decorator / with-block
    overrides of two abstract boolean directives, and the module-wide sources header comment /
    compiler option / default.  Reference = nearest enclosing override, else header > option >
    default (as a candidate *set*, checked to be a singleton); implementation-shaped = dictionary
    propagation.  TLC: every tree is a state; invariants Unambiguous, DictAgrees, NoLeak, Applies,
    SourceOrder; every state is published with the demanded value at every node.
    Every node carries its *list* of decorators / with-items; in the `stack` configurations the
    lists are arbitrary sequences (repeated directives: first decorator / last with-item wins;
    invariants Precedence, OwnAgrees against the transcription of _extract_directives).
spec/DirectiveText.tla: directive value texts (character sequences built from chunks) and
    `name=value,...` lists (token sequences), with the documented result per directive type.

Binding
  B3 (facts): each tree is rendered as .pyx with one marker (`a // b` on C ints) per scope body /
    leaf; a child process runs the *real* pipeline of the snapshot and exports the directives the
    compiler associates with each marker after InterpretCompilerDirectives (tree), in type analysis
    (ana) and in C code generation (gen), and with each function at code generation (fgen).
    Options travel as CompilationOptions, as `-X` through CmdLine, or through cythonize().
  B1 (behaviour): a sample of trees is compiled to C and run: -7 // 2 (cdivision), 1 // 0 where
    cdivision is off (ZeroDivisionError), mv[-1] / mv[3] on a 3-element slice of a 5-element buffer
    (wraparound / boundscheck; memory-safe whatever the compiler did), type of the function object
    (binding).
  Texts: the real parse_directive_value / parse_directive_list on every published text; samples
    end to end through `# cython:` headers and `-X`; the per-type rule applied to every name of the
    real directive table; header directives that are not allowed at module scope.
P (independent oracle): lib_directives.p_effective / p_value / p_list.  S != P is spec drift.
"""
import concurrent.futures
import json
import os
import random
import re
import time

import calls
import core
import lib_directives as L

PROP = "C41"
CHILD = os.path.join(os.path.dirname(os.path.dirname(os.path.abspath(__file__))), "lib_directives_child.py")
TREE_ACTIONS = ["AddDef", "AddCfn", "AddCClass", "AddPyClass", "AddWith", "AddLam", "AddGen", "AddComp"]
PRELUDE = "import array\nBIG = array.array('i', [99, 10, 20, 30, 77])\nMV = memoryview(BIG)[1:4]\n"


# ----------------------------------------------------------------------------- TLC

def run_tlc(tier, cov):
    jobs = [("Directives", "Directives_tree3", False), ("Directives", "Directives_src", True),
            ("DirectiveText", "DirectiveText_v3" if tier == "quick" else "DirectiveText_v4", True),
            ("DirectiveText", "DirectiveText_l1a", True),
            ("DirectiveText", "DirectiveText_l2s" if tier == "quick" else "DirectiveText_l2m", False)]
    jobs.append(("Directives", "Directives_stack" if tier == "quick" else "Directives_stackL", False))
    if tier == "thorough":
        jobs.append(("Directives", "Directives_tree2", True))
        jobs.append(("Directives", "Directives_tree3all", False))
    w = max(2, core.NCPU // 4)

    def one(j):
        r = core.tlc(j[0], cfg=j[1], workers=w, timeout=3000, coverage=j[2], heap="3g")
        if not r.ok and r.violation is None:
            # the JVM died without a verdict (seen once on an overloaded machine): one more try
            r = core.tlc(j[0], cfg=j[1], workers=w, timeout=3000, coverage=j[2], heap="3g")
        return r
    with concurrent.futures.ThreadPoolExecutor(max_workers=6 if tier == "quick" else 4) as ex:
        rs = list(ex.map(one, jobs))
    out = {}
    for j, r in zip(jobs, rs):
        if not r.ok:
            import sys
            sys.stderr.write(r.out[-5000:])
            core.die("TLC failed (%s): %s" % (r.violation or r.rc, r.cmd))
        cov["tlc"].append(dict(r.summary(), config=j[1]))
        out["stack" if j[1].startswith("Directives_stack") else j[1].split("_", 1)[1]] = r
    # vacuity guard (model side): every action produced states
    acts = {}
    for k in ("src", "tree2"):
        if k not in out:
            continue
        for a, (d, t) in out[k].coverage.items():
            acts[a] = acts.get(a, 0) + d
    for a in TREE_ACTIONS:
        if not acts.get(a):
            core.die("vacuous model: action %s of Directives never produced a state (%r)" % (a, acts))
    tv = out["v3" if tier == "quick" else "v4"].coverage
    for a in ("AddLetters", "AddDigit", "AddBlank", "AddSign"):
        if not tv.get(a, (0, 0))[0]:
            core.die("vacuous model: action %s of DirectiveText never produced a state" % a)
    if not out["l1a"].coverage.get("AddItem", (0, 0))[0]:
        core.die("vacuous model: AddItem never produced a state")
    cov["action_coverage"] = dict(acts, **{a: tv[a][0] for a in ("AddLetters", "AddDigit", "AddBlank", "AddSign")})
    cov["action_coverage"]["AddItem"] = out["l1a"].coverage["AddItem"][0]
    for k in ("tree3", "src", "tree2", "stack", "l1a"):
        if k not in out:
            continue
        if len(out[k].printed) != out[k].distinct:
            core.die("Directives_%s: %d states but %d published cases" % (k, out[k].distinct, len(out[k].printed)))
    # vacuity guard for the decorator / with-item lists: every class of repeated directive was generated
    cls = {}
    for c in out["stack"].printed:
        for nd, sh in zip(c["nodes"], c["shadow"]):
            for d in "pq":
                key = ("with" if nd["kind"] == "with" else "decorator") + ":" + sh[d]
                cls[key] = cls.get(key, 0) + 1
    for kd in ("decorator", "with"):
        for sc in ("none", "single", "same", "restore", "flip"):
            if not cls.get(kd + ":" + sc):
                core.die("vacuous model: no %s list of class %s in Directives_stack (%r)" % (kd, sc, cls))
    cov["list_classes"] = cls
    return out


# ----------------------------------------------------------------------------- scope part

def xargs_for(opts, rng):
    """-X strings (relaxed bool spellings are allowed on the command line)"""
    out = []
    for n, v in sorted(opts.items()):
        sp = rng.choice([("True", "False"), ("true", "false"), ("yes", "no"), ("Yes", "NO")])
        out.append("%s=%s" % (n, sp[0] if v else sp[1]))
    if len(out) == 2 and rng.random() < 0.5:
        return [", ".join(out)]
    return out


def make_b3_modules(groups, rng, per_module, tag):
    """groups: {src_key: [cases]} -> list of (Module, job)"""
    mods = []
    transports = ["options", "cmdline", "cythonize"]
    n = 0
    for sk in sorted(groups):
        cs = groups[sk]
        for off in range(0, len(cs), per_module):
            chunk = cs[off:off + per_module]
            preal, qreal = rng.choice(L.P_REAL), rng.choice(L.Q_REAL)
            name = "%s%d" % (tag, n)
            m = L.Module(name, chunk, preal, qreal, b1=False, with_style=n)
            tr = transports[n % 3]
            opts = m.directive_opts("opt")
            job = {"name": name, "source": m.source, "dirs": L.ALL_REAL, "transport": tr, "directives": opts}
            if tr == "cmdline":
                job["xargs"] = xargs_for(opts, rng)
            mods.append((m, job))
            n += 1
    return mods


def run_fact_jobs(mods, par, tag="b3"):
    wd = core.subdir("c41facts_" + tag)
    for i, (m, job) in enumerate(mods):
        job["workdir"] = os.path.join(wd, job["name"])
    # spread the modules over children (import cost is paid once per child)
    nchild = max(1, min(par * 2, len(mods) // 2 or 1))
    buckets = [[] for _ in range(nchild)]
    order = sorted(range(len(mods)), key=lambda i: -len(mods[i][1]["source"]))
    for n, i in enumerate(order):
        buckets[n % nchild].append(i)

    def one(bi):
        idx = buckets[bi]
        jf = os.path.join(wd, "jobs%d.json" % bi)
        with open(jf, "w") as f:
            json.dump({"jobs": [mods[i][1] for i in idx]}, f)
        ch = core.run_child(CHILD, ["facts", jf], with_snapshot=True, timeout=3000, mem_mb=6000)
        recs = {r["name"]: r for r in ch.json_lines()}
        if ch.rc != 0 or len(recs) != len(idx):
            core.die("facts child failed rc=%s: %s" % (ch.rc, ch.err[-2000:]))
        return recs
    res = {}
    with concurrent.futures.ThreadPoolExecutor(max_workers=par) as ex:
        for recs in ex.map(one, range(nchild)):
            res.update(recs)
    return res


def judge_facts(rep, m, job, res, stats, corrupt=None):
    """compare the exported directives with the demand; returns number of comparisons"""
    n = 0
    if res["crash"] or res["num_errors"]:
        rep.disagree({"part": "scope", "point": "compile", "kind": "module", "differs_from_owner": False, "owner_kind": "mod"},
                     "compiler-crash" if res["crash"] else "compile-error",
                     {"module": job["name"], "crash": res["crash"], "stderr": res["stderr"][-1500:],
                      "tb": res.get("crash_tb"), "source": m.source[:6000], "job": {k: job.get(k) for k in ("transport", "directives", "xargs")}})
        return 0
    f = res["facts"]
    if job["transport"] == "cmdline":
        eo = res.get("effective_options") or {}
        for k, v in job["directives"].items():
            n += 1
            if eo.get(k) != v:
                rep.disagree({"part": "scope", "point": "cmdline", "kind": "module", "differs_from_owner": False, "owner_kind": "mod"},
                             "wrong-directive", {"xargs": job.get("xargs"), "want": job["directives"], "got": eo})
    for line, rec in m.sites.items():
        exp = m.expected_vector(rec)
        if corrupt is not None and corrupt == rec["sid"]:
            exp = dict(exp, **{m.preal: not exp[m.preal]})
        for point in ("tree", "ana", "gen"):
            got = f[point].get(str(line))
            if not got:
                core.die("no %s fact for marker %s (line %d) of module %s" % (point, rec["sid"], line, job["name"]))
            for g in got:
                n += 1
                diff = sorted(k for k in exp if g.get(k) != exp[k])
                if diff:
                    stats["fact_diffs"] += 1
                    for d in diff:
                        rep.disagree(dict(m.descriptor(rec, point, d), transport=job["transport"]), "wrong-directive",
                                     {"module": job["name"], "site": rec["sid"], "line": line, "directive": d,
                                      "want": exp[d], "got": g.get(d), "case": m.cases[rec["case"]],
                                      "mapping": {"p": m.preal, "q": m.qreal},
                                      "source_excerpt": "\n".join(m.lines[max(0, line - 12):line + 1])})
    for name, (k, i) in m.funcs.items():
        exp = L.real_vector(m.cases[k], i, m.preal, m.qreal)
        rec = {"case": k, "node": i, "kind": m.cases[k]["nodes"][i - 1]["kind"]}
        for point in ("ftree", "fgen"):
            got = f[point].get(name)
            if not got:
                core.die("no %s fact for function %s of module %s" % (point, name, job["name"]))
            for g in got:
                n += 1
                for d in sorted(k2 for k2 in exp if g.get(k2) != exp[k2]):
                    rep.disagree(dict(m.descriptor(rec, point, d), transport=job["transport"]), "wrong-directive",
                                 {"module": job["name"], "function": name, "directive": d, "want": exp[d], "got": g.get(d),
                                  "case": m.cases[k], "mapping": {"p": m.preal, "q": m.qreal}})
    return n


def todict(o):
    if isinstance(o, list) and o and o[0] == "d":
        return {k: v for k, v in o[1:]}
    return o


def probe_directive(key):
    return {"d": ["cdivision"], "i": ["wraparound", "boundscheck"], "j": ["boundscheck"], "B": ["binding"]}[key[-1]]


def execute_run(m, b):
    """B1: run one built module -> (calls, meta, observations)"""
    cl = [["mod_results", []]]
    meta = [("mod", None, L.mod_expectations(m))]
    for k in range(len(m.cases)):
        exp, zc = L.run_expectations(m, k)
        cl.append(["k%d_run" % k, [-7, 2, 0, {"py": "MV"}, -1, 3]])
        meta.append(("run", k, exp))
        for z, key in zc:
            cl.append(["k%d_run" % k, [1, 0, z, {"py": "MV"}, -1, 3], True])
            meta.append(("zero", k, {key: "ZE"}))
    obs = calls.run_calls(b, cl, prelude=PRELUDE, timeout=900)
    return cl, meta, obs


def judge_run(rep, m, spec, executed, stats):
    cl, meta, obs = executed
    n = 0
    for (what, k, exp), o, c in zip(meta, obs, cl):
        o = todict(o)
        for key, want in sorted(exp.items()):
            if want is None:
                stats["no_demand"] += 1
                continue
            n += 1
            sid = key[:-1]
            rec = m.site_by_id.get(sid)
            if rec is None:     # binding probe of a function
                kk, ii = m.funcs[sid]
                rec = {"case": kk, "node": ii, "kind": m.cases[kk]["nodes"][ii - 1]["kind"]}
            dirs = probe_directive(key)
            dfr = L.deferred_real(m.cases[rec["case"]], rec["node"], m.preal, m.qreal)
            shd = [L.shadow_real(m.cases[rec["case"]], rec["node"], d, m.preal, m.qreal) for d in dirs]
            desc = dict(m.descriptor(rec, "run"), differs_from_owner=any(d in dfr for d in dirs), probe=what + ":" + key[-1],
                        shadow=next((x for x in shd if x not in ("none", "single")), shd[0]))
            if isinstance(o, dict):
                got = o.get(key, "<absent>")
                if got != "<absent>":
                    got = L.norm_obs(key, got)
                if got == want:
                    continue
                oc = "wrong-value"
            else:
                got = o
                oc = "crash" if isinstance(o, str) and (o.startswith("CRASH") or o == "TIMEOUT") else "exception"
            stats["run_diffs"] += 1
            rep.disagree(desc, oc, {"module": m.name, "call": c, "key": key, "want": want, "got": got,
                                    "case": m.cases[rec["case"]], "mapping": {"p": m.preal, "q": m.qreal},
                                    "options": spec.directives, "source": m.source[:8000]})
    return n


# ----------------------------------------------------------------------------- text part

def chars(c):
    return "".join(c["chars"])


def p_value(text):
    """P: documented results, straight from the documentation / Python's int()"""
    sb = "T" if text == "True" else ("F" if text == "False" else "R")
    rb = sb
    if rb == "R":
        low = text.lower()
        rb = "T" if low in ("true", "yes") else ("F" if low in ("false", "no") else "R")
    try:
        iv = ["I", int(text)]
    except ValueError:
        iv = ["R"]
    cs = {"bytes": "bytes", "bytearray": "bytearray", "str": "str", "unicode": "str"}.get(text, "R")
    return {"sbool": sb, "rbool": rb, "int": iv, "cstr": cs}


WARN_DIRS = ["warn.undeclared", "warn.unreachable", "warn.maybe_uninitialized", "warn.unused", "warn.unused_arg",
             "warn.unused_result", "warn.multiple_declarators", "warn.deprecated.DEF", "warn.deprecated.IF"]


def p_list(text, relaxed, ignore_unknown):
    """P: independent reading of the documented list format; returns dict or None (rejected)"""
    res = {}
    for item in text.split(","):
        item = item.strip()
        if not item:
            continue
        if "=" not in item:
            return None
        name, value = item.split("=", 1)
        name, value = name.strip(), value.strip()

        def pbool(v):
            r = p_value(v)["rbool" if relaxed else "sbool"]
            return None if r == "R" else (r == "T")
        if name in ("cdivision", "boundscheck"):
            b = pbool(value)
            if b is None:
                return None
            res[name] = b
        elif name == "c_string_type":
            v = p_value(value)["cstr"]
            if v == "R":
                return None
            res[name] = v
        elif name == "language_level":
            res[name] = value
        elif name == "test_assert_path_exists":
            res.setdefault(name, []).append(value)
        elif name == "warn.all":
            b = pbool(value)
            if b is None:
                return None
            for w in WARN_DIRS:
                res[w] = b
        elif name in ("nogil", "warn"):
            return None
        elif not ignore_unknown:
            return None
    return res


def decode_map(enc):
    if not enc["ok"]:
        return None
    out = {}
    for n, v in zip(enc["names"], enc["vals"]):
        if v.startswith("B:"):
            out[n] = v == "B:T"
        elif v.startswith("S:"):
            out[n] = v[2:]
        elif v.startswith("L:"):
            out[n] = v[2:].split("|")
        else:
            core.die("bad encoded value %r" % v)
    return out


def run_parse(req, n=0):
    wd = core.subdir("c41parse")
    rf, of = os.path.join(wd, "req%d.json" % n), os.path.join(wd, "out%d.json" % n)
    req = dict(req, out=of)
    with open(rf, "w") as f:
        json.dump(req, f)
    ch = core.run_child(CHILD, ["parse", rf], with_snapshot=True, timeout=1200)
    if ch.rc != 0 or not os.path.exists(of):
        core.die("parse child failed rc=%s: %s" % (ch.rc, ch.err[-2000:]))
    with open(of) as f:
        return json.load(f)


def obs_class_of(o):
    return "accepted" if o[0] == "ok" else ("rejected" if o[1] == "ValueError" else "internal-error:" + o[1])


#                directive        relaxed  rule of the spec
VALUE_PROBES = [("cdivision", False, "sbool"), ("boundscheck", True, "rbool"), ("freelist", False, "int"),
                ("c_string_type", False, "cstr"), ("language_level", False, "str"),
                ("infer_types", False, "sbool"), ("binding", True, "rbool"), ("c_compile_guard", True, "str")]
SWEEP_TEXTS = ["True", "False", "yes", "None", "1", "str"]


def prepare_lists(rep, tl, tier):
    lcases = {}
    for key in ("l1a", "l2s" if tier == "quick" else "l2m"):
        for c in tl[key].printed:
            lcases["".join(c["toks"])] = c
    texts = sorted(lcases)
    reqs, meta = [], []
    for t in texts:
        c = lcases[t]
        for way, relaxed, ign in (("header", False, True), ("xopt", True, False)):
            s = decode_map(c[way])
            p = p_list(t, relaxed, ign)
            if p != s:
                rep.spec_drift("DirectiveText list rules vs documentation", {"text": t, "way": way, "spec": s, "python": p})
            reqs.append([t, relaxed, ign])
            meta.append((t, way, s, c["toks"]))
    return lcases, texts, reqs, meta


def text_part(rep, tl, tier, rng, cov, stats):
    # ---- values
    vrec = tl["v3" if tier == "quick" else "v4"]
    published = {}
    for c in vrec.printed:
        published[chars(c)] = c
    # universe of texts = what TLC explored (re-enumerated here; the count is cross-checked)
    chunks = ["T", "F", "t", "f", "rue", "RUE", "alse", "y", "Y", "es", "ES", "n", "N", "o", "O", " ", "0", "1", "-", "_",
              "str", "bytes", "unicode", "None"]
    nmax = 3 if tier == "quick" else 4
    level, seen = {("", 0)}, {("", 0)}
    for _ in range(nmax):
        level = {(t + c, s + 1) for t, s in level for c in chunks}
        seen |= level
    if len(seen) != vrec.distinct:
        core.die("text universe: %d (text, steps) pairs here, %d states in TLC" % (len(seen), vrec.distinct))
    universe = sorted({t for t, s in seen})
    rejected_all = {"sbool": "R", "rbool": "R", "int": ["R"], "cstr": "R"}
    reqs, meta = [], []
    for t in universe:
        s = published.get(t)
        if s is None:
            if tier == "quick":
                core.die("text %r not published" % t)
            s = rejected_all     # Dump = "accepted": unpublished texts are rejected by every typed rule
        s = {k: s[k] for k in ("sbool", "rbool", "int", "cstr")}
        p = p_value(t)
        if p != s:
            rep.spec_drift("DirectiveText value rules vs documentation", {"text": t, "spec": s, "python": p})
        for name, relaxed, rule in VALUE_PROBES if tier == "quick" else VALUE_PROBES[:5]:
            reqs.append([name, t, relaxed])
            meta.append((t, name, relaxed, rule, s.get(rule)))
    vreqs, vmeta = reqs, meta
    lcases, texts, lreqs, lmeta = prepare_lists(rep, tl, tier)
    # one child: values, lists, the directive table and the per-name sweep
    nsplit = max(1, min(6, len(vreqs) // 150000))
    step = (len(vreqs) + nsplit - 1) // nsplit
    parts = [vreqs[i:i + step] for i in range(0, len(vreqs), step)]
    with concurrent.futures.ThreadPoolExecutor(max_workers=nsplit) as ex:
        futs = [ex.submit(run_parse, {"value": parts[0], "list": lreqs, "table": True, "sweep_texts": SWEEP_TEXTS}, 0)]
        futs += [ex.submit(run_parse, {"value": pt}, i) for i, pt in enumerate(parts[1:], 1)]
        pouts = [f.result() for f in futs]
    pout = pouts[0]
    out = [o for po in pouts for o in po["value"]]
    if len(out) != len(vreqs):
        core.die("parse children returned %d of %d value results" % (len(out), len(vreqs)))
    n_acc = 0
    for (t, name, relaxed, rule, want), o in zip(meta, out):
        if rule in ("sbool", "rbool"):
            w = ["exc", "ValueError"] if want == "R" else ["ok", want == "T"]
        elif rule == "int":
            w = ["exc", "ValueError"] if want == ["R"] else ["ok", want[1]]
        elif rule == "cstr":
            w = ["exc", "ValueError"] if want == "R" else ["ok", want]
        else:
            w = ["ok", t]
        if w[0] == "ok":
            n_acc += 1
        if o != w or (o[0] == "ok" and type(o[1]) is not type(w[1])):
            stats["text_diffs"] += 1
            rep.disagree({"part": "value", "rule": rule, "expected": "accepted" if w[0] == "ok" else "rejected"},
                         "wrong-value" if (o[0] == "ok" and w[0] == "ok") else obs_class_of(o),
                         {"name": name, "text": t, "relaxed_bool": relaxed, "want": w, "got": o})
    stats["value_evals"] = len(meta)
    stats["value_texts"] = len(universe)
    stats["value_accepting"] = n_acc
    # binding self-test: a corrupted expectation must be caught
    k = next(i for i, m_ in enumerate(meta) if m_[3] == "sbool" and m_[4] == "T")
    if out[k] != ["ok", True] or out[k] == ["ok", False]:
        core.die("binding self-test (text part) failed")

    # ---- lists
    meta, out = lmeta, pout["list"]
    n_ok = 0
    for (t, way, s, toks), o in zip(meta, out):
        w = ["exc", "ValueError"] if s is None else ["ok", s]
        if s:
            n_ok += 1
        if o != w:
            stats["text_diffs"] += 1
            names = sorted({x for x in toks if x in ("nogil", "warn")})
            rep.disagree({"part": "list", "way": way, "expected": "accepted" if s is not None else "rejected",
                          "type_class": "novalue" if names else "typed", "names": ",".join(names)},
                         "wrong-value" if (o[0] == "ok" and w[0] == "ok") else obs_class_of(o),
                         {"text": t, "way": way, "want": w, "got": o})
    stats["list_evals"] = len(meta)
    stats["list_texts"] = len(texts)
    stats["list_nonempty_results"] = n_ok

    # ---- end to end: header comments and -X (sample)
    cand = [t for t in texts if re.match(r"^[\w.]+ ?=", t) and not any(x in lcases[t]["toks"] for x in ("nogil", "warn", "test_assert_path_exists"))]
    pick = core.sample(cand, 40 if tier == "quick" else 300, rng)
    dirs = ["cdivision", "boundscheck", "c_string_type", "language_level"] + WARN_DIRS
    jobs, jmeta = [], []
    for n, t in enumerate(pick):
        c = lcases[t]
        body = "def f():\n    return 1\n"
        jobs.append({"name": "e2h%d" % n, "source": "# cython: %s\n%s" % (t, body), "dirs": dirs, "transport": "options", "directives": {}})
        jmeta.append((t, "header", decode_map(c["header"])))
        jobs.append({"name": "e2x%d" % n, "source": body, "dirs": dirs, "transport": "cmdline", "directives": {}, "xargs": [t]})
        jmeta.append((t, "xopt", decode_map(c["xopt"])))
    table = pout.get("table")
    if not table or len(table["types"]) < 50:
        core.die("directive table not exported")
    name_sweep(rep, table, pout["sweep"], stats)
    hjobs, hmeta = header_scope_jobs(table)
    mods = [(None, j) for j in jobs + hjobs]
    res = run_fact_jobs(mods, 8, "e2e")
    header_scope_judge(rep, hjobs, hmeta, res, stats)
    for j, (t, way, s) in zip(jobs, jmeta):
        r = res[j["name"]]
        desc = {"part": "list-e2e", "way": way, "expected": "accepted" if s is not None else "rejected"}
        detail = {"text": t, "way": way, "want": s, "crash": r["crash"], "num_errors": r["num_errors"], "stderr": r["stderr"][-800:]}
        stats["e2e"] += 1
        if s is None:
            ok = (way == "header" and not r["crash"] and r["num_errors"]) or \
                 (way == "xopt" and r["crash"] in ("ValueError", "SystemExit"))
            if not ok:
                rep.disagree(desc, "accepted" if not r["crash"] else "internal-error:" + r["crash"], detail)
            continue
        if way == "xopt":
            got = r["effective_options"]
            if got is None:
                rep.disagree(desc, "rejected" if r["crash"] in ("ValueError", "SystemExit") else "internal-error:%s" % r["crash"], detail)
                continue
        else:
            got = (r["facts"] or {}).get("module")
            if got is None:
                # a language_level other than 2/3/3str is diagnosed by the parser itself: not a matter of directive strings
                if not ("language_level" in s and s["language_level"] not in ("2", "3", "3str")):
                    rep.disagree(desc, "rejected" if not r["crash"] else "internal-error:%s" % r["crash"], detail)
                continue
        bad = {k: (v, got.get(k)) for k, v in s.items() if k in dirs and got.get(k) != v}
        if bad:
            rep.disagree(desc, "wrong-value", dict(detail, diff=bad))

    return table


def name_sweep(rep, table, sweep, stats):
    """every name that parse_directive_list can reach (the keys of the defaults table):
    bool -> the bool rules, str -> accepted unchanged, list -> [text], validators -> accepted or
    ValueError, no string form -> rejected (ValueError)."""
    if len(sweep) != len(table["types"]) * len(SWEEP_TEXTS) * 2:
        core.die("sweep incomplete")
    for name, t, relaxed, o in sweep:
        tclass = table["types"][name]
        stats["sweep"] += 1
        p = p_value(t)
        if tclass == "bool":
            r = p["rbool" if relaxed else "sbool"]
            w = ["exc", "ValueError"] if r == "R" else ["ok", {name: r == "T"}]
        elif tclass == "str":
            w = ["ok", {name: t}]
        elif tclass == "list":
            w = ["ok", {name: [t]}]
        elif tclass == "int":
            w = ["exc", "ValueError"] if p["int"] == ["R"] else ["ok", {name: p["int"][1]}]
        elif tclass == "validator":
            w = None     # accepted (some string) or ValueError
        else:
            w = ["exc", "ValueError"]
        good = (o == w) if w is not None else (o[0] == "ok" and isinstance(o[1].get(name), str)) or o == ["exc", "ValueError"]
        if not good:
            rep.disagree({"part": "name-sweep", "type_class": tclass, "names": name,
                          "expected": "any" if w is None else ("accepted" if w[0] == "ok" else "rejected")},
                         obs_class_of(o), {"name": name, "text": t, "relaxed_bool": relaxed, "want": w, "got": o})


def header_scope_jobs(table):
    """a header comment that names a directive which is not allowed at module scope must be
    diagnosed (compile error), like the same directive in any other wrong place"""
    jobs, meta = [], []
    for name, tclass in sorted(table["types"].items()):
        scopes = table["scopes"].get(name)
        if not scopes or "module" in scopes or tclass not in ("bool", "str", "list"):
            continue
        val = "True" if tclass == "bool" else "x"
        jobs.append({"name": "hs%d" % len(jobs), "source": "# cython: %s=%s\ndef f():\n    return 1\n" % (name, val),
                     "dirs": [name], "transport": "options", "directives": {}})
        meta.append((name, tclass))
    return jobs, meta


def header_scope_judge(rep, jobs, meta, res, stats):
    for j, (name, tclass) in zip(jobs, meta):
        r = res[j["name"]]
        stats["header_scope"] += 1
        if r["crash"] or not r["num_errors"]:
            rep.disagree({"part": "header-scope", "allowed_in_module": False},
                         ("compiler-crash:" + r["crash"]) if r["crash"] else "accepted",
                         {"name": name, "source": j["source"], "crash": r["crash"], "tb": r.get("crash_tb"), "stderr": r["stderr"][-800:]})


# ----------------------------------------------------------------------------- main

def group_by_src(cases):
    g = {}
    for c in cases:
        g.setdefault(L.src_key(c), []).append(c)
    return g


def has_deferred(c):
    return any(d["p"] or d["q"] for d in c["deferred"])


STACK_STRATA = [  # (name, predicate, quick, thorough)
    ("decorator-restore", lambda c: L.has_class(c, ("restore",), "dec"), 60, 500),
    ("decorator-flip", lambda c: L.has_class(c, ("flip",), "dec"), 24, 200),
    ("decorator-same", lambda c: L.has_class(c, ("same",), "dec"), 16, 150),
    ("with-repeated", lambda c: L.has_class(c, ("restore", "flip", "same"), "with"), 24, 150),
    ("reordered", lambda c: not L.has_class(c, ("restore", "flip", "same")) and
     not all(L.is_canonical(n) for n in c["nodes"]), 12, 100),
    ("canonical", lambda c: all(L.is_canonical(n) for n in c["nodes"]), 8, 50)]


def pick_stack(cases, quick, rng, cov):
    """stratified sample of the `stack` configuration: every class of list is replayed"""
    picked, seen, counts = [], set(), {}
    for name, pred, nq, nt in STACK_STRATA:
        pool = [c for c in cases if pred(c)]
        if not pool:
            core.die("vacuous model: stratum %s of Directives_stack is empty" % name)
        got = 0
        for c in core.sample(pool, nq if quick else nt, rng):
            k = L.case_key(c)
            if k not in seen:
                seen.add(k)
                picked.append(c)
                got += 1
        counts[name] = {"generated": len(pool), "replayed": got}
    cov["list_strata"] = counts
    return picked


def make_b1(sets, t3d, t3n, gsrc, quick, seed, rng):
    q_rot = ["wraparound", "binding", "boundscheck"]
    b1_groups = []
    fdef = [c for c in t3d if any(n["kind"] in ("def", "cfn") for n in c["nodes"])]
    nb = 1 if quick else 3
    # repeated decorators / with-items (module-wide sources as in tree3: none)
    plain = [c for c in sets["stack"] if L.src_key(c) == L.src_key(t3n[0]) and
             any(n["kind"] in ("def", "cfn") for n in c["nodes"])]
    st_restore = [c for c in plain if L.has_class(c, ("restore",))]
    st_other = [c for c in plain if L.has_class(c, ("flip", "same")) and not L.has_class(c, ("restore",))]
    for i in range(nb):
        b1_groups.append(core.sample(fdef, 6 if quick else 8, rng) + core.sample(t3n, 8 if quick else 12, rng) +
                         core.sample(st_restore, 6 if quick else 10, rng) + core.sample(st_other, 3 if quick else 6, rng))
    conflict = [k for k in sorted(gsrc) if (lambda c: c["hpos"] == "top" and any(
        c["hdr"][d] != "-" and c["opt"][d] != "-" and c["hdr"][d] != c["opt"][d] for d in "pq"))(gsrc[k][0])]
    for i in range(nb):
        b1_groups.append(core.sample(gsrc[rng.choice(conflict)], 16 if quick else 24, rng))
    if sets["tree2"]:
        g2 = group_by_src(sets["tree2"])
        k2 = sorted(g2)
        for i in range(nb):
            b1_groups.append(core.sample(g2[k2[(seed + 1 + i * 2) % len(k2)]], 20, rng))
    else:
        # quick: a second header/option combination, header only or option only
        single = [k for k in sorted(gsrc) if (lambda c: c["hpos"] != "top" or (c["hdr"] == {"p": "-", "q": "-"}) != (c["opt"] == {"p": "-", "q": "-"}))(gsrc[k][0])]
        b1_groups.append(core.sample(gsrc[rng.choice(single)], 16, rng))
    b1mods, specs = [], []
    for i, g in enumerate(b1_groups):
        m = L.Module("c41b%d" % i, g, "cdivision", q_rot[(i + seed) % 3], b1=True, with_style=i)
        b1mods.append(m)
        specs.append(core.BuildSpec(m.name, m.source, directives=m.directive_opts("opt")))
    return b1mods, specs


class Collector(object):
    """Reporter stand-in for work done in a side thread; replayed into the real one afterwards"""

    def __init__(self):
        self.items = []

    def disagree(self, desc, obs_class, detail):
        self.items.append(("d", desc, obs_class, detail))

    def spec_drift(self, what, detail=None):
        self.items.append(("s", what, detail, None))

    def replay(self, rep):
        for kind, a, b, c in self.items:
            if kind == "d":
                rep.disagree(a, b, c)
            else:
                rep.spec_drift(a, b)


def run(tier, seed):
    t0 = time.time()
    rng = random.Random(seed)
    rep = core.Reporter(PROP)
    cov = {"tlc": []}
    stats = {"fact_diffs": 0, "run_diffs": 0, "no_demand": 0, "text_diffs": 0, "e2e": 0, "sweep": 0, "header_scope": 0}
    quick = tier == "quick"
    par = 8 if quick else core.NCPU

    core.scratch()      # created here: the worker threads below must not race for it
    core.snapshot()
    phases = cov.setdefault("phase_wall_s", {})
    tl = run_tlc(tier, cov)
    phases["tlc"] = round(time.time() - t0, 1)
    sets = {}
    for k in ("tree3", "src", "tree2", "stack"):
        if k not in tl:
            sets[k] = []
            continue
        cs = sorted(tl[k].printed, key=L.case_key)
        for c in cs:
            d = L.drift(c)
            if d:
                rep.spec_drift("Directives.Eff vs independent evaluator", {"config": k, "case": c, "diff": d})
        sets[k] = cs

    # ---- B3
    t3 = sets["tree3"]
    t3d = [c for c in t3 if has_deferred(c)]
    t3n = [c for c in t3 if not has_deferred(c)]
    pick3 = core.sample(t3n, 260 if quick else 3000, rng) + core.sample(t3d, 40 if quick else 600, rng)
    pick2 = core.sample(sets["tree2"], 1500, rng)
    gsrc = group_by_src(sets["src"])
    src_keys = core.sample(sorted(gsrc), 10 if quick else 100, rng)
    mods = make_b3_modules(group_by_src(pick3), rng, 30, "a")
    mods += make_b3_modules(group_by_src(pick2), rng, 30, "b")
    mods += make_b3_modules({k: gsrc[k] for k in src_keys}, rng, 48, "c")
    mods += make_b3_modules(group_by_src(pick_stack(sets["stack"], quick, rng, cov)), rng, 30, "d")
    # B3 children, B1 builds + runs and the text part run side by side; judging stays in this thread
    b1mods, specs = make_b1(sets, t3d, t3n, gsrc, quick, seed, rng)
    col = Collector()
    tstats = dict(stats)
    trng = random.Random(seed + 1)

    def b1_work():
        t = time.time()
        builds = core.build_many(specs, jobs=par, timeout=2700)
        phases["b1_build"] = round(time.time() - t, 1)
        out = [(b, execute_run(m, b) if b.ok else None) for m, b in zip(b1mods, builds)]
        phases["b1_total"] = round(time.time() - t, 1)
        return out

    def text_work():
        t = time.time()
        text_part(col, tl, tier, trng, cov, tstats)
        phases["texts"] = round(time.time() - t, 1)

    tp = time.time()
    with concurrent.futures.ThreadPoolExecutor(max_workers=3) as ex:
        f_b3 = ex.submit(run_fact_jobs, mods, par)
        f_b1 = ex.submit(b1_work)
        f_tx = ex.submit(text_work)
        res = f_b3.result()
        phases["b3_children"] = round(time.time() - tp, 1)
        b1_out = f_b1.result()
        f_tx.result()
    n_fact = 0
    for m, job in mods:
        n_fact += judge_facts(rep, m, job, res[job["name"]], stats)
    n_cases_b3 = sum(len(m.cases) for m, _ in mods)
    # binding self-test: a flipped expectation must be reported
    m0, j0 = mods[0]
    probe = core.Reporter.__new__(core.Reporter)
    probe.prop, probe.kf, probe.kf_hits, probe.violations, probe.drift, probe.notes = PROP, [], {}, [], [], []
    st2 = dict(stats)
    judge_facts(probe, m0, j0, res[j0["name"]], st2, corrupt=sorted(m0.site_by_id)[0])
    if not probe.violations:
        core.die("binding self-test failed: a corrupted expectation was not rejected")

    # ---- B1
    n_run = n_calls = 0
    for m, sp, (b, executed) in zip(b1mods, specs, b1_out):
        if not b.ok and b.stage in ("timeout", "cython-crash") and "Traceback" not in (b.errors or ""):
            core.die("B1 build of %s did not finish (%s): %s" % (m.name, b.stage, (b.errors or "")[-500:]))
        if not b.ok:
            rep.disagree({"part": "scope", "point": "build", "kind": "module", "differs_from_owner": False, "owner_kind": "mod"},
                         "build-failed", {"module": m.name, "stage": b.stage, "errors": b.errors[-3000:], "source": m.source[:8000]})
            continue
        n_run += judge_run(rep, m, sp, executed, stats)
        n_calls += len(executed[0])

    # ---- texts (computed above)
    col.replay(rep)
    stats.update({k: v for k, v in tstats.items() if k not in ("fact_diffs", "run_diffs", "no_demand")})

    nontriv_cases = {L.case_key(c) for m, _ in mods for c in m.cases
                     if any(n["st"] for n in c["nodes"]) or c["hdr"] != c["opt"]}
    nontriv_cases |= {L.case_key(c) for m in b1mods for c in m.cases if c["nodes"]}
    samples = []
    m, job = mods[len(mods) // 2]
    rec = sorted(m.sites.items())[len(m.sites) // 2][1]
    samples.append({"kind": "B3 marker", "module": job["name"], "transport": job["transport"], "site": rec["sid"],
                    "case": m.cases[rec["case"]], "mapping": {"p": m.preal, "q": m.qreal},
                    "demanded": m.expected_vector(rec), "observed_gen": res[job["name"]]["facts"]["gen"].get(str(rec["line"]))})
    if b1mods:
        samples.append({"kind": "B1 module", "module": b1mods[0].name, "cases": len(b1mods[0].cases), "q": b1mods[0].qreal,
                        "first_case": b1mods[0].cases[0], "expected_run": L.run_expectations(b1mods[0], 0)[0]})
    samples.append({"kind": "text", "text": "yes", "spec": p_value("yes")})
    cov.update({
        "states": sum(r.generated for r in tl.values()), "distinct_states": sum(r.distinct for r in tl.values()),
        "transitions": sum(r.generated for r in tl.values()),
        "traces_validated_against_impl": n_cases_b3 + sum(len(m.cases) for m in b1mods) + stats["value_texts"] + stats["list_texts"],
        "evaluations": n_fact + n_run + stats["value_evals"] + stats["list_evals"] + stats["e2e"] + stats["sweep"] + stats["header_scope"],
        "distinct_nontrivial": len(nontriv_cases) + stats["value_accepting"] + stats["list_nonempty_results"],
        "exhaustive": False,
        "b3": {"cases": n_cases_b3, "modules": len(mods), "fact_comparisons": n_fact, "fact_diffs": stats["fact_diffs"]},
        "b1": {"modules": len(b1mods), "cases": sum(len(m.cases) for m in b1mods), "calls": n_calls, "observations": n_run,
               "without_demand": stats["no_demand"], "diffs": stats["run_diffs"]},
        "texts": {k: stats[k] for k in ("value_texts", "value_evals", "value_accepting", "list_texts", "list_evals",
                                        "list_nonempty_results", "e2e", "sweep", "header_scope", "text_diffs")},
        "rule": "scope: every tree of <= 3 nodes / depth 3 (5 override combinations per node), all 225 header x option x "
                "position combinations on one-node trees, and every chain of <= 2 nodes in which the nodes carry any list "
                "of <= 3 decorators / <= 2 with-items (repeated directives included) are TLC states; a seeded sample "
                "(stratified by the class of list for the last set) is replayed (B3: directives exported "
                "from the real pipeline at 4 points; B1: compiled behaviour); non-trivial = distinct replayed case with an "
                "override or a header/option, or text/list with an accepting result. texts: all chunk sequences / item lists "
                "of the configuration go through the real parser",
        "samples": samples,
    })
    rc = rep.finish()
    cov["known_findings"] = rep.kf_summary()
    core.write_evidence(PROP, tier, seed, "model_checking", cov, time.time() - t0,
                        assumptions=["a directive repeated in the decorators of one function / class: the first (outermost) "
                                     "decorator wins, for the object and its contents (comment in _extract_directives, "
                                     "tests/run/pure.pyx); repeated in one with-statement: the last item wins (= the nested form)",
                                     "two abstract boolean directives stand for the inheritable boolean directives; the mapping to "
                                     "real names (same default) is drawn per module",
                                     "header > option follows the property statement and the cythonize paragraph of the docs (the -X "
                                     "paragraph of the docs says the opposite; the code agrees with the property)",
                                     "relaxed bool spellings (-X), int() syntax and the .all expansion are modelled after the code "
                                     "where the documentation is silent",
                                     "mv[-1] with wraparound off and boundscheck off, and mv[3] with boundscheck off, carry no demand"],
                        violations=rep.n_violations())
    return rc
