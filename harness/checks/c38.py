"""C38 — pure-Python mode behaves the same interpreted and compiled.

spec/Shadow.tla (three parts, one module):
  divmod : cython.cdiv / cython.cmod.  Reference = C semantics (declaratively validated TruncDiv/TruncRem; doubles as
           quarters), impl-shaped = transcription of Shadow.cdiv / Shadow.cmod.  TLC: every pair of -128..255 (covers
           signed/unsigned char and their mixes), the 16/31-bit boundary grid, the quarter grid for doubles; proves that
           the transcription agrees with the reference on every demanded cell (ints and doubles).
  cast   : cython.cast(T, v) over C integer/double/bint targets x typed and object sources x boundary values, and
           cast(T, obj, typecheck=) for Python types; reference = C conversion, impl-shaped = Shadow.cast; TLC proves
           agreement on every demanded cell.
  prog   : small-step machine for typed pure-mode programs (declare / locals / annotations / returns / cfunc / ccall /
           inline / exceptval / cclass methods / helper calls / cdiv / cmod / cast / for-range / if) with range
           side-conditions: behaviours that leave a declared C range end "pruned" (counted), the others carry the
           expected observation.  Programs: deterministic style matrix + seeded random ones (harness -> IOEnv.C38_PROGS).
Binding B1, three-way.  Every demanded cell / kept behaviour is executed (i) by CPython with cython.py + Cython/Shadow.py of
the snapshot on the *same* .py module and (ii) on the compiled module; both must equal S.  P (Python integer / Fraction
oracle, lib_puremode.Sem) must equal S everywhere (else spec drift) and alone decides 64-bit wide cells and wide programs
(TLC integers are 32-bit).  The transcription predicts the interpreted value of every table cell (`shadow_model`, now always
equal to the demand); the two fidelity counters `modelled_shadow_deviation_not_observed` (predicted, not observed) and
`shadow_differs_from_transcription` (observed, not predicted -- always also a disagreement) are 0 on a faithful model.
"""
import collections
import concurrent.futures
import json
import math
import os
import random
import re
import sys
import time
from fractions import Fraction

import calls
import core
import lib_puremode as lp

PROP = "C38"
RUN_ACTIONS = ["Bind", "Assign", "Declare", "Branch", "EnterFor", "ForNext", "Return"]

TIERS = {
    "quick": {"nrand": 150, "per_module": 80, "cfg": "Shadow_prog", "nwide": 40, "tab_rand": 300, "max_loop": 6, "full_styles": False},
    "thorough": {"nrand": 600, "per_module": 100, "cfg": "Shadow_progt", "nwide": 200, "tab_rand": 5000, "max_loop": 6, "full_styles": True},
}


def p_trunc(op, a, b):
    """P for integer cdiv/cmod: exact rational quotient truncated toward zero"""
    q = math.trunc(Fraction(a, b))
    return q if op == "cdiv" else a - q * b


def arg_of(t, v, tlc):
    k = lp.kind(t)
    if k == "d":
        return calls.fenc(v / 4.0 if tlc else float(v))
    if k == "b":
        return bool(v)
    return calls.ienc(int(v))


class Batch(object):
    """calls for one module, each with its expectation per side and a descriptor"""

    def __init__(self):
        self.calls = []
        self.meta = []     # (desc, expect_compiled or SKIP, expect_interp or SKIP, src, extra)

    def add(self, fn, args, desc, exp_c, exp_i, src, extra=None, risky=False):
        self.calls.append([fn, args, True] if risky else [fn, args])
        self.meta.append((desc, exp_c, exp_i, src, extra))


SKIP = ("skip",)
LONG = 4 * 3600      # TLC / replay timeouts: the machine may be heavily loaded (a timeout is a machinery error, never a verdict)


def same(obs, exp):
    return lp.dec_obs(obs) == exp


def run(tier, seed):
    t0 = time.time()
    T = TIERS[tier]
    rng = random.Random(seed)
    rep = core.Reporter(PROP)
    cov = {"tlc": []}

    # ---- programs (spec-side family; wide ones only for the Python oracle)
    progs = lp.core_programs(1) + lp.gen_programs(rng, T["nrand"], first_pid=1000)
    wprogs = lp.core_programs(100001, wide=True) + lp.gen_programs(rng, T["nwide"], first_pid=101000, wide=True)
    bypid = {p["pid"]: p for p in progs + wprogs}
    pf = os.path.join(core.subdir("c38"), "progs.ndjson")
    core.write_ndjson(pf, progs)

    allp = progs + wprogs
    chunks = [allp[i:i + T["per_module"]] for i in range(0, len(allp), T["per_module"])]
    mods = []
    for k, ch in enumerate(chunks):
        src, entries, spans = lp.render_module(ch)
        mods.append({"name": "c38p%d" % k, "src": src, "entries": entries, "spans": spans, "progs": ch, "dropped": {}})
    tabsrc = lp.table_module()

    # ---- TLC and the builds run side by side
    def tlc_job(cfg, env=None, coverage=False):
        return core.tlc("Shadow", cfg=cfg, timeout=LONG, env=env, coverage=coverage, workers=max(2, core.NCPU // 4))

    def build_job(name, src):
        return core.build_many([core.BuildSpec(name, src, kind="py")], jobs=1, timeout=3600)[0]

    with concurrent.futures.ThreadPoolExecutor(max_workers=8) as ex:
        ft = {"dm8": ex.submit(tlc_job, "Shadow_dm8"), "dmw": ex.submit(tlc_job, "Shadow_dmw"),
              "cast": ex.submit(tlc_job, "Shadow_cast"), "prog": ex.submit(tlc_job, T["cfg"], {"C38_PROGS": pf}, True)}
        fb = {"c38tab": ex.submit(build_job, "c38tab", tabsrc), "c38tco": ex.submit(build_job, "c38tco", lp.object_typecheck_module())}
        for m in mods:
            fb[m["name"]] = ex.submit(build_job, m["name"], m["src"])
        tl = {k: f.result() for k, f in ft.items()}
        builds = {k: f.result() for k, f in fb.items()}
    for k, r in tl.items():
        if not r.ok:
            sys.stderr.write(r.out[-5000:])
            core.die("TLC failed on part %s (%s)" % (k, r.violation or r.rc))
        cov["tlc"].append(dict(r.summary(), config=k))
    # vacuity guard (model only)
    for a in RUN_ACTIONS:
        if tl["prog"].coverage.get(a, (0, 0))[0] == 0:
            core.die("vacuous model: action %s never taken" % a)
    cov["action_coverage"] = {a: tl["prog"].coverage.get(a, (0, 0))[0] for a in RUN_ACTIONS + ["FallOff"]}

    # ---- builds: a program the compiler rejects is a disagreement; the module is rebuilt without it
    for k, b in builds.items():
        if not b.ok and b.stage == "timeout":
            core.die("build of %s timed out (machine load), nothing decided" % k)
    if not builds["c38tab"].ok:
        rep.disagree({"part": "build", "module": "c38tab", "stage": builds["c38tab"].stage}, "build-failed",
                     {"errors": builds["c38tab"].errors[-3000:]})
    for m in mods:
        b = builds[m["name"]]
        rounds = 0
        while not b.ok and rounds < 3:
            rounds += 1
            bad = set()
            for mm in re.finditer(r"%s\.py:(\d+):\d+: (.*)" % m["name"], b.errors or ""):
                ln = int(mm.group(1))
                for lo, hi, pid in m["spans"]:
                    if lo <= ln <= hi:
                        bad.add(pid)
                        m["dropped"].setdefault(pid, mm.group(2)[:200])
            for mm in re.finditer(r"In function ‘\w*?(?:[fh](\d+)(?:_w)?|K(\d+)_\d*\w+)’", b.errors or ""):
                pid = int(mm.group(1) or mm.group(2))
                bad.add(pid)
                m["dropped"].setdefault(pid, "C compiler error")
            if not bad:
                break
            m["progs"] = [p for p in m["progs"] if p["pid"] not in bad]
            m["src"], m["entries"], m["spans"] = lp.render_module(m["progs"])
            m["name"] = m["name"] + "r"
            b = core.build_many([core.BuildSpec(m["name"], m["src"], kind="py")], jobs=1, timeout=3600)[0]
        builds[m["name"]] = b
        for pid, msg in m["dropped"].items():
            p = bypid[pid]
            rep.disagree({"part": "prog", "side": "compiled", "kind": p["kind"], "lstyle": p["lstyle"], "pstyle": p["pstyle"]},
                         "compile-error", {"pid": pid, "message": msg, "program": p, "source": "\n".join(lp.render_program(p)[0])})
        if not b.ok:
            rep.disagree({"part": "build", "module": m["name"], "stage": b.stage}, "build-failed", {"errors": (b.errors or "")[-3000:]})

    stats = collections.Counter()
    stats["modelled_shadow_deviation_not_observed"] = stats["shadow_differs_from_transcription"] = 0     # fidelity counters
    samples = []

    # =====================================================================================
    # tables
    tb = Batch()
    tco = Batch()
    INTS = lp.TAB_INT
    variants = ["", "l", "d", "c"]

    def add_dm(op, a, b, want, src, dense, sh=None):
        """integer pair (a, b) with demanded result `want` on every function whose parameter types hold a and b"""
        desc0 = {"part": "divmod", "kind": "int", "op": op, "model_flags": "", "b_sign": "neg" if b < 0 else "pos", "a_sign": "neg" if a < 0 else "pos"}
        args = [calls.ienc(a), calls.ienc(b)]
        first = True
        for t in INTS:
            lo, hi = lp.trange(t)
            if not (lo <= a <= hi and lo <= b <= hi):
                continue
            if not dense and t not in ("schar", "uchar") and not first:
                continue
            rt = lp.promote(t)
            rlo, rhi = lp.trange(rt)
            if not rlo <= want <= rhi:      # e.g. INT_MIN / -1: undefined in C
                stats["dm_nodemand_result_range"] += 1
                continue
            for v in (variants if dense else [""]):
                if v == "c" and not lo <= want <= hi:
                    continue
                # the interpreted side only needs one function per pair (Shadow.cdiv does not see the types)
                tb.add("%s%s_%s" % (op, v, t), args, dict(desc0, type=t, style=v or "annot"), want,
                       want if (first and v == "") else SKIP, src)
            first = False
        if dense:
            for ta, tb_ in lp.TAB_MIXED:
                (alo, ahi), (blo, bhi) = lp.trange(ta), lp.trange(tb_)
                if alo <= a <= ahi and blo <= b <= bhi:
                    tb.add("%s_%s_%s" % (op, ta, tb_), args, dict(desc0, type=ta + "/" + tb_, style="annot"), want, SKIP, src)

    # (1) rows published by TLC
    rows8, rowsw = tl["dm8"].printed, tl["dmw"].printed
    if len(rows8) < 800 or len(rowsw) < 60:
        core.die("Shadow divmod published %d + %d rows" % (len(rows8), len(rowsw)))
    dense_a = {-128, -7, 127, 255}
    n_dev_cells = 0
    for r in rows8 + rowsw:
        a, op = r["a"], r["op"]
        if r["devs"]:         # ShadowIntAgrees / ShadowDblAgrees hold: no deviation class is modelled
            core.die("model reports deviations of Shadow.%s (%s)" % (op, r["kind"]))
        if r["kind"] == "i":
            for bs, want in r["row"].items():
                b = int(bs)
                if p_trunc(op, a, b) != want:
                    rep.spec_drift("Shadow.DMDemand vs Fraction oracle", {"op": op, "a": a, "b": b, "spec": want, "python": p_trunc(op, a, b)})
                small = -128 <= a <= 255 and -128 <= b <= 255
                if small:
                    # all pairs: signed/unsigned char and their mixes; every style and wider types for selected dividends
                    add_dm(op, a, b, want, "tlc-row", a in dense_a or not (-128 <= a <= 255))
                else:
                    add_dm(op, a, b, want, "tlc-row", True)
        else:
            for bs, want in r["row"].items():
                b = int(bs)
                fa, fb_ = a / 4.0, b / 4.0
                pw = (fa / fb_) if op == "cdiv" else math.fmod(fa, fb_)
                if pw != want / 4.0:
                    rep.spec_drift("Shadow.DMDemand (doubles) vs float oracle", {"op": op, "a": fa, "b": fb_, "spec": want / 4.0, "python": pw})
                sh = r["sh"][bs]
                n_dev_cells += sh != want
                desc = {"part": "divmod", "kind": "double", "op": op, "model_flags": ""}
                for v in variants:
                    tb.add("%s%s_double" % (op, v), [calls.fenc(fa), calls.fenc(fb_)], dict(desc, style=v or "annot"), ("f", want / 4.0),
                           ("f", want / 4.0) if v in ("", "d") else SKIP, "tlc-row", {"shadow_model": ("f", sh / 4.0)})
    # (2) wide: boundary grid + seeded random pairs, Python oracle only
    for t in INTS:
        if lp.TYPES[t][1] < 32:
            continue
        lo, hi = lp.trange(t)
        grid = sorted({v for v in (lo, lo + 1, lo + 2, -7, -3, -2, -1, 0, 1, 2, 3, 7, hi - 2, hi - 1, hi, hi // 2, hi // 2 + 1, -(1 << 31),
                                   (1 << 31) - 1, 1 << 31, -(1 << 31) - 1, (1 << 32) - 1, 1 << 32, 1 << 53, (1 << 53) + 1) if lo <= v <= hi})
        pairs = [(x, y) for x in grid for y in grid]
        for _ in range(T["tab_rand"]):
            k1, k2 = rng.randint(1, 64), rng.randint(1, 64)
            pairs.append((rng.randint(max(lo, -(1 << k1)), min(hi, (1 << k1) - 1)), rng.randint(max(lo, -(1 << k2)), min(hi, (1 << k2) - 1))))
        for x, y in pairs:
            if y == 0 or (y == -1 and x == lo and lo < 0):       # undefined in C
                stats["dm_nodemand_undefined_in_c"] += 1
                continue
            for op in ("cdiv", "cmod"):
                want = p_trunc(op, x, y)
                if not lo <= want <= hi:
                    stats["dm_nodemand_result_range"] += 1
                    continue
                desc = {"part": "divmod", "kind": "int", "op": op, "model_flags": "", "type": t, "style": "annot", "b_sign": "neg" if y < 0 else "pos",
                        "a_sign": "neg" if x < 0 else "pos"}
                tb.add("%s_%s" % (op, t), [calls.ienc(x), calls.ienc(y)], desc, want, want, "python-oracle")
    n_dm = len(tb.calls)

    # (3) cast cells published by TLC
    crec = tl["cast"].printed
    if len(crec) < 500:
        core.die("Shadow cast published %d cells" % len(crec))
    PYV = {"list": {"py": "[(1, 2)]"}, "tuple": {"py": "((1, 2),)"}, "dict": {"py": "{1: 2}"}}
    PYX = {"list": ("l", ("t", 1, 2)), "tuple": ("t", ("t", 1, 2)), "dict": ("other", '["d", [1, 2]]')}

    def cval(rec):
        if rec["st"] == "exc":
            return "E:" + rec["why"]
        return lp.expect_value(rec["k"], rec["v"], True)

    for r in crec:
        Tt, st, v, d, sh = r["T"], r["st"], r["v"], r["demand"], r["shadow"]
        if Tt in lp.PY_T:
            fn = "pycast_%s%s" % (Tt, "_tc" if r["tc"] else "")
            desc = {"part": "cast", "target": Tt, "source": "py:" + st, "typecheck": r["tc"], "matching_type": Tt in ("object", st),
                    "model_flags": ""}
            if d["st"] == "nodemand":
                stats["cast_nodemand_" + d["why"]] += 1
                continue
            exp = PYX[st] if d["st"] == "ok" else "E:TypeError"
            shx = "E:" + sh["why"] if sh["st"] == "exc" else PYX[st] if sh["k"] == "o" else ("converted", Tt)
            n_dev_cells += sh != d
            (tco if fn == "pycast_object_tc" else tb).add(fn, [PYV[st]], desc, exp, exp, "tlc-cell", {"shadow_model": shx})
            continue
        sk = lp.kind(st)
        # P: the C conversion computed with Python numbers
        if lp.kind(Tt) == "i":
            pv = math.trunc(v / 4.0) if sk == "d" else int(v)
            pexp = ("ok", "i", pv) if (-lp.M <= pv <= lp.M if lp.rank(Tt) >= 3 else lp.trange(Tt)[0] <= pv <= lp.trange(Tt)[1]) else ("nodemand",)
        elif lp.kind(Tt) == "d":
            pexp = ("ok", "d", v if sk == "d" else 4 * v) if (sk == "d" or abs(v) <= lp.QCAP // 4) else ("nodemand",)
        else:
            pexp = ("ok", "b", int(bool(v)))
        if (d["st"], ) + ((d["k"], d["v"]) if d["st"] == "ok" else ()) != pexp:
            rep.spec_drift("Shadow.CastDemand vs Python conversion", {"cell": r, "python": pexp})
        if d["st"] == "nodemand":
            stats["cast_nodemand_" + d["why"]] += 1
            continue
        arg = arg_of(st, v, True)
        desc = {"part": "cast", "target": Tt, "target_kind": lp.kind(Tt), "source": r["form"] + ":" + st, "source_kind": sk,
                "model_flags": ""}
        n_dev_cells += sh != d
        fns = ["cast_%s_from_%s" % (Tt, st)] if r["form"] == "c" else ["cast_%s_from_py" % Tt, "decl_%s_from_py" % Tt]
        for fn in fns:
            tb.add(fn, [arg], dict(desc, via="declare" if fn.startswith("decl") else "cast"), cval(d), cval(d), "tlc-cell", {"shadow_model": cval(sh)})
    # wide cast cells (Python oracle): identity in range for the 32/64-bit types the model does not hold
    for Tt in lp.CAST_T:
        if lp.kind(Tt) != "i" or lp.TYPES[Tt][1] < 32:
            continue
        lo, hi = lp.trange(Tt)
        for S in lp.CAST_T:
            if lp.kind(S) != "i":
                continue
            slo, shi = lp.trange(S)
            vals = sorted({v for v in (lo, lo + 1, -1, 0, 1, hi - 1, hi, slo, shi, (1 << 31) - 1, 1 << 31, -(1 << 31), (1 << 32) - 1, 1 << 53,
                                       (1 << 63) - 1) if lo <= v <= hi and slo <= v <= shi})
            for v in vals:
                desc = {"part": "cast", "target": Tt, "target_kind": "i", "source": "c:" + S, "source_kind": "i", "via": "cast", "model_flags": ""}
                tb.add("cast_%s_from_%s" % (Tt, S), [calls.ienc(v)], desc, v, v, "python-oracle")
    n_tab = len(tb.calls)
    if n_dev_cells:       # CastAgrees / ShadowDblAgrees were proved by TLC: the published transcription values must equal the demands
        core.die("the model predicts %d deviations of Shadow.py although TLC proved agreement" % n_dev_cells)

    # =====================================================================================
    # programs
    leaves = tl["prog"].printed
    if len(leaves) < 1000:
        core.die("Shadow prog published %d terminal states" % len(leaves))
    pb = {}      # module name -> Batch
    modof = {}
    for m in mods:
        pb[m["name"]] = Batch()
        for p in m["progs"]:
            modof[p["pid"]] = m
    outcome = collections.Counter()
    pruned = collections.Counter()
    sems = {}
    undecided_kept_by_p = 0

    def add_prog_case(p, a, b, out, flags, tlc, src):
        m = modof.get(p["pid"])
        if m is None:
            return 0
        exp = lp.expect_obs(out, tlc)
        n = 0
        for entry, via in m["entries"][p["pid"]]:
            desc = {"part": "prog", "kind": p["kind"], "mkind": p["mkind"] if p["kind"] == "cmeth" else "", "via": via,
                    "model_flags": "+".join(sorted(flags)), "expected": out["st"], "helper": p["hashelper"]}
            pb[m["name"]].add(entry, [arg_of(p["types"]["a"], a, tlc), arg_of(p["types"]["b"], b, tlc)], desc, exp,
                              exp if via != "wrapper" or p["kind"] != "ccall" else SKIP, src,
                              {"pid": p["pid"], "a": a, "b": b, "lstyle": p["lstyle"], "pstyle": p["pstyle"]}, risky=True)
            n += 1
        return n

    for lf in leaves:
        p = bypid[lf["pid"]]
        sem = sems.get(p["pid"])
        if sem is None:
            sem = sems[p["pid"]] = lp.Sem(p, True, T["max_loop"])
        po = sem.run(lf["a"], lf["b"])
        so = {"st": lf["out"]["st"], "vals": [[x["k"], x["v"]] for x in lf["out"]["vals"]], "why": lf["out"]["why"]}
        pc = {"st": po["st"], "vals": [[k, v] for k, v in po["vals"]], "why": po["why"]}
        if so != pc or sorted(lf["fl"]) != sorted(sem.flags):
            rep.spec_drift("Shadow prog machine vs Python evaluator", {"pid": p["pid"], "a": lf["a"], "b": lf["b"], "spec": so,
                                                                        "spec_flags": lf["fl"], "python": pc, "python_flags": sorted(sem.flags),
                                                                        "program": p})
            continue
        outcome[so["st"]] += 1
        if so["st"] == "pruned":
            pruned[so["why"]] += 1
            continue
        add_prog_case(p, lf["a"], lf["b"], lf["out"], lf["fl"], True, "tlc-behaviour")
    if outcome["ok"] < 300 or outcome["pruned"] < 50:
        core.die("vacuous: %r" % dict(outcome))
    n_tlc_cases = sum(len(x.calls) for x in pb.values())

    # wide programs: Python oracle with the real widths
    wout = collections.Counter()
    for p in wprogs:
        sem = lp.Sem(p, False, T["max_loop"])
        ins = []
        for n in ("a", "b"):
            lo, hi = lp.trange(p["types"][n])
            g = [lo, lo + 1, -(1 << 31) - 1, -(1 << 31), -7, -1, 0, 1, 2, 3, (1 << 31) - 1, 1 << 31, hi - 1, hi]
            g += [rng.randint(lo, hi) for _ in range(2)] + [rng.randint(-(1 << 33), 1 << 33) for _ in range(2)]
            ins.append(sorted({v for v in g if lo <= v <= hi}))
        cases = [(x, y) for x in ins[0] for y in ins[1]]
        for x, y in core.sample(cases, 48, rng):
            po = sem.run(x, y)
            wout[po["st"]] += 1
            if po["st"] == "pruned":
                pruned["wide:" + po["why"]] += 1
                continue
            add_prog_case(p, x, y, {"st": po["st"], "vals": po["vals"], "why": po["why"]}, set(sem.flags), False, "python-oracle")

    # =====================================================================================
    # replay: compiled (C) and interpreted with the snapshot's shadow (I)
    jobs = []
    if builds["c38tab"].ok:
        jobs.append(("c38tab", builds["c38tab"], tabsrc, tb))
    if builds["c38tco"].ok:
        jobs.append(("c38tco", builds["c38tco"], lp.object_typecheck_module(), tco))
    else:
        for c, (desc, exp_c, exp_i, srcname, extra) in zip(tco.calls, tco.meta):
            rep.disagree(dict(desc, side="compiled"), "compile-crash" if builds["c38tco"].stage == "cython-crash" or "Compiler crash" in (builds["c38tco"].errors or "") else "compile-error",
                         {"call": c, "want": exp_c, "stage": builds["c38tco"].stage, "errors": (builds["c38tco"].errors or "")[-1500:]})
    for m in mods:
        if builds[m["name"]].ok and pb[m["name"]].calls:
            # a program dropped after the batch was planned has no function in the rebuilt module
            live = {e for p in m["progs"] for e, _ in m["entries"][p["pid"]]}
            bt = pb[m["name"]]
            keep = [i for i, c in enumerate(bt.calls) if c[0] in live]
            bt.calls = [bt.calls[i] for i in keep]
            bt.meta = [bt.meta[i] for i in keep]
            jobs.append((m["name"], builds[m["name"]], m["src"], bt))

    def replay(job):
        name, b, src, bt = job
        # interpreted side only where an expectation exists
        idx = [i for i, mt in enumerate(bt.meta) if mt[2] is not SKIP]
        iobs = lp.run_interp(name, src, [bt.calls[i] for i in idx], timeout=LONG)
        cobs = calls.run_calls(b, bt.calls, timeout=LONG)
        return name, cobs, dict(zip(idx, iobs))

    with concurrent.futures.ThreadPoolExecutor(max_workers=6) as ex:
        results = list(ex.map(replay, jobs))

    n_c = n_i = 0
    nontriv = set()
    demo = None
    for (name, b, src, bt), (_, cobs, iobs) in zip(jobs, results):
        for i, (c, (desc, exp_c, exp_i, srcname, extra)) in enumerate(zip(bt.calls, bt.meta)):
            o = cobs[i]
            n_c += 1
            key = (name, c[0], json.dumps(c[1]))
            nontriv.add(key)
            if not same(o, exp_c):
                rep.disagree(dict(desc, side="compiled"), lp.obs_class(o), {"module": name, "call": c, "want": exp_c, "got": o,
                                                                            "expected_from": srcname, "case": extra})
            elif demo is None and isinstance(exp_c, int):
                demo = (o, exp_c)
            if i in iobs:
                oi = iobs[i]
                n_i += 1
                d2 = dict(desc, side="interp")
                if not same(oi, exp_i):
                    if extra and "shadow_model" in extra:
                        # the spec's transcription of Shadow.py predicts a value for this cell (the demand, as no deviation is
                        # modelled): Shadow.py does something the transcription does not describe
                        shm = extra["shadow_model"]
                        got = lp.dec_obs(oi)
                        as_modelled = (got == shm) if not (isinstance(shm, tuple) and shm[0] == "converted") else \
                            (isinstance(got, tuple) and got[0] == {"list": "l", "tuple": "t", "dict": "other"}[shm[1]])
                        if not as_modelled:
                            d2 = dict(d2, model_flags="", differs_from_transcription=True)
                            stats["shadow_differs_from_transcription"] += 1
                    rep.disagree(d2, lp.obs_class(oi), {"module": name, "call": c, "want": exp_i, "got": oi,
                                                        "expected_from": srcname, "case": extra})
                elif extra and "shadow_model" in extra and extra["shadow_model"] != exp_i:
                    stats["modelled_shadow_deviation_not_observed"] += 1      # the transcription is stale (e.g. Shadow.py was fixed)
        k = rng.randrange(len(bt.calls))
        samples.append({"module": name, "call": bt.calls[k], "expect": bt.meta[k][1], "compiled": cobs[k], "interpreted": iobs.get(k, "not run"),
                        "from": bt.meta[k][3]})
    # binding demonstration: a corrupted expectation must be rejected
    if demo is None or same(demo[0], demo[1] + 1) or not same(demo[0], demo[1]):
        core.die("binding self-test failed (replay jobs %d, compiled calls %d, builds not ok: %s)"
                 % (len(jobs), n_c, sorted("%s:%s" % (k, b.stage) for k, b in builds.items() if not b.ok)))

    cov.update({
        "states": sum(t.generated for t in tl.values()), "distinct_states": sum(t.distinct for t in tl.values()),
        "transitions": sum(t.generated for t in tl.values()),
        "traces_validated_against_impl": n_c + n_i, "evaluations": n_c + n_i, "distinct_nontrivial": len(nontriv),
        "exhaustive": False,
        "programs": len(progs), "wide_programs_python_oracle": len(wprogs), "program_modules": len(mods),
        "program_behaviours": dict(outcome), "pruned_by_reason": dict(pruned), "wide_program_behaviours": dict(wout),
        "table_calls": n_tab, "divmod_calls": n_dm, "program_calls_from_tlc": n_tlc_cases,
        "calls_compiled": n_c, "calls_interpreted": n_i, "cells_where_model_predicts_shadow_deviation": n_dev_cells,
        "no_demand": dict(stats), "programs_rejected_by_compiler": sum(len(m["dropped"]) for m in mods),
        "rule": "cdiv/cmod: every pair of -128..255 (signed/unsigned char, mixed), 16/31-bit boundary grid, quarter grid for doubles, "
                "64-bit grid + seeded random pairs (Python oracle) x 4 declaration styles; cast: 8 C targets x 10 sources x boundary values "
                "+ typecheck cells; programs: style matrix + seeded random typed programs x the spec's input grids, every kept behaviour "
                "on the compiled module and under CPython+Shadow; non-trivial = distinct (function, arguments) call",
        "samples": samples[:6],
    })
    rc = rep.finish()
    cov["known_findings"] = rep.kf_summary()
    core.write_evidence(PROP, tier, seed, "model_checking", cov, time.time() - t0,
                        assumptions=["doubles are decided on quarter multiples (exact dyadics) only; zero signs and non-finite values are not decided",
                                     "32/64-bit extremes come from the Python oracle (TLC integers are 32-bit); the model's int range stops at +-(2^31-1)",
                                     "behaviours that leave a declared range, reach C undefined behaviour (cdiv/cmod by zero) or need a conversion that "
                                     "a Python annotation cannot perform (int value in a double variable) are outside the property: pruned and counted",
                                     "untyped (object) operands of cdiv/cmod are outside the property (no declared C range)",
                                     "integer literals are C long, operands below int are promoted (read off the generated C)"],
                        violations=rep.n_violations())
    return rc
