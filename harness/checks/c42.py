"""C42 — compilation is deterministic.

spec/Determinism.tla (+ MC_Determinism.tla): a cythonize build as K worker processes taking jobs
from an ordered list, reading only sources, writing outputs in two steps; TLC checks over ALL
interleavings that the final outputs are the fresh ones whatever the schedule / order / seed
(ScheduleIndependent, NoSharedOutput) and publishes the environment classes (job order, number of
workers, hash seed).  B1: every published class is executed with the real cythonize() from the
snapshot (module order, nthreads, PYTHONHASHSEED) on a corpus of modules (files from tests/run
plus generated modules that stress iteration-order hazards: many names and constants, cdef
classes, closures, fused functions, an include file compiled with profile=True); every generated
.c file is compared byte-wise with the baseline class.  Each module is additionally compiled
alone in separate processes and directories-with-history (a second compile in a used directory).
"""
import concurrent.futures
import hashlib
import json
import os
import random
import shutil
import sys
import time

import core

PROP = "C42"

CORPUS_FILES = ["closures_T82.pyx", "generators.pyx", "dict_iter_unpack.pyx", "cpdef_method_override.pyx", "switch.pyx",
                "set_literals.py", "kwargs_passthrough.pyx", "listcomp.pyx", "tuple_constants.pyx", "unicodeliterals.pyx"]

GEN = {
    "g_names.pyx": "\n".join(["import sys, os, re, json"] + ["V%d = %r" % (i, "s%d" % i) for i in range(60)] +
                             ["def f%d(a, b=%d, *, k%d=None):\n    return (a, b, V%d, %r, {%d, %d}, {'k%d': %d})" % (i, i, i, i, "lit%d" % i, i, i + 1, i, i)
                              for i in range(40)]),
    "g_classes.pyx": "\n".join(["cdef class C%d:\n    cdef public int a%d\n    cdef public object o%d\n    cpdef int m%d(self): return self.a%d\n"
                                "    def __add__(self, other): return %d\n    def __eq__(self, other): return True\n    def __hash__(self): return %d\n" % (i, i, i, i, i, i, i)
                                for i in range(12)]),
    "g_closures.py": "\n".join(["def outer%d(x):\n    y = x + %d\n    def inner(z):\n        nonlocal y\n        y += z\n        return lambda q: q + y + x\n    return inner\n" % (i, i)
                                for i in range(15)] + ["def gen%d(n):\n    for i in range(n):\n        yield i, {i: str(i)}, [j for j in range(i)]\n" % i for i in range(8)]),
    "g_fused.pyx": "cimport cython\nctypedef fused num:\n    int\n    long\n    double\n    object\n" +
                   "\n".join(["def ff%d(num a, num b):\n    return a + b\n" % i for i in range(4)]),
    "g_profile.pyx": "# cython: profile=True\ninclude \"g_inc.pxi\"\nfrom g_dep cimport K\ndef pf(int a):\n    return a + K + INC\ndef pg(x):\n    return [pf(i) for i in range(x)]\n",
}
EXTRA = {"g_inc.pxi": "INC = 1\ndef from_include(x):\n    return x\n", "g_dep.pxd": "cdef enum:\n    K = 3\n"}

_CHILD = r'''
import json, sys, os, hashlib
workdir, order_json, nthreads, outfile = sys.argv[1], sys.argv[2], int(sys.argv[3]), sys.argv[4]
os.chdir(workdir)
import Cython
assert Cython.__file__.startswith(os.environ["PYTHONPATH"].split(os.pathsep)[0]), Cython.__file__
from Cython.Build.Dependencies import cythonize
files = json.loads(order_json)
for f in files:
    for ext in (".c", ".cpp"):
        p = os.path.splitext(f)[0] + ext
        if os.path.exists(p): os.unlink(p)
import io
buf = io.StringIO(); old = sys.stdout; sys.stdout = buf
err = None
try:
    try:
        cythonize(files, nthreads=nthreads, language_level=3, quiet=True, force=True)
    finally:
        sys.stdout = old
except BaseException as e:
    err = "%s: %s" % (type(e).__name__, str(e)[:300])
res = {}
for f in files:
    c = os.path.splitext(f)[0] + ".c"
    res[f] = hashlib.sha256(open(c, "rb").read()).hexdigest() if os.path.exists(c) else None
json.dump({"sha": res, "error": err}, open(outfile, "w"))
'''


def make_tree(d, files):
    os.makedirs(d, exist_ok=True)
    for name, text in files.items():
        with open(os.path.join(d, name), "w") as f:
            f.write(text)


def run(tier, seed):
    t0 = time.time()
    rng = random.Random(seed)
    rep = core.Reporter(PROP)
    cov = {"tlc": []}
    t = core.tlc_or_die("MC_Determinism", cfg="MC_Determinism", coverage=True, timeout=1200)
    for act in ("Take", "ReadOne", "Truncate", "Write"):
        if t.coverage.get(act, (0, 0))[1] == 0:
            core.die("vacuous model: %s never taken" % act)
    cov["tlc"].append(dict(t.summary(), config="3 modules (a depends on b), orders x seeds x 2 workers, all interleavings"))
    t1 = core.tlc_or_die("MC_Determinism", cfg="MC_Determinism_w1", timeout=1200)
    cov["tlc"].append(dict(t1.summary(), config="same, 1 worker"))
    classes = t.printed + t1.printed
    if len(classes) < 6:
        core.die("only %d environment classes published" % len(classes))
    # corpus
    files = dict(GEN)
    files.update(EXTRA)
    for f in CORPUS_FILES:
        p = os.path.join(core.REPO, "tests", "run", f)
        if os.path.exists(p):
            files["t_" + f] = open(p, encoding="utf8").read()
    mods = sorted(f for f in files if f.endswith((".pyx", ".py")))
    wd = core.subdir("c42")

    # phase 0: every module alone, in its own process and directory; modules that do not compile
    # standalone (some tests/run files need extra options) leave the corpus
    def alone(m):
        d = os.path.join(wd, "alone_" + m.replace(".", "_"))
        make_tree(d, files)
        out = os.path.join(d, "out.json")
        core.run_child(_CHILD, [d, json.dumps([m]), "1", out], with_snapshot=True, timeout=900, env={"PYTHONHASHSEED": "0"})
        return m, (json.load(open(out))["sha"].get(m) if os.path.exists(out) else None)
    with concurrent.futures.ThreadPoolExecutor(max_workers=core.NCPU) as ex:
        alone_sha = dict(ex.map(alone, mods))
    dropped = [m for m in mods if not alone_sha[m]]
    mods = [m for m in mods if alone_sha[m]]
    for m in dropped:
        files.pop(m)
    # the model's modules a, b, c are groups of corpus modules; `a` depends on `b`: g_profile (cimports g_dep) is in a
    groups = {"a": [m for m in mods if m.startswith("g_")], "b": [m for m in mods if m.startswith("t_")][:5],
              "c": [m for m in mods if m.startswith("t_")][5:]}
    seeds = {0: "0", 1: "1", 2: str(1000 + seed), 3: "random"}

    def run_class(i_cls):
        i, cls = i_cls
        d = os.path.join(wd, "cls%d" % i)
        make_tree(d, files)
        order = [m for g in cls["order"] for m in groups[g]]
        out = os.path.join(d, "out.json")
        ch = core.run_child(_CHILD, [d, json.dumps(order), str(cls["nworkers"]), out], with_snapshot=True, timeout=1500,
                            env={"PYTHONHASHSEED": seeds[cls["seed"]]})
        if not os.path.exists(out):
            return cls, {"sha": {}, "error": "child failed rc=%s %s" % (ch.rc, ch.err[-800:])}
        return cls, json.load(open(out))
    todo = list(enumerate(classes))
    if tier == "quick":
        base = todo[:1]
        rest = todo[1:]
        todo = base + core.sample(rest, 6, rng)
    with concurrent.futures.ThreadPoolExecutor(max_workers=8) as ex:
        results = list(ex.map(run_class, todo))
    base_cls, base = results[0]
    compiled = [m for m in mods if base["sha"].get(m)]
    failed_base = [m for m in mods if not base["sha"].get(m)]
    if len(compiled) < 8:
        rep.disagree({"kind": "baseline-compile-failed"}, "error", {"base": base})
    n_cmp = 0
    for m in compiled:      # compiled alone (own process, own directory) vs inside the baseline batch
        n_cmp += 1
        if alone_sha[m] != base["sha"][m]:
            rep.disagree({"kind": "alone-differs-from-batch", "module": m}, "bytes-differ", {"module": m, "baseline_class": base_cls})
    for cls, r in results[1:]:
        for m in compiled:
            n_cmp += 1
            if r["sha"].get(m) != base["sha"][m]:
                rep.disagree({"kind": "differs-from-baseline", "module": m, "varied": sorted(k for k in ("order", "seed", "nworkers") if cls[k] != base_cls[k])},
                             "bytes-differ" if r["sha"].get(m) else "compile-failed", {"class": cls, "baseline_class": base_cls, "module": m, "error": r.get("error")})
    # process / directory history: compile the include+profile module and one corpus module alone, twice in the same directory
    d2 = os.path.join(wd, "hist")
    make_tree(d2, files)
    singles = ["g_profile.pyx", "g_names.pyx"]
    hist = []
    for k in range(3):
        out = os.path.join(d2, "o%d.json" % k)
        core.run_child(_CHILD, [d2, json.dumps(singles), "1", out], with_snapshot=True, timeout=600, env={"PYTHONHASHSEED": "0"})
        hist.append(json.load(open(out)) if os.path.exists(out) else {"sha": {}})
    for k in range(1, 3):
        for m in singles:
            n_cmp += 1
            if hist[k]["sha"].get(m) != base["sha"].get(m):
                rep.disagree({"kind": "position-tie-order" if m == "g_profile.pyx" else "differs-between-processes", "module": m},
                             "bytes-differ", {"run": k, "module": m, "sha": hist[k]["sha"].get(m), "baseline": base["sha"].get(m)})
    cov.update({
        "states": t.generated + t1.generated, "distinct_states": t.distinct + t1.distinct, "transitions": t.generated + t1.generated,
        "traces_validated_against_impl": len(results) + 3, "evaluations": n_cmp, "distinct_nontrivial": max(0, len(results) - 1) * len(compiled),
        "environment_classes_published": len(classes), "classes_executed": len(results), "modules": compiled,
        "modules_not_compilable_standalone": dropped + failed_base,
        "rule": "environment classes = job order (3 group permutations) x PYTHONHASHSEED {0, 1, seeded, random} x nthreads {1, 2}; quick: "
                "baseline + 9 seeded classes, thorough: all; every module of the corpus compared byte-wise with the baseline class; "
                "non-trivial = module x non-baseline class",
        "samples": [{"class": c, "n_outputs": len([1 for v in r["sha"].values() if v])} for c, r in results[:3]],
    })
    rc = rep.finish()
    cov["known_findings"] = rep.kf_summary()
    core.write_evidence(PROP, tier, seed, "model_checking", cov, time.time() - t0,
                        assumptions=["the self-compiled compiler form is not exercised (pure-Python compiler only)",
                                     "determinism is observed on a corpus; the scheduling model covers job/worker interleavings only"],
                        violations=rep.n_violations())
    return rc
