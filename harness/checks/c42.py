"""C42 — compilation is deterministic.

spec/Determinism.tla (+ MC_Determinism.tla): a cythonize build as worker PROCESSES taking jobs from an
ordered list, reading only sources, resolving derived names through the process-wide memo of their
process (the compiler's module-level caches) and writing outputs in two steps.  TLC checks over ALL
interleavings that the final outputs are the fresh ones whatever the schedule / order / seed
(ScheduleIndependent, NoSharedOutput), that a job's names do not depend on what its process compiled
before (MemoHistoryIndependent, MemoSound, MemoPrivate), and publishes every environment class with
its process histories (which jobs each process ran, in order) plus, for the hazard models of a memo
keyed too coarsely (declaration + base name of the module / declaration alone), the outputs that
history would make stale.

B1: the published classes are executed on the real compiler: one real process per model process,
which compiles the corpus modules of its jobs with cythonize() one after the other in the published
order (PYTHONHASHSEED of the class); every generated .c must be byte-identical to the FRESH output =
the module compiled alone in a new process.  The quick tier executes a seeded selection that covers
every hazard signature (key mode x stale module) TLC computed.  The corpus: files from tests/run,
generated modules that stress iteration-order hazards (many names and constants, cdef classes,
closures, fused functions, an include file compiled with profile=True) and module families built to
collide in process-wide memos: the same base name in different packages with identical declarations
(extern cpdef enums, extern and plain structs, unions, ctuples, fused types, memoryview types, cdef
classes, closures/generators/lambdas/comprehensions, cimports from one shared .pxd), the same
names with different contents, the same contents under another base name, and top level vs package.
In addition the real parallel path (cythonize(all, nthreads=N), ProcessPoolExecutor) is run and
compared with the fresh outputs, and modules are compiled repeatedly in a directory with history.
"""
import concurrent.futures
import hashlib
import json
import os
import random
import shutil
import sys
import time

import core

PROP = "C42"

CORPUS_FILES = ["closures_T82.pyx", "generators.pyx", "dict_iter_unpack.pyx", "cpdef_method_override.pyx", "switch.pyx",
                "set_literals.py", "kwargs_passthrough.pyx", "listcomp.pyx", "tuple_constants.pyx", "unicodeliterals.pyx"]

GEN = {
    "g_names.pyx": "\n".join(["import sys, os, re, json"] + ["V%d = %r" % (i, "s%d" % i) for i in range(60)] +
                             ["def f%d(a, b=%d, *, k%d=None):\n    return (a, b, V%d, %r, {%d, %d}, {'k%d': %d})" % (i, i, i, i, "lit%d" % i, i, i + 1, i, i)
                              for i in range(40)]),
    "g_classes.pyx": "\n".join(["cdef class C%d:\n    cdef public int a%d\n    cdef public object o%d\n    cpdef int m%d(self): return self.a%d\n"
                                "    def __add__(self, other): return %d\n    def __eq__(self, other): return True\n    def __hash__(self): return %d\n" % (i, i, i, i, i, i, i)
                                for i in range(12)]),
    "g_closures.py": "\n".join(["def outer%d(x):\n    y = x + %d\n    def inner(z):\n        nonlocal y\n        y += z\n        return lambda q: q + y + x\n    return inner\n" % (i, i)
                                for i in range(15)] + ["def gen%d(n):\n    for i in range(n):\n        yield i, {i: str(i)}, [j for j in range(i)]\n" % i for i in range(8)]),
    "g_fused.pyx": "cimport cython\nctypedef fused num:\n    int\n    long\n    double\n    object\n" +
                   "\n".join(["def ff%d(num a, num b):\n    return a + b\n" % i for i in range(4)]),
    "g_profile.pyx": "# cython: profile=True\ninclude \"g_inc.pxi\"\nfrom g_dep cimport K\ndef pf(int a):\n    return a + K + INC\ndef pg(x):\n    return [pf(i) for i in range(x)]\n",
}
EXTRA = {"g_inc.pxi": "INC = 1\ndef from_include(x):\n    return x\n", "g_dep.pxd": "cdef enum:\n    K = 3\n"}

# ---- module families designed to collide in process-wide memos of the compiler -----------------------------------------
# shared declarations (model: the global declaration G, declared in module b's .pxd and cimported by everybody)
COMMON_PXD = """cdef extern from *:
    \"\"\"
    enum CommonMode { CM_A, CM_B };
    \"\"\"
    cpdef enum CommonMode:
        CM_A
        CM_B
cdef struct CommonPoint:
    int x
    double y
ctypedef (int, long) common_pair
cdef class Shared:
    cdef public int v
    cpdef int get(self)
"""
COMMON_PYX = """cdef class Shared:
    cpdef int get(self):
        return self.v
def common_point(int x):
    cdef CommonPoint p = CommonPoint(x, 0.5)
    return p
def common_mode():
    return CM_B
cdef common_pair mkpair(int a):
    return (a, a)
def pair(a):
    return mkpair(a)
"""
# identical text in several packages under the same base name (model: the scoped declaration T of pa and qa)
SHAPE = """cimport cython
from g_common cimport Shared, CommonMode, CommonPoint, common_pair, CM_A

cdef extern from *:
    \"\"\"
    enum Mode { MODE_FAST, MODE_SMALL };
    typedef struct { int x; double y; } ext_point;
    \"\"\"
    cpdef enum Mode:
        MODE_FAST
        MODE_SMALL
    ctypedef struct ext_point:
        int x
        double y

cpdef enum Colour:
    RED = 1
    GREEN = 2

cdef struct Point:
    int x
    double y

cdef union Either:
    int i
    float f

ctypedef fused number:
    int
    double
    Point

ctypedef (int, double) pair_t

cdef class Node:
    cdef public int value
    cdef Point p
    cdef public Shared s
    cpdef int get(self):
        return self.value
    def __add__(self, other):
        return self

def default_mode():
    return MODE_SMALL

def mode_arg(Mode m):
    return m

def colour():
    return Colour.GREEN

def point(int x):
    cdef Point p = Point(x, 2.0)
    return p

def point_arg(Point p):
    return p.x

def ext(int x):
    cdef ext_point p
    p.x = x
    p.y = 1.5
    return p

cdef pair_t mk(int a):
    return (a, a * 0.5)

def ctuple(int a):
    return mk(a)

def from_ctuple((int, double) t, common_pair c):
    return t[0] + c[1]

def fused_first(number a, number b):
    return a

def fused_cy(cython.floating a, cython.integral b):
    return a + b

def mv(double[:, ::1] a, int[::1] b):
    return a[0, 0] + b[0]

def mv_struct(Point[:] pts, CommonPoint[:] cps):
    return pts[0].x + cps[0].x

def closure(x):
    def inner(y):
        return x + y
    return inner

def gen(n):
    for i in range(n):
        yield (lambda q: q + i)

def comp(n):
    return [i for i in range(n)], {i: i for i in range(n)}, sum(i for i in range(n))

def shared(Shared s, CommonMode m):
    cdef CommonPoint cp = CommonPoint(1, 2.0)
    return s.v + <int>m + <int>CM_A, cp

async def co(x):
    return await x

cdef int cfunc(int a, Either* e) noexcept nogil:
    return a + e.i

def call_cfunc(int a):
    cdef Either e
    e.i = a
    return cfunc(a, &e)
"""


def variant(k, ctype, defs="from .defs cimport real_t, Cell"):
    """the same declaration NAMES in every instance, contents depend on (k, ctype); every instance includes the consts.pxi
    and cimports the defs.pxd of ITS directory (same file names everywhere, other contents)"""
    return """from g_common cimport Shared, CommonMode
%(defs)s
include "consts.pxi"

cdef extern from *:
    \"\"\"
    enum Level { LEVEL_A%(k)d, LEVEL_B%(k)d };
    typedef struct { int f%(k)d; } ext_rec;
    \"\"\"
    cpdef enum Level:
        LEVEL_A%(k)d
        LEVEL_B%(k)d
    ctypedef struct ext_rec:
        int f%(k)d

cpdef enum Kind:
    K%(k)d = %(k)d

cdef struct Rec:
    int f%(k)d
    %(ctype)s g

ctypedef fused scalar:
    %(ctype)s
    short

ctypedef (%(ctype)s, int) item_t

cdef class Box:
    cdef public %(ctype)s v%(k)d
    cpdef %(ctype)s get(self):
        return self.v%(k)d

def level():
    return LEVEL_B%(k)d

def level_arg(Level v, CommonMode m):
    return v, m

def kind():
    return Kind.K%(k)d

def rec(int x):
    cdef Rec r
    r.f%(k)d = x
    r.g = x
    return r

def rec_arg(Rec r):
    return r.f%(k)d

def ext(int x):
    cdef ext_rec r
    r.f%(k)d = x
    return r

cdef item_t mk(int a):
    return (<%(ctype)s>a, a)

def item(int a):
    return mk(a)

def item_arg(item_t t):
    return t[1]

def fused_id(scalar a):
    return a

def closure(x):
    def inner(y):
        return x + y + %(k)d
    return inner

def gen(n):
    for i in range(n):
        yield i + %(k)d

def cell(int x):
    cdef Cell c
    c.v = <real_t>x
    c.n%(k)d = clamp(x)
    return c

def real(real_t x):
    return x + LIMIT
""" % {"k": k, "ctype": ctype, "defs": defs}


def consts_pxi(k):
    return "cdef enum:\n    LIMIT = %d\ncdef inline int clamp(int x) noexcept:\n    return x if x < LIMIT else LIMIT + %d\n" % (100 + k, k)


def defs_pxd(k, ctype):
    return "ctypedef %s real_t\ncdef struct Cell:\n    real_t v\n    int n%d\n" % (ctype, k)


FAMILIES = {
    "g_common.pxd": COMMON_PXD, "g_common.pyx": COMMON_PYX,
    "pkg_p/__init__.py": "", "pkg_q/__init__.py": "", "pkg_r/__init__.py": "",
    "pkg_p/shape.pyx": SHAPE, "pkg_q/shape.pyx": SHAPE,                          # same base name, same text, two packages
    "pkg_p/variant.pyx": variant(1, "long"), "pkg_q/variant.pyx": variant(2, "double"),   # same names, other contents
    "pkg_r/other.pyx": variant(1, "long"),                                        # text of pkg_p/variant under another name
    "other.pyx": variant(2, "double", "from defs cimport real_t, Cell"),          # top level vs package, same base name
    # files found by NAME relative to the including / cimporting module: same names, other contents per directory
    "pkg_p/consts.pxi": consts_pxi(1), "pkg_q/consts.pxi": consts_pxi(2), "pkg_r/consts.pxi": consts_pxi(1), "consts.pxi": consts_pxi(2),
    "pkg_p/defs.pxd": defs_pxd(1, "long"), "pkg_q/defs.pxd": defs_pxd(2, "double"), "pkg_r/defs.pxd": defs_pxd(1, "long"),
    "defs.pxd": defs_pxd(2, "double"),
}
# the model's modules are groups of corpus modules compiled consecutively by the process that runs the job
GROUP_HEAD = {"pa": ["pkg_p/shape.pyx", "pkg_p/variant.pyx", "g_names.pyx", "g_classes.pyx"],
              "qa": ["pkg_q/shape.pyx", "pkg_q/variant.pyx", "g_closures.py", "g_fused.pyx"],
              "ro": ["other.pyx", "pkg_r/other.pyx", "g_profile.pyx"],
              "b": ["g_common.pyx"]}

_CHILD = r"""
import json, sys, os, hashlib
workdir, mode, order_json, nthreads, outfile = sys.argv[1], sys.argv[2], sys.argv[3], int(sys.argv[4]), sys.argv[5]
os.chdir(workdir)
import Cython
assert Cython.__file__.startswith(os.environ["PYTHONPATH"].split(os.pathsep)[0]), Cython.__file__
from Cython.Build.Dependencies import cythonize
files = json.loads(order_json)
for f in files:
    for ext in (".c", ".cpp"):
        p = os.path.splitext(f)[0] + ext
        if os.path.exists(p): os.unlink(p)
import io
buf = io.StringIO(); old = sys.stdout; sys.stdout = buf
err = None
try:
    try:
        if mode == "pool":       # the real parallel path: one call, ProcessPoolExecutor with nthreads workers
            cythonize(files, nthreads=nthreads, language_level=3, quiet=True, force=True)
        else:                    # "seq": THIS process compiles the files one after the other in the given order
            for f in files:
                try:
                    cythonize([f], nthreads=0, language_level=3, quiet=True, force=True)
                except BaseException as e:
                    err = "%s: %s: %s" % (f, type(e).__name__, str(e)[:300])
    finally:
        sys.stdout = old
except BaseException as e:
    err = "%s: %s" % (type(e).__name__, str(e)[:300])
res = {}
for f in files:
    c = os.path.splitext(f)[0] + ".c"
    res[f] = hashlib.sha256(open(c, "rb").read()).hexdigest() if os.path.exists(c) else None
json.dump({"sha": res, "error": err}, open(outfile, "w"))
"""
KEYMODES = ("base", "decl")      # the hazard models of the spec


def make_tree(d, files):
    os.makedirs(d, exist_ok=True)
    for name, text in files.items():
        p = os.path.join(d, name)
        os.makedirs(os.path.dirname(p), exist_ok=True)
        with open(p, "w") as f:
            f.write(text)


def first_difference(a, b):
    """kind of the first differing line of two generated files (for the replay record)"""
    try:
        la = open(a, encoding="utf8", errors="replace").read().splitlines()
        lb = open(b, encoding="utf8", errors="replace").read().splitlines()
    except OSError as e:
        return {"error": str(e)}
    for i, (x, y) in enumerate(zip(la, lb)):
        if x != y:
            return {"line": i + 1, "fresh": x[:240], "got": y[:240]}
    return {"line": min(len(la), len(lb)) + 1, "fresh_lines": len(la), "got_lines": len(lb)}


def canonical_classes(printed):
    """distinct environment classes (seed, nworkers, set of process histories) with their hazard signatures"""
    seen = {}
    for r in printed:
        procs = tuple(sorted(tuple(h) for h in r["hist"] if h))
        key = (r["seed"], r["nworkers"], procs)
        if key not in seen:
            seen[key] = {"order": r["order"], "seed": r["seed"], "nworkers": r["nworkers"], "procs": [list(h) for h in procs],
                         "stale": {k: sorted(v) for k, v in r["stale"].items()}}
    return [seen[k] for k in sorted(seen)]


def signatures(cls):
    return {(km, m) for km in KEYMODES for m in cls["stale"].get(km, [])}


def select(classes, n, rng):
    """n classes: first a greedy cover of all hazard signatures (random tie-break), then random ones"""
    pool = list(classes)
    rng.shuffle(pool)
    want = set().union(*[signatures(c) for c in pool]) if pool else set()
    chosen = []
    while want and pool and len(chosen) < n:
        best = max(pool, key=lambda c: len(signatures(c) & want))
        if not signatures(best) & want:
            break
        chosen.append(best)
        pool.remove(best)
        want -= signatures(best)
    # one class with several processes among the covering ones is not guaranteed: the random rest supplies them
    multi = [c for c in pool if len(c["procs"]) > 1]
    single = [c for c in pool if len(c["procs"]) == 1]
    while len(chosen) < n and (multi or single):
        src = multi if (multi and (len(chosen) % 2 == 0 or not single)) else single
        chosen.append(src.pop())
    return chosen, want


def run(tier, seed):
    t0 = time.time()
    rng = random.Random(seed)
    rep = core.Reporter(PROP)
    cov = {"tlc": []}
    cfg = "MC_Determinism" if tier == "quick" else "MC_Determinism_all"
    core.scratch()
    tlc_pool = concurrent.futures.ThreadPoolExecutor(max_workers=1)
    tlc_future = tlc_pool.submit(core.tlc, "MC_Determinism", cfg=cfg, coverage=True, timeout=2400)   # runs while the fresh outputs are compiled
    # corpus
    files = dict(GEN)
    files.update(EXTRA)
    files.update(FAMILIES)
    for f in CORPUS_FILES:
        p = os.path.join(core.REPO, "tests", "run", f)
        if os.path.exists(p):
            files["t_" + f] = open(p, encoding="utf8").read()
    mods = sorted(f for f in files if f.endswith((".pyx", ".py")) and not f.endswith("__init__.py"))
    wd = core.subdir("c42")

    # phase 0: every module alone, in its own NEW process and directory = the fresh output F(inputs) of the spec (empty
    # memo); modules that do not compile standalone (some tests/run files need extra options) leave the corpus
    def alone_dir(m):
        return os.path.join(wd, "alone_" + m.replace(".", "_").replace("/", "__"))

    def alone(m):
        d = alone_dir(m)
        make_tree(d, files)
        out = os.path.join(d, "out.json")
        core.run_child(_CHILD, [d, "seq", json.dumps([m]), "0", out], with_snapshot=True, timeout=1500, env={"PYTHONHASHSEED": "0"})
        return m, (json.load(open(out))["sha"].get(m) if os.path.exists(out) else None)
    # the tests/run files (the only modules allowed to drop out) first; the other fresh outputs are awaited after the classes started
    ex0 = concurrent.futures.ThreadPoolExecutor(max_workers=core.NCPU)
    droppable = [m for m in mods if m.startswith("t_")]
    fut_alone = {m: ex0.submit(alone, m) for m in droppable + [m for m in mods if not m.startswith("t_")]}
    fresh = {m: fut_alone[m].result()[1] for m in droppable}
    dropped = [m for m in droppable if not fresh[m]]
    mods = [m for m in mods if m not in dropped]
    for m in dropped:
        files.pop(m)

    t_phase0 = time.time() - t0
    t = tlc_future.result()
    tlc_pool.shutdown()
    t_tlc_wait = time.time() - t0 - t_phase0
    if not t.ok:
        sys.stderr.write(t.out[-6000:])
        core.die("TLC failed (%s): %s" % (t.violation or t.rc, t.cmd))
    for act in ("Take", "ReadOne", "Memo", "Truncate", "Write", "Observe"):
        if t.coverage.get(act, (0, 0))[1] == 0:
            core.die("vacuous model: %s never taken" % act)
    cov["tlc"].append(dict(t.summary(), config="4 modules (pa, qa: one base name in two packages; ro: same declarations elsewhere; all depend on b), "
                                               "%s orders x 4 seeds x {1, 2} worker processes, all interleavings; key modes exact + hazard models base, decl"
                                               % ("6" if tier == "quick" else "all 24")))
    classes = canonical_classes(t.printed)
    if len(classes) < 6:
        core.die("only %d environment classes published" % len(classes))
    if any(c["stale"].get("exact") for c in classes):
        core.die("spec: stale outputs under the exact key mode")
    all_sigs = set().union(*[signatures(c) for c in classes])
    need = {(km, m) for km in KEYMODES for m in ("pa", "qa")} | {("decl", "ro")}
    if not need <= all_sigs:
        core.die("vacuous hazard models: signatures %s never published" % sorted(need - all_sigs))
    if not any(len(c["procs"]) > 1 and not signatures(c) & {("base", "pa"), ("base", "qa")} for c in classes):
        core.die("spec publishes no multi-process class that separates pa and qa")

    # the model's modules are groups of corpus modules; pa, qa, ro depend on b: g_common (the .pxd they cimport) is in b
    tfiles = [m for m in mods if m.startswith("t_")]
    groups = {g: [m for m in GROUP_HEAD[g] if m in mods] for g in GROUP_HEAD}
    groups["b"] += tfiles[:(len(tfiles) + 1) // 2]
    groups["ro"] += tfiles[(len(tfiles) + 1) // 2:]
    group_of = {m: g for g in groups for m in groups[g]}
    if sorted(group_of) != sorted(mods):
        core.die("corpus modules without a group: %s" % sorted(set(mods) - set(group_of)))
    seeds = {0: "0", 1: "1", 2: str(1000 + seed), 3: "random"}

    def run_class(i_cls):
        i, cls = i_cls
        d = os.path.join(wd, "cls%d" % i)
        make_tree(d, files)

        def proc(j):      # one real process per model process: its jobs' modules in the published order
            order = [m for g in cls["procs"][j] for m in groups[g]]
            out = os.path.join(d, "out%d.json" % j)
            ch = core.run_child(_CHILD, [d, "seq", json.dumps(order), "0", out], with_snapshot=True, timeout=2400,
                                env={"PYTHONHASHSEED": seeds[cls["seed"]]})
            if not os.path.exists(out):
                return {"sha": {}, "error": "child failed rc=%s %s" % (ch.rc, ch.err[-800:])}
            return json.load(open(out))
        with concurrent.futures.ThreadPoolExecutor(max_workers=max(1, len(cls["procs"]))) as ex2:
            parts = list(ex2.map(proc, range(len(cls["procs"]))))
        r = {"sha": {}, "error": "; ".join(p["error"] for p in parts if p.get("error")) or None, "dir": d}
        for p in parts:
            r["sha"].update(p["sha"])
        return cls, r

    def run_pool(i_cls):
        i, (nthreads, sd, order) = i_cls
        d = os.path.join(wd, "pool%d" % i)
        make_tree(d, files)
        out = os.path.join(d, "out.json")
        ch = core.run_child(_CHILD, [d, "pool", json.dumps([m for g in order for m in groups[g]]), str(nthreads), out], with_snapshot=True,
                            timeout=2400, env={"PYTHONHASHSEED": seeds[sd]})
        r = json.load(open(out)) if os.path.exists(out) else {"sha": {}, "error": "child failed rc=%s %s" % (ch.rc, ch.err[-800:])}
        r["dir"] = d
        return {"nworkers": nthreads, "seed": sd, "order": order, "mode": "cythonize(nthreads)"}, r

    # process / directory history: compile the include+profile module and one corpus module alone, three times in the same directory
    singles = ["g_profile.pyx", "g_names.pyx"]

    def run_hist():
        d2 = os.path.join(wd, "hist")
        make_tree(d2, files)
        hist = []
        for k in range(3):
            out = os.path.join(d2, "o%d.json" % k)
            core.run_child(_CHILD, [d2, "pool", json.dumps(singles), "1", out], with_snapshot=True, timeout=900, env={"PYTHONHASHSEED": "0"})
            hist.append(json.load(open(out)) if os.path.exists(out) else {"sha": {}})
        return hist
    if tier == "quick":
        todo, uncovered = select(classes, 5, rng)
        pools = [(2, 3, list(GROUP_HEAD))]
    else:
        single = [c for c in classes if len(c["procs"]) == 1 and c["nworkers"] == 1]
        single = list({tuple(c["procs"][0]): c for c in single}.values())         # every job order once in ONE process
        cover, uncovered = select(classes, 8, rng)
        multi = [c for c in classes if len(c["procs"]) > 1 and c not in cover]
        todo = cover + [c for c in single if c not in cover] + core.sample(multi, 16, rng)
        pools = [(2, 3, list(GROUP_HEAD)), (1, 1, list(GROUP_HEAD)[::-1]), (2, 0, ["b", "ro", "qa", "pa"])]
    if uncovered:
        core.die("selection does not cover the hazard signatures %s" % sorted(uncovered))
    with concurrent.futures.ThreadPoolExecutor(max_workers=8) as ex:
        fut_pool = [ex.submit(run_pool, x) for x in enumerate(pools)]
        fut_hist = ex.submit(run_hist)
        results = list(ex.map(run_class, enumerate(todo)))
        pool_results = [f.result() for f in fut_pool]
        hist = fut_hist.result()
    for m in mods:
        if m not in fresh:
            fresh[m] = fut_alone[m].result()[1]
    ex0.shutdown()
    missing = [m for m in mods if not fresh[m]]       # generated modules and families must compile standalone
    for m in missing:
        rep.disagree({"kind": "module-does-not-compile-alone", "module": m}, "error", {"module": m})

    t_classes = time.time() - t0 - t_phase0 - t_tlc_wait
    n_cmp = 0
    n_hist = 0
    exec_sigs = set()
    for cls, r in results:
        exec_sigs |= signatures(cls)
        for h in cls["procs"]:
            n_hist += 1
            for gi, g in enumerate(h):
                for mi, m in enumerate(groups[g]):
                    n_cmp += 1
                    got = r["sha"].get(m)
                    if got != fresh[m]:
                        # descriptor from the spec side: the module, its model module and what the process ran before it
                        desc = {"kind": "depends-on-process-history", "module": m, "group": g, "after_groups": sorted(set(h[:gi])),
                                "first_in_process": gi == 0 and mi == 0}
                        detail = {"class": cls, "process": h, "compiled_before_in_process": [x for gg in h[:gi] for x in groups[gg]] + groups[g][:mi],
                                  "seed": seeds[cls["seed"]], "sha": got, "fresh_sha": fresh[m], "error": r.get("error")}
                        if got:
                            cfile = os.path.splitext(m)[0] + ".c"
                            detail["first_difference"] = first_difference(os.path.join(alone_dir(m), cfile), os.path.join(r["dir"], cfile))
                        rep.disagree(desc, "bytes-differ" if got else "compile-failed", detail)
    for cls, r in pool_results:     # the real ProcessPoolExecutor path (job -> process assignment not controlled)
        for m in mods:
            n_cmp += 1
            got = r["sha"].get(m)
            if got != fresh[m]:
                detail = {"class": cls, "sha": got, "fresh_sha": fresh[m], "error": r.get("error")}
                if got:
                    cfile = os.path.splitext(m)[0] + ".c"
                    detail["first_difference"] = first_difference(os.path.join(alone_dir(m), cfile), os.path.join(r["dir"], cfile))
                rep.disagree({"kind": "batch-differs-from-fresh", "module": m, "group": group_of[m], "nthreads": cls["nworkers"]},
                             "bytes-differ" if got else "compile-failed", detail)
    for k in range(3):
        for m in singles:
            n_cmp += 1
            if hist[k]["sha"].get(m) != fresh.get(m):
                rep.disagree({"kind": "position-tie-order" if m == "g_profile.pyx" else "differs-between-processes", "module": m},
                             "bytes-differ", {"run": k, "module": m, "sha": hist[k]["sha"].get(m), "fresh_sha": fresh.get(m)})
    n_later = sum(len(groups[g]) for c, _ in results for h in c["procs"] for g in h) - sum(1 for c, _ in results for h in c["procs"])
    cov.update({
        "states": t.generated, "distinct_states": t.distinct, "transitions": t.generated,
        "traces_validated_against_impl": len(results) + len(pool_results) + 3, "evaluations": n_cmp,
        "distinct_nontrivial": n_later,
        "environment_classes_published": len(classes), "classes_executed": len(results), "process_histories_executed": n_hist,
        "batch_runs_executed": len(pool_results),
        "hazard_signatures_published": sorted("%s:%s" % s for s in all_sigs), "hazard_signatures_executed": sorted("%s:%s" % s for s in exec_sigs),
        "action_coverage": {a: list(t.coverage.get(a, (0, 0))) for a in ("Take", "ReadOne", "Memo", "Truncate", "Write", "Observe")},
        "modules": mods, "groups": groups,
        "phase_wall_s": {"fresh_outputs_of_droppable_modules": round(t_phase0, 1), "waiting_for_tlc": round(t_tlc_wait, 1), "classes_batches_and_other_fresh_outputs": round(t_classes, 1)},
        "modules_not_compilable_standalone": dropped,
        "rule": "environment classes = final states of the model: job order x PYTHONHASHSEED {0, 1, seeded, random} x {1, 2} worker processes x "
                "process histories (which jobs each process ran, in order); a class is executed as one real process per model process that "
                "compiles the modules of its jobs consecutively; every output is compared byte-wise with the fresh output (module alone in a "
                "new process); quick: 5 seeded classes that cover every hazard signature (key mode x stale module) of the too-coarse-memo "
                "models + 1 cythonize(nthreads=2) batch, thorough: every job order in one process, the cover, 16 two-process classes, 3 batches; "
                "non-trivial = module compiled by a process that compiled something else before",
        "samples": [{"class": c, "n_outputs": len([1 for v in r["sha"].values() if v])} for c, r in results[:3]],
    })
    rc = rep.finish()
    cov["known_findings"] = rep.kf_summary()
    core.write_evidence(PROP, tier, seed, "model_checking", cov, time.time() - t0,
                        assumptions=["the self-compiled compiler form is not exercised (pure-Python compiler only)",
                                     "determinism is observed on a corpus; the scheduling model covers job/worker interleavings and one "
                                     "abstract per-process memo; the real caches are exercised only through the corpus families"],
                        violations=rep.n_violations())
    return rc
