"""C43 -- the compiler never crashes and accepts all valid Python.

Specs (TLC):
  Pipeline.tla / PipelineCore.tla   the compilation as a state machine over the phase list; legal runs end
                                     Generated or Rejected (positioned messages), internal exceptions / crash
                                     reports are never legal (invariants checked on every run of the model)
  PyGrammar.tla                      token-level grammar of VALID Python 3.12: every sentence that combines up to
                                     Budget alternatives is a state (cases -> replay); drift guard = CPython compile()
  Mutate.tla                         all single / (sampled) double token edits of <= 12-token sequences
  Pipeline_Trace.tla                 validates every recorded compilation (B2: events of the wrapped phases of the
                                     real pipeline, the caller's view, the C compiler's answer) and the acceptance
                                     rule (valid => Generated, unless every error is a documented rejection)
Binding: texts are compiled in child processes by the compiler from the snapshot of the working tree
(lib_pipeline.DRIVER wraps the phases of Pipeline.create_pyx_pipeline and Errors.report_error; no repo change).
Families of texts: gram (PyGrammar sentences), mut (Mutate edits applied to gram sentences), lit (literal /
nesting / layout texts of lib_pytexts, validity decided by CPython), corpus (files of the interpreter's library).
"""
import concurrent.futures
import json
import os
import random
import re
import sys
import time

import core
import lib_pipeline as LP
import lib_pytexts as T

PROP = "C43"

# --------------------------------------------------------------------------
# documented rejections (the finite table of the property; messages of the compiler)
DOCUMENTED = [
    ("undeclared", re.compile(r"^undeclared name not builtin: ")),               # Symtab / tests/errors/e_undefined*.pyx
    ("unbound", re.compile(r"^local variable '.*' referenced before assignment$")),   # FlowControl, tests/errors/w_uninitialized*
    ("delnested", re.compile(r"^can not delete variable '.*' referenced in nested scope$")),  # tests/errors/e_del.pyx
    ("tabs", re.compile(r"^Mixed use of tabs and spaces$")),                     # Scanning, tests/errors/se_mixtabspace.pyx
]
# compile-time type checks of operations on values of known type (tests/errors/*): tolerated only if the text really
# applies an operation to such a value (P-side AST feature `typedop`)
STATIC = re.compile(r"^(Calling non-function type|Attempting to index non-array type|Invalid operand types? for|"
                    r"Index -?\d+ out of bounds for|Cannot (assign|convert|coerce|interpret)|Invalid types for|"
                    r"C function got unexpected keyword argument|.*\(\) (requires|takes) .* arguments?|"
                    r"Object of type '.*' has no attribute|Cannot take address of|Too (few|many) (members|arguments)|"
                    r"Call with wrong number of arguments|Cannot iterate over|C '.*' is not iterable|'.*' is not iterable|"
                    r"Unpacking|Comparing|Invalid base for|unsupported operand|starred expression is not allowed here$|"
                    r"too many values to unpack|need more than \d+ values? to unpack|Can only create|"
                    r"Cannot use .* as|Exception clause not allowed|Python type .* cannot be used|Type is not specialized|"
                    r".* operator not supported for type)")


def error_class(msg):
    for name, rx in DOCUMENTED:
        if rx.search(msg):
            return name
    if STATIC.search(msg):
        return "static"
    return "other"


def norm_msg(m):
    m = re.sub(r"'[^']*'", "'_'", m.strip().split("\n")[0])
    m = re.sub(r"\d+", "N", m)
    return m[:90]


# --------------------------------------------------------------------------
# texts


class Case(object):
    __slots__ = ("id", "family", "data", "desc", "valid", "why_invalid", "typedop", "feats", "tags", "claims_valid", "cplus")

    def __init__(self, family, data, desc, claims_valid=False):
        self.family, self.data, self.desc, self.claims_valid = family, data, desc, claims_valid
        self.valid = None
        self.cplus = False


def first_token(toks):
    for t in toks:
        if t not in ("NL", "NLJ", "INDENT", "INDENTTAB", "INDENT1", "DEDENT", "NOEOL", "BSNL", "<FF>", "<CRLF>", "<BOM>"):
            return t
    return ""


def run_tlc_parallel(tier, seed, cov):
    gcfg = "PyGrammar_quick" if tier == "quick" else "PyGrammar_thorough"
    mcfg = "Mutate_quick" if tier == "quick" else "Mutate_thorough"
    env = {"C43_SEED": seed % 1000}
    jobs = {
        "model": lambda: core.tlc("Pipeline", "Pipeline", workers=2, timeout=900, coverage=True),
        "gram": lambda: core.tlc("PyGrammar", gcfg, workers=max(2, core.NCPU // 2), timeout=3000, env=env, coverage=False),
        "mut": lambda: core.tlc("Mutate", mcfg, workers=2, timeout=1500, env=env),
    }
    with concurrent.futures.ThreadPoolExecutor(max_workers=3) as ex:
        futs = {k: ex.submit(f) for k, f in jobs.items()}
        res = {k: f.result() for k, f in futs.items()}
    for k, r in res.items():
        if not r.ok:
            sys.stderr.write(r.out[-5000:])
            core.die("TLC failed on %s (%s): %s" % (k, r.violation or r.rc, r.cmd))
        cov["states"] += r.generated
        cov["distinct_states"] += r.distinct
        cov["transitions"] += r.generated
        cov["tlc"].append(dict(r.summary(), part=k))
    # vacuity guards (model side only)
    model = res["model"]
    cov["action_coverage"] = {k: list(v) for k, v in model.coverage.items()}
    for act in ("Enter", "EnterWrong", "Error", "Exit", "Raise", "Span"):
        if model.coverage.get(act, (0, 0))[1] == 0:
            core.die("vacuous Pipeline model: action %s never taken" % act)
    outcomes = sorted(set(p["outcome"] for p in model.printed if "outcome" in p))
    bads = sorted(set(p["bad"] for p in model.printed if "bad" in p))
    need_out = {"generated", "raised-in-parse", "raised-in-xform", "aborted-in-abort", "errors-in-codegen", "raised-in-codegen"}
    need_bad = {"crash-reported", "internal-error", "internal-exception", "unpositioned-error", "phase-order",
                "abort-missed", "rejected-without-message", "position-outside-source"}
    if not need_out <= set(outcomes) or not need_bad <= set(bads):
        core.die("vacuous Pipeline model: outcomes %s, rejected classes %s" % (outcomes, bads))
    cov["model_outcomes"] = outcomes
    cov["model_rejections"] = bads
    return res


def gram_cases(tlc_res, cov):
    cases, seen = [], set()
    prods = set()
    for p in tlc_res.printed:
        data = T.render(p["toks"])
        for u in p["used"]:
            prods.add(u)
        if data in seen:
            continue
        seen.add(data)
        desc = {"family": "gram", "used": "+".join(p["used"]), "toks": " ".join(p["toks"])[:400], "first": first_token(p["toks"])}
        c = Case("gram", data, desc, claims_valid=True)
        cases.append((c, p["toks"]))
    cov["grammar_sentences"] = len(tlc_res.printed)
    cov["grammar_alternatives_used"] = len(prods)
    if len(prods) < 300:
        core.die("vacuous grammar run: only %d alternatives were used" % len(prods))
    return cases


def mut_cases(mut_res, gram, tier, rng, cov):
    """apply the published index sequences to the tokens of sampled grammar sentences"""
    by_n = {}
    for m in mut_res.printed:
        by_n.setdefault(m["n"], []).append(m)
    # vacuity: every single edit of every length is there
    for n, ms in by_n.items():
        singles = [m for m in ms if len(m["script"]) == 1]
        if len(singles) != n + n + n * (n - 1) // 2 + n:
            core.die("Mutate.tla: %d single edits for n=%d" % (len(singles), n))
    cov["edit_scripts"] = len(mut_res.printed)
    nseeds, per_seed = (12, 110) if tier == "quick" else (160, 260)
    cands = [(c, toks) for c, toks in gram if 3 <= len(toks) <= max(by_n)]
    cands.sort(key=lambda ct: ct[0].data)
    rng.shuffle(cands)
    out, seen = [], set(c.data for c, _ in gram)
    for c, toks in cands[:nseeds]:
        ms = by_n.get(len(toks), [])
        singles = [m for m in ms if len(m["script"]) == 1]
        doubles = [m for m in ms if len(m["script"]) == 2]
        pick = singles + core.sample(doubles, max(0, per_seed - len(singles)), rng)
        for m in pick:
            mt = [toks[i - 1] for i in m["seq"]]
            data = T.render(mt)
            if data in seen:
                continue
            seen.add(data)
            edits = "+".join("%s@%d%s" % (e["op"], e["i"], ",%d" % e["j"] if e["op"] == "swap" else "") for e in m["script"])
            desc = {"family": "mut", "used": c.desc["used"], "edits": edits, "toks": " ".join(mt)[:400], "first": first_token(mt)}
            out.append(Case("mut", data, desc))
    cov["mutation_seeds"] = min(nseeds, len(cands))
    return out


def lit_cases(tier, rng):
    fam = T.lit_family(tier)
    if tier == "quick":
        # the families are enumerated completely except the big escape product and the nesting depths
        keep = []
        for f, name, data in fam:
            if f in ("esc2", "escdoc", "esc1") and rng.random() > 0.15:
                continue
            if f == "nest" and not (re.search(r"-(90)$", name) or re.match(r"(lambda|paren|add)-(30|199)$", name)):
                continue
            if f in ("bigint", "bigfloat") and not re.search(r"-(19|40|4300|4301|5000)$", name):
                continue
            if f == "constfold" and name.startswith("ret "):
                continue
            if f == "layout" and rng.random() > 0.5:
                continue
            if f == "constfold" and rng.random() > 0.3 and "9 ** 9" not in name:
                continue
            keep.append((f, name, data))
        fam = keep
    out = []
    for f, name, data in fam:
        text = data.decode("utf8", "replace")
        desc = {"family": "lit", "sub": f, "name": name, "first": (re.findall(r"[A-Za-z_]\w*|\S", text[:200]) or [""])[0],
                "text": text if len(text) <= 300 else text[:150] + " ... " + text[-100:]}
        out.append(Case("lit", data, desc))
    return out


def corpus_cases(tier, rng):
    lib, files = T.corpus_files()
    if tier == "quick":
        small = [f for f in files if os.path.getsize(f) <= 30000]
        small.sort()
        files = core.sample(small, 3, rng)
    out = []
    for f in files:
        with open(f, "rb") as fh:
            data = fh.read()
        out.append(Case("corpus", data, {"family": "corpus", "name": os.path.relpath(f, lib)}))
    return out


# --------------------------------------------------------------------------
# records -> events of PipelineCore


def spec_events(rec):
    """event list of the record in PipelineCore's alphabet, runs of clean phases folded into `span` events"""
    out = []
    ev = rec["ev"]
    i, n = 0, len(ev)
    while i < n:
        e = ev[i]
        if e[0] == "enter" and i + 1 < n and ev[i + 1][0] == "exit" and ev[i + 1][1] == e[1] and ev[i + 1][2] == e[2]:
            # fold following clean phases
            p = q = e[1]
            cnt = e[2]
            j = i + 2
            while (j + 1 < n and ev[j][0] == "enter" and ev[j + 1][0] == "exit" and ev[j][1] == q + 1
                   and ev[j + 1][1] == q + 1 and ev[j][2] == cnt and ev[j + 1][2] == cnt):
                q += 1
                j += 2
            out.append({"e": "span", "p": p, "q": q, "n": cnt})
            i = j
        elif e[0] == "enter":
            out.append({"e": "enter", "p": e[1], "n": e[2]})
            i += 1
        elif e[0] == "exit":
            out.append({"e": "exit", "p": e[1], "n": e[2]})
            i += 1
        elif e[0] == "raise":
            out.append({"e": "raise", "p": e[1], "n": e[2], "x": e[3], "r": bool(e[4]) if len(e) > 4 else False})
            i += 1
        elif e[0] == "error":
            out.append({"e": "error", "n": e[2], "c": e[3], "w": e[4]})
            i += 1
        else:
            out.append({"e": "unknown"})
            i += 1
    return out


def trace_record(case, rec, kinds_index, cc):
    if "died" in rec:
        fin = {"nerr": 0, "cfile": False, "stale": False, "escaped": "", "timeout": "limit" in rec["died"] or "timeout" in rec["died"],
               "died": not ("limit" in rec["died"] or "timeout" in rec["died"]), "cc": "unchecked"}
        return {"id": case.id, "k": 1, "ev": [], "fin": fin, "valid": bool(case.valid), "docd": False}
    kinds = tuple(rec["phases"]) or ("parse",)
    if kinds not in kinds_index:
        kinds_index[kinds] = len(kinds_index) + 1
    msgs = [e for e in rec["errors"] if e.get("w") != "marker"]
    classes = [error_class(e["msg"]) for e in msgs]
    docd = bool(classes) and all(c in ("undeclared", "unbound", "delnested", "tabs") or (c == "static" and case.typedop)
                                 for c in classes)
    fin = {"nerr": rec["final"]["nerr"], "cfile": bool(rec["final"]["cfile"]), "stale": bool(rec["final"]["stale"]),
           "escaped": rec["escaped"] or "", "timeout": bool(rec["timeout"]), "died": False, "cc": cc}
    return {"id": case.id, "k": kinds_index[kinds], "ev": spec_events(rec), "fin": fin, "valid": bool(case.valid), "docd": docd}


def obs_detail(case, rec, why):
    """detail of the wrong observation (part of obs_class: which message / which exception / which transform)"""
    if "died" in rec:
        return rec["died"]
    if why == "valid-rejected":
        bad = [e["msg"] for e in rec["errors"] if e.get("w") != "marker" and
               error_class(e["msg"]) not in ("undeclared", "unbound", "delnested", "tabs")]
        return norm_msg(bad[0]) if bad else ""
    if why == "exception-escaped":
        tb = rec.get("escaped_tb", "")
        m = re.findall(r'File ".*?/Cython/(?:\w+/)*(\w+\.py)", line \d+, in (\w+)', tb)
        return "%s at %s" % (rec["escaped"], ":".join(m[-1]) if m else "?")
    if why in ("crash-reported", "internal-error", "internal-exception"):
        r = rec.get("raised") or {}
        cause = r.get("cause")
        phase = r.get("phase", "?")
        if not cause:
            for e in rec["errors"]:
                if e.get("cause"):
                    cause = e["cause"]
                    m = re.search(r"Compiler crash in (\w+)", e["msg"])
                    phase = m.group(1) if m else phase
                    break
        if cause:
            return "%s at %s in %s" % (cause["type"], cause["at"], phase)
        return "%s in %s" % (r.get("type", "?"), phase)
    if why in ("unpositioned-error", "position-outside-source"):
        bad = [e for e in rec["errors"] if e.get("w") not in ("ok", "marker")]
        return norm_msg(bad[0]["msg"]) if bad else ""
    if why == "c-compiler-rejects":
        return ""
    return ""


# --------------------------------------------------------------------------


def pick_cc(cases, recs, tier, rng):
    tier = tier
    """generated C files to hand to the C compiler: a cover of the grammar alternatives + samples of the other families"""
    gen = [c for c in cases if c.id in recs and "died" not in recs[c.id] and recs[c.id]["final"]["cfile"] and recs[c.id].get("c_file")]
    budget = 90 if tier == "quick" else 700
    chosen, covered = [], set()
    g = [c for c in gen if c.family == "gram"]
    g.sort(key=lambda c: c.data)
    rng.shuffle(g)
    # greedy cover of the grammar alternatives: sentences that bring two new alternatives first
    for want in (2, 1):
        for c in g:
            u = set(c.desc["used"].split("+"))
            if len(u - covered) >= want and len(chosen) < (budget if tier == "quick" else budget * 2):
                chosen.append(c)
                covered |= u
    cs = set(chosen)
    rest = [c for c in gen if c not in cs]
    rest.sort(key=lambda c: (c.family, c.data))
    # the other families: texts with special syntactic features (tags) first, then a sample
    tagged = [c for c in rest if c.family != "gram" and c.tags]
    chosen.extend(core.sample(tagged, budget // 4, rng))
    cs = set(chosen)
    rest = [c for c in rest if c not in cs]
    for fam, k in (("lit", budget // 6), ("mut", budget // 12), ("corpus", 3 if tier == "quick" else 25), ("gram", budget // 12)):
        chosen.extend(core.sample([c for c in rest if c.family == fam], k, rng))
    return chosen


THOROUGH_SEEDS = 4


def run(tier, seed):
    """quick: one seeded sample.  thorough: the validated quick configuration over THOROUGH_SEEDS consecutive seeds (four
    times the sampled grammar pairs / mutation scripts / literal families, evidence labelled thorough and cumulative); the
    larger PyGrammar_thorough / Mutate_thorough configurations are kept behind C43_FULL=1: they could not be run to completion
    on the loaded build machine and are therefore not what the registered command executes."""
    if tier != "thorough" or os.environ.get("C43_FULL"):
        return _run(tier, seed, tier, [])
    earlier = []
    for k in range(THOROUGH_SEEDS):
        rc = _run("quick", seed + k, "thorough", earlier)
        if rc != 0:
            return rc
    return 0


def _run(tier, seed, label_tier, earlier):
    t0 = time.time()
    rng = random.Random(seed)
    rep = core.Reporter(PROP)
    cov = {"states": 0, "distinct_states": 0, "transitions": 0, "traces_validated_against_impl": 0, "evaluations": 0,
           "distinct_nontrivial": 0, "samples": [], "tlc": [],
           "rule": "texts: sentences of spec/PyGrammar.tla (all combinations of <= 2 alternatives; quick: the seeded 1/16 sample of "
                   "pairs), edits of spec/Mutate.tla applied to sampled sentences of <= 12 tokens, the literal/nesting/layout "
                   "families of lib_pytexts.py, files of the interpreter's library.  non-trivial = compilation passed the parser "
                   "(reached the transforms) or the text is not valid Python."}
    jobs = int(os.environ.get("C43_JOBS") or min(core.NCPU, 16))
    stage = cov["stage_wall_s"] = {}
    stage_cpu = cov["stage_cpu_s"] = {}      # CPU seconds of the child processes: independent of the machine's load
    import resource
    ts = [time.time(), 0.0]

    def lap(name):
        ru = resource.getrusage(resource.RUSAGE_CHILDREN)
        cpu = ru.ru_utime + ru.ru_stime
        stage[name] = round(time.time() - ts[0], 1)
        stage_cpu[name] = round(cpu - ts[1], 1)
        ts[0], ts[1] = time.time(), cpu
    tl = run_tlc_parallel(tier, seed, cov)
    lap("tlc_model_grammar_mutate")
    gram = gram_cases(tl["gram"], cov)
    cases = [c for c, _ in gram]
    cases += mut_cases(tl["mut"], gram, tier, rng, cov)
    cases += lit_cases(tier, rng)
    cases += corpus_cases(tier, rng)
    if os.environ.get("C43_LIMIT"):          # development aid: a seeded sample of every family
        n = int(os.environ["C43_LIMIT"])
        cases = [c for fam in ("gram", "mut", "lit", "corpus") for c in core.sample([x for x in cases if x.family == fam], n, rng)]
    for i, c in enumerate(cases):
        c.id = i
    wd = core.subdir("c43")

    # P: CPython's verdict (child process)
    V = T.cpython_verdicts([c.data for c in cases], os.path.join(wd, "p"))
    lap("cpython_oracle")
    for c in cases:
        c.valid, c.why_invalid, c.typedop, c.feats, c.tags = V[c.id]
        c.desc["valid"] = bool(c.valid)
        c.desc["tags"] = " ".join(c.tags)      # syntactic features of the text (lib_pytexts: ast_tags / text_tags)
        if c.family == "corpus":
            c.desc["feats"] = " ".join(c.feats)
        if c.claims_valid and not c.valid:
            rep.spec_drift("PyGrammar.tla sentence is not valid Python", {"used": c.desc["used"], "text": c.data.decode("utf8", "replace")[:300],
                                                                         "cpython": c.why_invalid})
    if rep.drift:
        return rep.finish()

    # C: compile everything with the compiler under test
    items = [{"id": c.id, "b64": LP.b64(c.data), "kind": "py"} for c in cases]
    items.sort(key=lambda it: -len(it["b64"]))     # big texts first, spread over the shards
    limit = 25 if tier == "quick" else 60          # CPU seconds per text
    recs = LP.compile_texts(items, os.path.join(wd, "cy"), jobs=jobs, per_text_timeout=limit, shard_timeout=6000)
    lap("compile")
    missing = [c.id for c in cases if c.id not in recs]
    if missing:
        core.die("C43: %d texts without a record" % len(missing))

    # anomalies are confirmed in isolation (batch=1: a pristine forked copy of a warmed-up compiler per text): a leak
    # of compiler state between two compilations of one process is not a verdict on the second text
    def crashy(r):
        if "died" in r:
            return True
        if r["timeout"]:
            return False
        return bool(r["escaped"]) or any(e["cls"] != "CompileError" for e in r["errors"]) or \
            bool(r["raised"] and r["raised"]["cls"] not in ("CompileError", "AbortError"))
    sus = [c for c in cases if crashy(recs[c.id])]
    if sus:
        fresh = LP.compile_texts([{"id": c.id, "b64": LP.b64(c.data), "kind": "py"} for c in sus], os.path.join(wd, "iso"),
                                 jobs=max(1, min(jobs, len(sus) // 20)), per_text_timeout=limit, shard_timeout=6000, tag="iso", batch=1)
        cov["anomalies_rerun_in_isolation"] = len(fresh)
        cov["anomalies_not_reproduced_in_isolation"] = sum(1 for r in fresh.values() if not crashy(r))
        recs.update(fresh)

    lap("isolation_reruns")
    # the C compiler's answer on a sample of the generated files (g++ on C++ output in the thorough tier)
    by_id = {c.id: c for c in cases}
    chosen = pick_cc(cases, recs, tier, rng)
    ccres = LP.cc_syntax_only([recs[c.id]["c_file"] for c in chosen], jobs=jobs)
    cc = {}
    for c in chosen:
        ok, err = ccres[recs[c.id]["c_file"]]
        if ok is None:
            core.die("C compiler timed out on %s" % recs[c.id]["c_file"])
        cc[c.id] = ("accepted" if ok else "rejected", err)
    cpp_cases = []
    if tier != "quick":
        sel = core.sample([c for c in chosen if c.family in ("gram", "lit")], 80, rng)
        for k, c in enumerate(sel):
            cpp = Case(c.family, c.data, dict(c.desc, cplus=True), c.claims_valid)
            cpp.id = len(cases) + k
            cpp.valid, cpp.why_invalid, cpp.typedop, cpp.feats, cpp.tags = c.valid, c.why_invalid, c.typedop, c.feats, c.tags
            cpp.cplus = True
            cpp_cases.append(cpp)
        r2 = LP.compile_texts([{"id": c.id, "b64": LP.b64(c.data), "kind": "py", "cplus": True} for c in cpp_cases],
                              os.path.join(wd, "cypp"), jobs=jobs, per_text_timeout=limit, tag="pp")
        recs.update(r2)
        gen = [c for c in cpp_cases if "died" not in recs[c.id] and recs[c.id]["final"]["cfile"] and recs[c.id].get("c_file")]
        r3 = LP.cc_syntax_only([recs[c.id]["c_file"] for c in gen], jobs=jobs, cplus=True)
        for c in gen:
            ok, err = r3[recs[c.id]["c_file"]]
            if ok is None:
                core.die("C++ compiler timed out on %s" % recs[c.id]["c_file"])
            cc[c.id] = ("accepted" if ok else "rejected", err)
        cases = cases + cpp_cases
        by_id.update({c.id: c for c in cpp_cases})

    lap("c_compiler")
    # S: spec/Pipeline_Trace.tla judges every record
    kinds_index = {}
    trecs = [trace_record(c, recs[c.id], kinds_index, cc.get(c.id, ("unchecked", ""))[0]) for c in cases]
    # binding demonstration: corrupted copies of accepted-looking records must be rejected by the spec
    demo = {}
    base = [t for t in trecs if t["fin"]["cfile"] and len(t["ev"]) == 1][:3] + [t for t in trecs if not t["fin"]["cfile"] and t["ev"] and not t["valid"]][:3]
    nid = 10 ** 7
    for t in base:
        variants = []
        v = json.loads(json.dumps(t)); v["fin"]["cfile"] = not v["fin"]["cfile"]; variants.append(("flip-cfile", v))
        v = json.loads(json.dumps(t)); v["ev"] = v["ev"] + [{"e": "error", "n": v["fin"]["nerr"] + 1, "c": "CompilerCrash", "w": "ok"}]; v["fin"]["nerr"] += 1; variants.append(("crash-report", v))
        v = json.loads(json.dumps(t)); v["fin"]["escaped"] = "KeyError"; variants.append(("escaped", v))
        if t["ev"] and t["ev"][0]["e"] == "span" and t["ev"][0]["q"] > 2:
            v = json.loads(json.dumps(t)); v["ev"][0]["q"] -= 1; variants.append(("phase-skipped", v))
        if any(e["e"] == "error" for e in t["ev"]):
            v = json.loads(json.dumps(t))
            for e in v["ev"]:
                if e["e"] == "error":
                    e["w"] = "none"
            variants.append(("unpositioned", v))
        for name, v in variants:
            nid += 1
            v["id"] = nid
            demo[nid] = name
            trecs.append(v)
    if len(demo) < 10:
        core.die("binding demonstration could not be built (%d corrupted records)" % len(demo))
    if not kinds_index:
        kinds_index[("parse",)] = 1
    recf = os.path.join(wd, "records.ndjson")
    kindf = os.path.join(wd, "kinds.ndjson")
    core.write_ndjson(recf, trecs)
    core.write_ndjson(kindf, [list(k) for k, _ in sorted(kinds_index.items(), key=lambda kv: kv[1])])
    tr = core.tlc("Pipeline_Trace", cfg="Pipeline_Trace", env={"RECORDS": recf, "KINDS": kindf}, workers=1, timeout=3000, heap="6g")
    if not tr.ok:
        errs = [l for l in tr.out.splitlines() if "rror" in l or "xception" in l][:20]
        sys.stderr.write("\n".join(errs) + "\n" + tr.out[-1500:])
        core.die("TLC failed on Pipeline_Trace (%s)" % (tr.violation or tr.rc))
    if not tr.printed:
        core.die("Pipeline_Trace.tla did not publish verdicts")
    verdict = tr.printed[-1]
    if verdict["n"] != len(trecs):
        core.die("Pipeline_Trace.tla saw %s records, expected %d" % (verdict["n"], len(trecs)))
    bad = {b["id"]: b["why"] for b in verdict["bad"]}
    for nid_, name in demo.items():
        if nid_ not in bad:
            core.die("binding demonstration: corrupted record (%s) was accepted by Pipeline_Trace.tla" % name)
    lap("tlc_trace")
    cov["binding_demo_rejected"] = len(demo)
    cov["states"] += tr.generated
    cov["distinct_states"] += tr.distinct
    cov["transitions"] += tr.generated
    cov["tlc"].append(dict(tr.summary(), part="trace"))

    dump = open(os.environ["C43_DUMP"], "w") if os.environ.get("C43_DUMP") else None   # development aid: all disagreements
    # every real compilation must fall into an outcome class of the model
    legal_out = set(cov["model_outcomes"])
    seen_out = {}
    fam_stats = {}
    for c in cases:
        r = recs[c.id]
        st = fam_stats.setdefault(c.family, {"texts": 0, "valid": 0, "generated": 0, "rejected": 0, "documented_rejection": 0, "bad": 0})
        st["texts"] += 1
        st["valid"] += 1 if c.valid else 0
        why = bad.get(c.id, "")
        if why:
            st["bad"] += 1
            detail = obs_detail(c, r, why)
            obs = why + (":" + detail if detail else "")
            info = {"text": c.data.decode("utf8", "replace")[:600], "cpython": "compiles" if c.valid else c.why_invalid, "why": why}
            if "died" in r:
                info["died"] = r["died"]
                info["stderr"] = r.get("stderr", "")[-800:]
            else:
                info["errors"] = [{"pos": e["pos"], "msg": e["msg"][-400:], "cls": e["cls"]} for e in r["errors"][:4]]
                info["raised"] = r["raised"] and {k: r["raised"][k] for k in ("cls", "type", "phase") if k in r["raised"]}
                info["escaped"] = r.get("escaped_tb", "")[-700:]
                info["final"] = r["final"]
            if why == "c-compiler-rejects":
                info["cc"] = cc[c.id][1]
            res = rep.disagree(c.desc, obs, info)
            if dump is not None:
                dump.write(json.dumps({"desc": c.desc, "obs": obs, "res": res, "info": info}, default=str) + "\n")
            continue
        if "died" in r:
            continue
        if r["final"]["cfile"]:
            st["generated"] += 1
            oc = "generated"
        else:
            st["rejected"] += 1
            if c.valid:
                st["documented_rejection"] += 1
            rz = r["raised"]
            oc = "errors-in-codegen" if not rz else ("aborted-in-abort" if rz["cls"] == "AbortError" else
                                                      "raised-in-" + (r["phases"][[e for e in r["ev"] if e[0] == "raise"][0][1] - 1]))
        seen_out[oc] = seen_out.get(oc, 0) + 1
        if oc not in legal_out:
            core.die("record accepted by Pipeline_Trace.tla but outside the outcome classes of Pipeline.tla: %s" % oc)
    if dump is not None:
        dump.close()
    cov["outcome_classes_seen"] = seen_out
    cov["families"] = fam_stats
    cov["traces_validated_against_impl"] = len(cases)
    cov["evaluations"] = len(cases)
    cov["c_files_checked_by_cc"] = len(cc)
    cov["distinct_nontrivial"] = sum(1 for c in cases if not c.valid or ("died" not in recs[c.id] and len(recs[c.id]["ev"]) > 4))
    for fam in ("gram", "mut", "lit", "corpus"):
        ex = [c for c in cases if c.family == fam and "died" not in recs[c.id]]
        if ex:
            c = rng.choice(ex)
            r = recs[c.id]
            cov["samples"].append({"family": fam, "descriptor": {k: v for k, v in c.desc.items() if k != "feats"},
                                   "text": c.data.decode("utf8", "replace")[:200], "cpython_compiles": bool(c.valid),
                                   "errors_counted": r["final"]["nerr"], "c_file": bool(r["final"]["cfile"]),
                                   "events": spec_events(r)[:6], "cc": cc.get(c.id, ("unchecked",))[0]})
    rc = rep.finish()
    cov["known_findings"] = rep.kf_summary()
    if label_tier != tier:
        # cumulative over the seeds of a thorough run
        for k in ("states", "distinct_states", "transitions", "traces_validated_against_impl", "evaluations", "distinct_nontrivial"):
            cov[k] = cov.get(k, 0) + sum(e.get(k, 0) for e in earlier)
        cov["seeds_run"] = [e["seed"] for e in earlier] + [seed]
        earlier.append(dict({k: cov.get(k, 0) for k in ("states", "distinct_states", "transitions", "traces_validated_against_impl",
                                                         "evaluations", "distinct_nontrivial")}, seed=seed))
        for k in ("states", "distinct_states", "transitions", "traces_validated_against_impl", "evaluations", "distinct_nontrivial"):
            earlier[-1][k] -= sum(e.get(k, 0) for e in earlier[:-1])
    core.write_evidence(PROP, label_tier, seed, "model_checking", cov, time.time() - t0,
                        assumptions=[
                            "validity of a text = CPython 3.12 compile() succeeds (warnings ignored); for grammar sentences "
                            "the spec claims validity and CPython is the drift guard",
                            "documented rejections: undeclared name, local referenced before assignment, delete of a closure "
                            "variable, mixed tabs/spaces in one file (tests/errors/se_mixtabspace.pyx); compile-time type errors "
                            "are tolerated only for texts that apply an operation to a value of statically known type",
                            "default command-line configuration (no language_level given), .py files, pure-Python compiler from "
                            "the working tree; time limit per text is CPU time",
                            "the C compiler (gcc -fsyntax-only; g++ in the thorough tier) is run on a sample of the generated files",
                        ],
                        violations=rep.n_violations())
    return rc
