"""C14 -- optimised loops iterate exactly like Python loops.

Two TLA+ models, both checked by TLC, both bound to code compiled from the snapshot (B1):

spec/RangeLoop.tla    range(start, stop, step) / reversed(range(...)) with a C-typed target:
    reference (declaratively validated) + the C loop of IterationTransform/ForFromStatNode with
    a wrap event on every C operation.  TLC: exhaustive over a scaled 5/6-bit image of
    int/long/unsigned (bounds typed like the target or converted from objects) and over the
    real 8-bit types; invariants: the C loop follows the reference up to its first wrap event
    and ends with it otherwise; rows (range length, first wrap event) are published.
spec/IterMutation.tla dict / set / list iteration (forward, reversed) under mutation by the body,
    a state machine over CPython 3.12's storage layouts with the iterators' checks; the
    implementation-shaped __Pyx_dict_iter_next (size check, PyDict_Next, item counter) steps its own
    temps alongside and TLC proves full agreement with the reference; every finished behaviour
    (script, visited items, final item, how it ended) is published.

Binding: one generated template is emitted as .pyx (C) and as plain Python (P); the same child
driver replays the same call tables on both.  S (spec rows / behaviours; for 32/64-bit values the
drift-checked Python transcription in lib_loops) vs P: drift (exit 2).  C vs S: disagreement with a
descriptor built from the spec side (type, form, first wrap event the body is exposed to, whether
the wrap simulation predicts a deviation; container kind, loop path, how the reference ends).
"""
import collections
import concurrent.futures
import json
import os
import random
import sys
import time

import core
import lib_loops as L

PROP = "C14"
BODIES = [(0, 0), (1, 0), (2, 0), (3, 0), (0, 1), (0, 2), (2, 1), (2, 2)]
CONST_TRIPLES = [(0, 5, 1), (3, 20, 4), (5, 0, -1), (20, 3, -4), (-7, 12, 3), (12, -7, -3), (0, 0, 1), (5, 5, -2),
                 (1, 2, 3), (2, 1, -3), (-3, -3, 2), (0, 7, 2), (7, 0, -2), (1, 13, 2), (13, 1, -2), (4, 5, 1)]


def grid(lo, hi, lim=None):
    g = set(list(range(lo, lo + 6)) + [lo + 7, -7, -4, -3, -2, -1, 0, 1, 2, 3, 4, 5, 6, 7, 12,
                                        hi - 7, hi - 5, hi - 4, hi - 3, hi - 2, hi - 1, hi, hi // 2, hi // 2 + 1])
    return sorted(v for v in g if lo <= v <= hi and (lim is None or v <= lim))


def _tlc(module, **kw):
    """core.tlc, with an optional development cache of the published records (C14_TLC_CACHE=<dir>)."""
    cdir = os.environ.get("C14_TLC_CACHE")
    path = cdir and os.path.join(cdir, kw["cfg"] + ".json")
    if path and os.path.exists(path):
        r = core.TLCResult()
        r.__dict__.update(json.load(open(path)))
        r.coverage = {k: tuple(v) for k, v in r.coverage.items()}
        return r
    r = core.tlc(module, **kw)
    if path and r.ok:
        os.makedirs(cdir, exist_ok=True)
        with open(path, "w") as f:
            json.dump({k: v for k, v in r.__dict__.items() if k != "out"}, f)
    return r


def obs_class(want, got):
    if isinstance(got, str):
        if got.startswith("CRASH") or got == "TIMEOUT":
            return "crash"
        if got == "E:" + L.CAPEXC:
            return "runaway-loop"
        if isinstance(want, str):
            return "other-exception"
        return "exception"
    if isinstance(want, str) or (len(want) == 2 and len(got) == 3):
        return "no-exception"
    if len(got) == 2 and len(want) == 3:
        return "exception"
    if got[0] != want[0]:
        return "wrong-iterations"
    if len(got) > 2 and len(want) > 2 and got[2] != want[2]:
        return "else-clause"
    return "final-value"


def resolve(want):
    """expected observation; range cases keep it as ("r", form, a, b, s, bk, ck, limit) until needed"""
    if isinstance(want, tuple):
        _, form, a, b, s, bk, ck, limit = want
        return list(L.apply_body(L.ref_seq(form, a, b, s, limit), bk, ck))
    return want


class Table(object):
    """calls for one module + what the spec side says about each of them"""

    def __init__(self, module):
        self.module = module
        self.calls = []
        self.meta = []     # (want, desc, pred or None)

    def add(self, fn, args, want, desc, pred=None):
        self.calls.append([fn, args])
        self.meta.append((want, desc, pred))


# --------------------------------------------------------------------------
# range part


def special(signed, form, s):
    """Special() of the spec: unsigned target and a decreasing loop variable"""
    return (not signed) and ((s < 0) if form == "fwd" else (s > 0))


def range_tables(rows8, rows8x, tier, rng, rep, stats):
    tabs = {tag: Table("c14r_" + tag) for tag, _, _, _ in L.RTYPES}
    # (R1) real 8-bit types: the rows TLC published for (w=8, pw=24) are replayed as they are
    for r in rows8:
        tag = "schar" if r["s"] else "uchar"
        ty_t, ty_o = L.model_type(tag, "t"), L.model_type(tag, "o")
        form, s, a = r["form"], r["step"], r["start"]
        for i, b in enumerate(r["stops"]):
            n, m, ev = r["n"][i], r["m"][i], r["ev"][i]
            om, oe = L.model_row(ty_o, form, a, b, s, L.CAP8)[1:]
            # quick: all bodies where a wrap event exists or the range is short, else the plain body + 2 others
            bodies = BODIES if (tier == "thorough" or ev or oe or n <= 3) else [BODIES[0]] + rng.sample(BODIES[1:], 2)
            for bk, ck in bodies:
                want = ("r", form, a, b, s, bk, ck, None)
                for bounds, ty, mm, ee in (("t", ty_t, m, ev), ("o", ty_o, om, oe)):
                    pred = None
                    desc = {"part": "range", "type": tag, "signed": bool(r["s"]), "bounds": bounds, "form": form, "cause": "", "dev": False,
                            "special": special(bool(r["s"]), form, s)}
                    if L.exposed(mm, ee, bk, ck):
                        _, hz = L.classify(ty, form, a, b, s, bk, ck, L.CAP8)
                        desc["cause"], desc["dev"], pred = hz["cause"], hz["dev"], hz["pred"]
                        stats["hazard_calls"] += 1
                    tabs[tag].add("r_%s_%s_%s" % (form, L.sname(s), bounds), [a, b, bk, ck], want, desc, pred)
    # (R1e, thorough) the exhaustive rows of the real 8-bit types (|step| > 1), typed bounds: every case with a
    # wrap event (plain, breaking and continuing body), every case of at most 8 iterations and a seeded 1/8 of the
    # longer ones (plain body; CPython needs ~0.2 ms for each of them)
    seen = {(r["s"], r["form"], r["step"], r["start"], b) for r in rows8 for b in r["stops"]}
    for r in rows8x:
        tag = "schar" if r["s"] else "uchar"
        ty_t = L.model_type(tag, "t")
        form, s, a = r["form"], r["step"], r["start"]
        for i, b in enumerate(r["stops"]):
            if (r["s"], form, s, a, b) in seen:
                continue
            n, m, ev = r["n"][i], r["m"][i], r["ev"][i]
            if not ev and n > 8 and rng.randrange(8):
                stats["exhaustive_8bit_cases_not_replayed"] += 1
                continue
            for bk, ck in ([(0, 0), (2, 0), (0, 1)] if ev else BODIES[:1]):
                pred = None
                desc = {"part": "range", "type": tag, "signed": bool(r["s"]), "bounds": "t", "form": form, "cause": "", "dev": False,
                        "special": special(bool(r["s"]), form, s)}
                if L.exposed(m, ev, bk, ck):
                    _, hz = L.classify(ty_t, form, a, b, s, bk, ck, L.CAP8)
                    desc["cause"], desc["dev"], pred = hz["cause"], hz["dev"], hz["pred"]
                    stats["hazard_calls"] += 1
                tabs[tag].add("r_%s_%s_t" % (form, L.sname(s)), [a, b, bk, ck], ("r", form, a, b, s, bk, ck, None), desc, pred)
    # (R2) 32/64-bit types on the boundary grid: reference and hazard description from the transcription
    for tag, _, bits, signed in L.RTYPES:
        if bits == 8:
            continue
        for bounds in ("t", "o"):
            ty = L.model_type(tag, bounds)
            g = grid(ty.lo(), ty.hi(), (1 << 63) - 1 if bounds == "o" else None)
            for form in ("fwd", "rev"):
                for s in L.STEPS:
                    for a in g:
                        for b in g:
                            n, m, ev = L.model_row(ty, form, a, b, s, L.CAPW)
                            bodies = BODIES if ev else [BODIES[0]] + rng.sample(BODIES[1:], 4 if tier == "thorough" else 2)
                            for bk, ck in bodies:
                                n_exec = bk if (0 < bk <= n and bk != ck) else n
                                if n_exec > L.CAPW:
                                    stats["skipped_long"] += 1
                                    continue
                                want = ("r", form, a, b, s, bk, ck, L.CAPW + 1)
                                desc = {"part": "range", "type": tag, "signed": signed, "bounds": bounds, "form": form, "cause": "", "dev": False,
                                        "special": special(signed, form, s)}
                                pred = None
                                if L.exposed(m, ev, bk, ck):
                                    _, hz = L.classify(ty, form, a, b, s, bk, ck, L.CAPW)
                                    desc["cause"], desc["dev"], pred = hz["cause"], hz["dev"], hz["pred"]
                                    stats["hazard_calls"] += 1
                                tabs[tag].add("r_%s_%s_%s" % (form, L.sname(s), bounds), [a, b, bk, ck], want, desc, pred)
    # (R3) range(b), range(a, b), run-time step (incl. 0) on every type
    for tag, _, bits, signed in L.RTYPES:
        ty = L.model_type(tag, "t")
        cap = L.cap_of(tag)
        g = [v for v in grid(ty.lo(), ty.hi()) if abs(v) <= 12 or v in (ty.lo(), ty.hi(), ty.hi() - 1, ty.lo() + 1)]
        for form in ("fwd", "rev"):
            for a in g:
                for b in g:
                    for name, aa, ss_ in (("r2", a, [1]), ("r1", 0, [1]), ("rs", a, [-2, -1, 0, 1, 3])):
                        if name == "r1" and a != g[0]:
                            continue
                        for s in ss_:
                            bk, ck = rng.choice(BODIES)
                            args = {"r2": [a, b, bk, ck], "r1": [b, bk, ck], "rs": [a, b, s, bk, ck]}[name]
                            desc = {"part": "range", "type": tag, "signed": signed, "bounds": name, "form": form, "cause": "", "dev": False,
                                    "special": special(signed, form, s)}
                            if s == 0:
                                tabs[tag].add("r_%s_%s" % (form, name), args, "E:ValueError", desc)
                                continue
                            n = L.range_len(aa, b, s)
                            n_exec = bk if (0 < bk <= n and bk != ck) else n
                            if n_exec > cap:
                                continue
                            want = list(L.apply_body(L.ref_seq(form, aa, b, s, cap + 1), bk, ck))
                            pred = None
                            if name != "rs":     # the run-time step loop is not a C loop: no hazards
                                _, m, ev = L.model_row(ty, form, aa, b, s, cap)
                                if L.exposed(m, ev, bk, ck):
                                    _, hz = L.classify(ty, form, aa, b, s, bk, ck, cap)
                                    desc["cause"], desc["dev"], pred = hz["cause"], hz["dev"], hz["pred"]
                            tabs[tag].add("r_%s_%s" % (form, name), args, want, desc, pred)
    # (R4) literal bounds: object / inferred / int / unsigned int targets; object target with object bounds
    kt = Table("c14rk")
    for idx, (a, b, s) in enumerate(CONST_TRIPLES):
        for form in ("fwd", "rev"):
            seq = L.ref_seq(form, a, b, s)
            for tg in ("obj", "inf", "int", "uint"):
                if tg == "uint" and (a < 0 or b < 0):
                    continue
                for bk, ck in BODIES:
                    kt.add("k_%s_%s_%d" % (tg, form, idx), [bk, ck], list(L.apply_body(seq, bk, ck)),
                           {"part": "range", "type": tg, "signed": tg != "uint", "bounds": "const", "form": form, "cause": "", "dev": False})
    big = [-(1 << 70), -(1 << 63) - 1, -5, 0, 3, (1 << 31), (1 << 63), (1 << 70)]
    for form in ("fwd", "rev"):
        for s in L.STEPS:
            for a in big:
                for d in (-4, 0, 1, 5):
                    b = a + d
                    bk, ck = rng.choice(BODIES)
                    kt.add("ko_%s_%s" % (form, L.sname(s)), [a, b, bk, ck], list(L.apply_body(L.ref_seq(form, a, b, s), bk, ck)),
                           {"part": "range", "type": "obj", "signed": True, "bounds": "o", "form": form, "cause": "", "dev": False})
    tabs["k"] = kt
    return tabs


# --------------------------------------------------------------------------
# container part


def is_mut(script):
    return any(p[0] not in ("brk", "cont") for act in script for p in act)


def enc_script(script):
    return [[[L.OPC[p[0]]] + list(p[1:]) for p in act] for act in script]


def container_arg(cls, kind, n, view):
    if kind == "dict":
        return {cls: [[i, 10 * i] for i in range(1, n + 1)]}
    items = list(range(1, n + 1))
    if cls == "str":
        return "".join(L.STR_ITEMS[i - 1] for i in items)
    if cls == "bytes":
        return {"bytes": [L.BYTES_ITEMS[i - 1] for i in items]}
    return {cls: items}


def view_item(view, item, idx):
    if view == "k":
        return item[0]
    if view == "v":
        return item[1]
    if view in ("kv", "kv1"):
        return [item[0], item[1]]
    if view == "ek":
        return [7 + idx, item[0]]
    if view == "i":
        return item
    if view == "ei":
        return [7 + idx, item]
    if view == "ch":
        return L.STR_ITEMS[item - 1]
    if view == "ech":
        return [idx, L.STR_ITEMS[item - 1]]
    if view == "by":
        return L.BYTES_ITEMS[item - 1]
    raise ValueError(view)


def container_table(cases, tier, rng, stats):
    """Every published behaviour on every loop variant it applies to (behaviours with 3 acting
    iterations -- thorough tier only -- on 2 of them, chosen by the seeded rng)."""
    tab = Table("c14cont")
    by_kind = collections.defaultdict(list)
    for name, v in L.CONT_VARIANTS.items():
        by_kind[v[0]].append((name,) + v[1:])
    ca_by_kind = collections.defaultdict(list)
    for name, (kind, it, idxs) in L.CARRAY_VARIANTS.items():
        ca_by_kind[kind].append((name, idxs))
    descs, args_cache = {}, {}
    for c in cases:
        kind, n, script = c["kind"], c["n"], c["script"]
        mut = is_mut(script)
        esc = enc_script(script)
        iters = [j for j, act in enumerate(script) if not (act and act[0][0] == "cont")]
        applicable = []
        for v in by_kind[kind]:
            cls = v[1]
            if mut and cls in ("tuple", "str", "bytes", "frozenset"):
                continue
            if cls in ("str", "bytes") and n > 5:
                continue
            applicable.append(v)
        if sum(1 for act in script if act) >= 3 and len(applicable) > 2:
            applicable = rng.sample(applicable, 2)
        for name, cls, ctype, it, target, log, cdecl, pdecl, view, path in applicable:
            two = view in ("kv", "ek", "ei", "ech")
            sent = "c" if "'c'" in pdecl else L.SENT      # value of the loop variable(s) before the loop
            sent2 = ([L.SENT, "c"] if "v = 'c'" in pdecl else [L.SENT, L.SENT])
            vis = [view_item(view, x, j) for x, j in zip(c["vis"], iters)]
            if c["status"] in ("size", "keys"):
                want = [vis, "E:RuntimeError"]
            else:
                fin = view_item(view, c["fin"][0], len(script) - 1) if c["fin"] else (sent2 if two else sent)
                want = [vis, fin, c["status"] == "else"]
            high = view == "by" and any(L.BYTES_ITEMS[x - 1] >= 128 for x in list(c["vis"]) + list(c["fin"]))
            dk = (name, c["status"], mut, high)
            if dk not in descs:
                descs[dk] = {"part": "container", "kind": kind, "variant": name, "cls": cls, "path": path, "ref_status": c["status"],
                             "mutates": mut, "high_byte": high}
            ak = (cls, kind, n)
            if ak not in args_cache:
                args_cache[ak] = container_arg(cls, kind, n, view)
            tab.add(name, [args_cache[ak], esc], want, descs[dk])
            stats["container_" + c["status"]] += 1
        if not mut:
            for name, idxs in ca_by_kind[kind]:
                if n != len(idxs):
                    continue
                vis = [L.CARR_VALS[idxs[x - 1]] for x in c["vis"]]
                fin = L.CARR_VALS[idxs[c["fin"][0] - 1]] if c["fin"] else L.SENT
                dk = (name, c["status"], False, False)
                if dk not in descs:
                    descs[dk] = {"part": "container", "kind": kind, "variant": name, "cls": "carray", "path": "opt",
                                 "ref_status": c["status"], "mutates": False, "high_byte": False}
                tab.add(name, [{"list": L.CARR_VALS}, esc], [vis, fin, c["status"] == "else"], descs[dk])
    return tab


# --------------------------------------------------------------------------


def write_p_modules(pdir, const_triples):
    os.makedirs(pdir, exist_ok=True)
    for tag, _, _, _ in L.RTYPES:
        with open(os.path.join(pdir, "c14r_%s.py" % tag), "w") as f:
            f.write(L.range_module(tag, "p"))
    with open(os.path.join(pdir, "c14rk.py"), "w") as f:
        f.write(L.const_module(const_triples, "p"))
    with open(os.path.join(pdir, "c14cont.py"), "w") as f:
        f.write(L.cont_module("p"))


def build_specs():
    specs = [core.BuildSpec("c14r_" + tag, L.range_module(tag, "c")) for tag, _, _, _ in L.RTYPES]
    specs.append(core.BuildSpec("c14rk", L.const_module(CONST_TRIPLES, "c")))
    specs.append(core.BuildSpec("c14cont", L.cont_module("c")))
    return specs


def run(tier, seed):
    t0 = time.time()
    rng = random.Random(seed)
    rep = core.Reporter(PROP)
    stats = collections.Counter()
    cov = {"tlc": []}
    thorough = tier == "thorough"

    # ---- model checking and builds run side by side
    range_cfgs = ["RangeLoop_s6", "RangeLoop_c8", "RangeLoop_e8"] if thorough else ["RangeLoop_s5", "RangeLoop_c8"]
    iter_cfg = "IterMutation_t" if thorough else "IterMutation_q"
    nw = max(2, core.NCPU // 4)
    ex = concurrent.futures.ThreadPoolExecutor(max_workers=8)
    futs = {}
    for cfg in range_cfgs:
        # Walk() recurses once per loop iteration (up to 256 deep for the 8-bit types): larger thread stacks
        futs[cfg] = ex.submit(_tlc, "RangeLoop", cfg=cfg, workers=nw, timeout=3300 if thorough else 900, deadlock=False,
                              env={"JAVA_TOOL_OPTIONS": "-Xss64m"})
        time.sleep(0.3)
    futs[iter_cfg] = ex.submit(_tlc, "IterMutation", cfg=iter_cfg, workers=nw, timeout=3300 if thorough else 900,
                               deadlock=False, coverage=True)
    fb = ex.submit(core.build_many, build_specs(), None, None, 2400)
    tl = {}
    for cfg, f in futs.items():
        r = f.result()
        if not r.ok:
            sys.stderr.write(r.out[-5000:])
            core.die("TLC failed (%s): %s" % (r.violation or r.rc, r.cmd))
        tl[cfg] = r
        cov["tlc"].append(dict(r.summary(), config=cfg, published=len(r.printed)))
    phase = {"tlc_wait": round(time.time() - t0, 1)}
    builds = {b.name: b for b in fb.result()}
    ex.shutdown()
    # a build that ran into the time limit next to TLC on a loaded machine is retried alone (a second timeout is reported)
    late = [sp for sp in build_specs() if builds[sp.name].stage == "timeout"]
    if late:
        stats["builds_retried_after_timeout"] = len(late)
        builds.update({b.name: b for b in core.build_many(late, None, None, 3600)})
    phase["build_wait"] = round(time.time() - t0, 1)

    # ---- vacuity guard (model side only)
    rows = [r for cfg in range_cfgs for r in tl[cfg].printed]
    classes = collections.Counter()
    for r in rows:
        for n, ev in zip(r["n"], r["ev"]):
            classes["empty" if n == 0 else "nonempty"] += 1
            classes["event:" + (ev[0] if ev else "none")] += 1
    need = ["empty", "nonempty", "event:none", "event:inc", "event:init", "event:bound", "event:calc"]
    if any(classes[k] == 0 for k in need):
        core.die("vacuous RangeLoop model: %r" % dict(classes))
    cases = tl[iter_cfg].printed
    acts = tl[iter_cfg].coverage
    for a in ("IterStop", "IterErrSize", "IterErrKeys", "BodyNone", "BodyBreak", "BodyContinue", "BodyMutate"):
        if acts.get(a, (0, 0))[0] == 0:
            core.die("vacuous IterMutation model: action %s never taken (%r)" % (a, acts))
    cov["range_case_classes"] = dict(classes)
    cov["iter_action_coverage"] = {k: list(v) for k, v in acts.items()}
    stats["iter_cases"] = len(cases)

    # ---- drift of the transcription against every published row (all widths)
    n_rows_checked = 0
    for r in rows:
        ty = L.CT(r["w"], r["s"], r["pw"], r["bw"])
        cap = 300 if r["w"] == 8 else 70
        for i, b in enumerate(r["stops"]):
            got = L.model_row(ty, r["form"], r["start"], b, r["step"], cap)
            n_rows_checked += 1
            if list(got) != [r["n"][i], r["m"][i], r["ev"][i]]:
                rep.spec_drift("RangeLoop.Run vs lib_loops.model_row", {"type": [r["w"], r["s"], r["pw"], r["bw"]], "form": r["form"],
                               "step": r["step"], "start": r["start"], "stop": b, "tlc": [r["n"][i], r["m"][i], r["ev"][i]], "lib": list(got)})
    stats["model_rows_checked_against_transcription"] = n_rows_checked

    # ---- builds
    bad = [b for b in builds.values() if not b.ok]
    if bad:
        for b in bad:
            rep.disagree({"part": "build", "module": b.name, "stage": b.stage}, "build-failed", {"errors": (b.errors or "")[-3000:]})
        rc = rep.finish()
        core.write_evidence(PROP, tier, seed, "model_checking", {"evaluations": 1, "distinct_nontrivial": 0, "states": 1, "transitions": 1,
                            "traces_validated_against_impl": 0, "samples": ["build failed: " + bad[0].name]}, time.time() - t0, violations=len(bad))
        return rc

    phase["drift"] = round(time.time() - t0, 1)
    # ---- call tables
    rows8 = [r for cfg in range_cfgs if not cfg.endswith("_e8") for r in tl[cfg].printed if r["w"] == 8 and r["pw"] > 8]
    rows8x = [r for cfg in range_cfgs if cfg.endswith("_e8") for r in tl[cfg].printed]
    tabs = range_tables(rows8, rows8x, tier, rng, rep, stats)
    tabs["cont"] = container_table(cases, tier, rng, stats)
    del cases, rows, rows8, rows8x
    for t in tl.values():
        t.printed = []
    pdir = core.subdir("c14p")
    write_p_modules(pdir, CONST_TRIPLES)
    phase["tables"] = round(time.time() - t0, 1)

    # ---- replay + verdicts, chunk by chunk (a chunk = one child per side)
    CH = 100000
    jobs = [(key, lo) for key, tab in tabs.items() for lo in range(0, max(1, len(tab.calls)), CH)]
    tot = collections.Counter()
    distinct = set()
    samples = []

    def replay_chunk(job):
        key, lo = job
        tab = tabs[key]
        calls = tab.calls[lo:lo + CH]
        oc = L.run_table(os.path.dirname(builds[tab.module].so), tab.module, calls, True, "c%d" % lo, timeout=2400)
        op = L.run_table(pdir, tab.module, calls, False, "p_%s_%d" % (tab.module, lo), timeout=2400)
        return oc, op

    def judge(job, oc, op):
        key, lo = job
        tab = tabs[key]
        calls = tab.calls[lo:lo + CH]
        good = []
        for idx, (call, (want, desc, pred), c, p) in enumerate(zip(calls, tab.meta[lo:lo + CH], oc, op)):
            want = resolve(want)
            tot["calls"] += 1
            if p != want:
                rep.spec_drift("expected observation vs CPython", {"module": tab.module, "call": call, "spec": want, "cpython": p})
                continue
            if isinstance(want, str) or want[0]:
                distinct.add(hash((tab.module, call[0], json.dumps(call[1]))))
                if len(good) < 2000:
                    good.append(idx)
            if pred is not None:
                tot["pred"] += 1
                tot["pred_ok"] += (c == pred)
                # fidelity of the implementation-shaped model: a deviation it predicts must be the one the compiled code shows
                tot["pred_not_obs"] += (pred != want and c != pred)
            if c != want:
                oc_ = obs_class(want, c)
                if pred is not None and c == pred:
                    oc_ = "wrap-as-modelled"
                else:
                    # ... and the compiled code must not deviate where the model (range: wrap simulation; containers: TLC proves
                    # that the implementation-shaped step functions agree with the reference everywhere) predicts agreement
                    tot["obs_not_pred"] += 1
                rep.disagree(desc, oc_, {"module": tab.module, "call": call, "want": want, "got": c, "model_predicts": pred})
        if good and lo == 0:
            i = rng.choice(good)
            samples.append({"module": tab.module, "call": calls[i], "expected": resolve(tab.meta[lo + i][0]), "compiled": oc[i], "cpython": op[i]})
        # binding demonstration: corrupted expectations must be rejected (uses P only)
        for idx in rng.sample(range(len(calls)), min(10, len(calls))):
            want = resolve(tab.meta[lo + idx][0])
            if op[idx] != want:
                continue        # reported as drift
            bad_want = [[], L.SENT, True] if isinstance(want, str) else [list(want[0]) + [12345]] + list(want[1:])
            if op[idx] == bad_want:
                core.die("binding self-test failed on %s %r" % (tab.module, calls[idx]))
            tot["corrupted_rejected"] += 1
    # children run in parallel; chunks are judged in job order as they arrive (bounded look-ahead keeps memory flat)
    with concurrent.futures.ThreadPoolExecutor(max_workers=min(8, core.NCPU)) as ex2:
        pending = collections.deque()
        it = iter(jobs)
        for job in it:
            pending.append((job, ex2.submit(replay_chunk, job)))
            if len(pending) >= 10:
                jb, f = pending.popleft()
                judge(jb, *f.result())
        while pending:
            jb, f = pending.popleft()
            judge(jb, *f.result())
    phase["replay"] = round(time.time() - t0, 1)
    n_calls, n_nontriv, n_pred, n_pred_ok = tot["calls"], len(distinct), tot["pred"], tot["pred_ok"]
    stats["corrupted_expectations_rejected"] = tot["corrupted_rejected"]

    cov.update({
        "states": sum(t.generated for t in tl.values()), "distinct_states": sum(t.distinct for t in tl.values()),
        "transitions": sum(t.generated for t in tl.values()),
        "traces_validated_against_impl": n_calls, "evaluations": n_calls, "distinct_nontrivial": n_nontriv,
        "exhaustive": True,
        "calls_per_module": {tab.module: len(tab.calls) for tab in tabs.values()},
        "hazard_calls_with_model_prediction": n_pred, "hazard_calls_where_compiled_code_equals_prediction": n_pred_ok,
        "fidelity": {"predicted_not_observed": tot["pred_not_obs"], "observed_not_predicted": tot["obs_not_pred"]},
        "stats": dict(stats), "phase_end_s": phase,
        "rule": "range: every (start, stop) of the scaled 5/6-bit types x step -3..3 x forward/reversed in the model; on real code the "
                "8-bit rows as published, 32/64-bit types on a boundary grid (reference and hazard description from the drift-checked "
                "transcription), 8 break/continue bodies; containers: every behaviour TLC publishes, on every loop variant it applies to. "
                "non-trivial = distinct call that visits something or must raise",
        "samples": samples[:6],
    })
    if os.environ.get("C14_DUMP"):
        with open(os.environ["C14_DUMP"], "w") as f:
            for d, detail in rep.violations:
                f.write(json.dumps([d, detail]) + "\n")
    rc = rep.finish()
    cov["known_findings"] = rep.kf_summary()
    core.write_evidence(PROP, tier, seed, "model_checking", cov, time.time() - t0,
                        assumptions=["CPython 3.12 storage layouts of dict and set (entry array / open addressing with small non-negative int keys) "
                                     "are part of the reference model; they are validated against CPython on every published behaviour",
                                     "32/64-bit ranges are decided by the Python transcription of RangeLoop.tla, which is compared with TLC on "
                                     "every published row of the 5/6/8-bit types (TLC integers are 32-bit)",
                                     "a range case is in the property's domain when start, stop and all visited values fit the target type; "
                                     "bounds that do not fit the target type are not exercised",
                                     "exception types are compared, messages are not; loops are capped (body raises BufferError) so that wrapped "
                                     "loops terminate; gcc -O0 (signed overflow wraps in practice)"],
                        violations=rep.n_violations())
    return rc


def replay(path, seed):
    with open(path) as f:
        rec = json.load(f)
    builds = {b.name: b for b in core.build_many(build_specs())}
    pdir = core.subdir("c14p")
    write_p_modules(pdir, CONST_TRIPLES)
    rc = 0
    for case in rec["cases"]:
        if "module" not in case:      # a failed build
            print(json.dumps(case)[:3000])
            bad = [b for b in builds.values() if not b.ok]
            return 1 if bad else 0
        mod, call = case["module"], case["call"]
        b = builds[mod]
        c = L.run_table(os.path.dirname(b.so), mod, [call], True, "rc")[0]
        p = L.run_table(pdir, mod, [call], False, "rp")[0]
        print("call %s.%s%r\n  spec     %r\n  cpython  %r\n  compiled %r" % (mod, call[0], tuple(call[1]), case["want"], p, c))
        if c != case["want"]:
            rc = 1
    return rc
