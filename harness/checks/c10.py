"""C10 -- str / bytes / char literals keep exactly the value CPython assigns them, under every
string-table compression setting of the generated module.

spec/PyLiteral.tla: Python's lexical rules for string and bytes literals as a scanner state machine over
code points (one action per token class), cases built by actions from a table of 102 atoms (every escape
kind incl. malformed ones, code-point classes, quote / newline forms), 16 prefixes, 4 quote kinds, implicit
concatenation, and a run-length family for literals around the C-literal split limit (2000) and 64 KiB.
Model-level: the scanner is total (deadlock check), agrees with the hand-declared atom values wherever atoms
do not fuse (Compositional), raw literals are inert, long representatives are periodic.  An
implementation-shaped transcription of Lexicon/Parsing/StringEncoding predicts the real compiler's outcome
per case (fidelity reported, never a verdict).
spec/StrTable.tla: the module string table (Add / Emit / Decode) -- every constant's slot decodes to the string
added; the tables emitted by real compilations are validated against it (records mode).

Binding B1 (cases -> replay): every terminal state TLC publishes is (S) a demanded value or a rejection;
(P) CPython evaluates the same text (S != P -> exit 2); (C) the real scanner/parser/literal builders of the
snapshot read every accepted literal (parse stage, one child, value compared), and the literals are compiled
into extension modules (tuple of constants; char* and docstring contexts; .pyx and .py), each C file built
once per compression cell (-DCYTHON_COMPRESS_STRINGS=0/1/2/unset) and the run-time values compared.
"""
import concurrent.futures
import json
import os
import random
import sys
import time

import core
import lib_pyliteral as L

PROP = "C10"
ACTIONS = ["AddAtom", "Start", "PlainChar", "NonAsciiBytes", "SimpleEsc", "LineCont", "OctEsc", "HexEsc", "BadHex", "UEsc",
           "BadU", "BigUEsc", "BadBigU", "NameEsc", "BadName", "UnknownEsc", "NextLit", "Finish", "NewPart", "Void"]
WORKERS = int(os.environ.get("VERIF_C10_WORKERS", "0")) or None
JOBS = int(os.environ.get("VERIF_C10_JOBS", "0")) or None


class _Cached(object):
    """TLC result restored from VERIF_C10_TLC_CACHE (development aid for repeated runs, e.g. mutation tests: the model
    does not depend on /repo).  Never used unless the variable is set; evidence says so."""
    ok = True

    def __init__(self, d):
        self.__dict__.update(d)
        self.coverage = {k: tuple(v) for k, v in d["coverage"].items()}

    def summary(self):
        return dict(self.summary_, cached=True)


def run_tlc(cfgs):
    """Run the PyLiteral configurations (two at a time) and return {cfg: TLCResult}."""
    import hashlib
    w = WORKERS or max(2, core.NCPU // 2)
    cache = os.environ.get("VERIF_C10_TLC_CACHE")

    def key(cfg):
        h = hashlib.sha1()
        for fn in ("PyLiteral.tla", "PyLiteral_%s.cfg" % cfg):
            with open(os.path.join(core.SPEC, fn), "rb") as f:
                h.update(f.read())
        return os.path.join(cache, "%s_%s.json" % (cfg, h.hexdigest()[:16]))

    def one(cfg):
        if cache and os.path.exists(key(cfg)):
            with open(key(cfg)) as f:
                return cfg, _Cached(json.load(f))
        r = core.tlc("PyLiteral", cfg="PyLiteral_" + cfg, workers=w, coverage=True, timeout=2400,
                     env={"JAVA_TOOL_OPTIONS": "-XX:ParallelGCThreads=2"})
        if cache and r.ok:
            os.makedirs(cache, exist_ok=True)
            with open(key(cfg), "w") as f:
                json.dump({"generated": r.generated, "distinct": r.distinct, "printed": r.printed, "coverage": r.coverage,
                           "summary_": r.summary()}, f)
        return cfg, r
    out = {}
    with concurrent.futures.ThreadPoolExecutor(max_workers=2) as ex:
        for cfg, r in ex.map(one, cfgs):
            if not r.ok:
                sys.stderr.write(r.out[-4000:])
                core.die("TLC failed on PyLiteral_%s (%s): %s" % (cfg, r.violation or r.rc, r.cmd))
            out[cfg] = r
    return out


def obs_class_for(want, got):
    if not isinstance(got, list):
        return "no-observation"
    if got[0] == "exc":
        return "exception:" + got[1]
    if got == ["none"] and want[1] == []:
        return "none-for-empty"
    if got[0] != want[0]:
        return "wrong-type"
    if want[0] in ("str", "bytes") and 0 in want[1] and got[1] == want[1][:want[1].index(0)]:
        return "truncated-at-nul"
    return "wrong-value"


def short(o):
    if isinstance(o, list) and len(o) == 2 and isinstance(o[1], list) and len(o[1]) > 60:
        return [o[0], o[1][:30] + ["...(%d)" % len(o[1])]]
    return o


def run(tier, seed):
    t0 = time.time()
    rng = random.Random(seed)
    rep = core.Reporter(PROP)
    L.load_atom_classes()
    jobs = JOBS or core.NCPU
    thorough = tier == "thorough"
    cov = {"tlc": [], "samples": [], "phase_wall_s": {}}

    def phase(name, t_start):
        cov["phase_wall_s"][name] = round(time.time() - t_start, 1)
        return time.time()
    tp = time.time()

    # ------------------------------------------------------------------ model checking
    cfgs = ["single", "variants", "concat", "pair", "long_t" if thorough else "long"]
    if thorough:
        cfgs += ["pairfull", "triple"]
    tl = run_tlc(cfgs)
    act = {}
    for cfg, r in tl.items():
        cov["tlc"].append(dict(r.summary(), config=cfg, published=len(r.printed)))
        for a, (d, t) in r.coverage.items():
            act[a] = act.get(a, 0) + t
    cov["action_coverage"] = {a: act.get(a, 0) for a in ACTIONS}
    dead = [a for a in ACTIONS if not act.get(a)]
    if dead:
        core.die("vacuous model: actions never taken: %s" % dead)

    # the transcription of the real algorithm must disagree with the reference somewhere (it predicts KF-C10-1/2);
    # reported only: a fixed tree makes the transcription stale, not the check wrong
    strict = core.tlc("PyLiteral", cfg="PyLiteral_strict", workers=2, timeout=600)
    cov["model_predicts_a_defect_of_the_transcribed_algorithm"] = strict.violation == "CyAgrees"

    cases = {}
    n_published = 0
    for cfg in cfgs:
        for rec in tl[cfg].printed:
            n_published += 1
            c = L.Case(rec)
            cases.setdefault((c.text, c.kind), c)
    cases = list(cases.values())
    acc = [c for c in cases if c.acc]
    rej = [c for c in cases if not c.acc]
    classes_seen = {L.ATOM_CLASS[a] for c in cases for p in c.rec["parts"] for a in p["a"]}
    missing = set(L.ATOM_CLASS.values()) - classes_seen
    n_fused = sum(1 for c in cases if c.rec["fused"])
    if missing or not rej or not n_fused or len(acc) < 1000:
        core.die("vacuous case space: missing atom classes %s, %d rejected, %d fused, %d accepted" % (sorted(missing), len(rej), n_fused, len(acc)))
    cov.update({"cases_published": n_published, "cases_distinct": len(cases), "cases_accepted": len(acc), "cases_rejected_by_spec": len(rej),
                "cases_with_fusing_atoms": n_fused,
                "cases_by_family": {f: sum(1 for c in cases if c.rec["fam"] == f) for f in sorted({c.rec["fam"] for c in cases})},
                "cases_by_kind": {k: sum(1 for c in acc if c.kind == k) for k in ("str", "bytes", "char")}})

    tp = phase("tlc", tp)
    # ------------------------------------------------------------------ S vs P (CPython) on every case
    for c in cases:
        p = L.py_oracle(c)
        s = c.expected() if c.acc else "reject"
        if p != s:
            rep.spec_drift("PyLiteral value vs CPython", {"case": c.brief(), "spec": short(s), "cpython": short(p)})
    if rep.drift:
        rep.finish()

    tp = phase("cpython_oracle", tp)
    # ------------------------------------------------------------------ C, parse stage: the real scanner/parser/builders on every literal
    ids = {k: c for k, c in enumerate(cases)}
    parsed = L.parse_stage([(k, c.text) for k, c in ids.items() if not c.rep or len(c.text) < 20000], kind="pyx", jobs=min(jobs, 8))
    n_parse_cmp = 0
    parse_ok = set()
    accepts_invalid = 0
    fidelity = {"agree": 0, "differ": 0, "differ_samples": []}
    confirm = {}
    for k, c in ids.items():
        r = parsed.get(k)
        if r is None:
            parse_ok.add(k)      # very long literals: run-time stage only
            continue
        if not c.acc:
            accepts_invalid += r[0] == "ok"
            continue
        n_parse_cmp += 1
        want = c.expected()
        if r[0] == "ok":
            got = ["int", r[2][0]] if (c.kind == "char" and len(r[2]) == 1) else ["bytes" if r[1] in ("BytesNode", "CharNode") else "str", r[2]]
            real = "same" if got == want else "value"
            if got != want:
                rep.disagree(c.descriptor(), "parse:" + obs_class_for(want, got), {"case": c.brief(), "want": short(want), "parsed": short(got)})
            else:
                parse_ok.add(k)
        else:
            real = "crash" if r[0] == "crash" else "reject"
            oc = ("compiler-crash:" + r[1]) if r[0] == "crash" else "rejected"
            rep.disagree(c.descriptor(), oc, {"case": c.brief(), "want": short(want), "compiler": r[1:]})
            confirm.setdefault((oc, json.dumps(c.descriptor(), sort_keys=True)), []).append(c)
        if c.rec["cy"] == real:
            fidelity["agree"] += 1
        else:
            fidelity["differ"] += 1
            if len(fidelity["differ_samples"]) < 5:
                fidelity["differ_samples"].append({"case": c.brief(), "model_predicts": c.rec["cy"], "real": real})
    cov["parse_stage"] = {"literals_parsed": len(parsed), "accepted_literals_compared": n_parse_cmp,
                          "rejected_by_cpython_but_accepted_by_cython(no demand)": accepts_invalid}
    cov["transcription_fidelity"] = fidelity

    # parse-stage failures are confirmed with the complete compiler on a sample (one module per literal)
    conf_cases = [cs[0] for cs in list(confirm.values())[:6]]
    if conf_cases:
        specs = [core.BuildSpec("conf%d" % k, "V = (%s,)\n" % c.text, cython_only=True) for k, c in enumerate(conf_cases)]
        for c, b in zip(conf_cases, core.build_many(specs, jobs=jobs)):
            if b.ok:
                core.die("parse stage rejected %r but the complete compiler accepts it" % c.text)
    cov["parse_stage"]["failures_confirmed_by_full_compile"] = len(conf_cases)

    tp = phase("parse_stage", tp)
    # ------------------------------------------------------------------ C, run time: modules x compression cells
    good = [c for k, c in ids.items() if c.acc and k in parse_ok]
    shortc = [c for c in good if not c.rep]
    longc = [c for c in good if c.rep]
    if thorough:
        chosen = shortc
    else:
        must = [c for c in shortc if c.rec["fam"] in ("single", "variants") or c.rec["fused"]]
        rest = [c for c in shortc if not (c.rec["fam"] in ("single", "variants") or c.rec["fused"])]
        chosen = must + core.sample(rest, max(0, 4000 - len(must)), rng)
    rng.shuffle(chosen)

    # the string-table part (spec/StrTable.tla) runs beside the run-time stage: both mostly wait for child processes
    table_thread, table_err = None, []
    try:
        from checks import c10_table
    except ImportError:
        c10_table = None
    if c10_table is not None:
        import threading
        table_rng = random.Random(seed + 1)

        def _table():
            try:
                c10_table.run_part(tier, seed, rep, cov, list(chosen), table_rng)
            except BaseException as e:      # SystemExit from core.die included: re-raised in the main thread
                table_err.append(e)
        table_thread = threading.Thread(target=_table)
        table_thread.start()

    def surrogate(c):
        return c.kind == "str" and any(0xD800 <= v <= 0xDFFF for v in c.val)
    # str constants with lone surrogates take a path of their own (unicode_escape text as a C string constant); they are
    # batched apart from bytes constants -- the interaction of the two is the `twins` family below
    modules = []
    per = 2000
    plain_cases = [c for c in chosen if not surrogate(c)]
    for k in range(0, len(plain_cases), per):
        m = L.Module("c10k%d" % (k // per), filler=True)
        for c in plain_cases[k:k + per]:
            m.add(c, "char" if c.kind == "char" else "const")
        modules.append(m)
    msur = L.Module("c10sur", table=False)
    for c in chosen:
        if surrogate(c):
            msur.add(c, "const")
    modules.append(msur)
    # the same literals in a .py file (pure Python mode; no char literals)
    mpy = L.Module("c10py", kind="py", filler=True)
    for c in core.sample([c for c in plain_cases if c.kind != "char"], 4000 if thorough else 800, rng):
        mpy.add(c, "const")
    modules.append(mpy)
    # use contexts that bypass the string table: bytes literal -> char* (own C literal), str literal -> docstring
    singles = [c for c in shortc if c.rec["fam"] in ("single", "variants", "concat")]
    ctxs = core.sample(singles, 2400 if thorough else 300, rng)
    doc_isolated = []
    mctx = L.Module("c10ctx", table=False)
    for c in ctxs:
        if c.kind == "bytes":
            mctx.add(c, "cstr")
        elif c.kind == "str":
            if surrogate(c):
                doc_isolated.append(c)      # see below: each in its own module
            else:
                mctx.add(c, "doc")
    modules.append(mctx)
    # long literals: table context, and their own C literal (char* / docstring)
    mlong, mlongs, mlongx = L.Module("c10long", filler=True), L.Module("c10longs", table=False), L.Module("c10longx", table=False)
    for c in longc:
        (mlongs if surrogate(c) else mlong).add(c, "const")
        if c.kind == "bytes":
            mlongx.add(c, "cstr")
        elif not surrogate(c):
            mlongx.add(c, "doc")
    modules += [mlong, mlongs, mlongx]
    modules = [m for m in modules if m.n()]

    cells = ["none", "zlib", "bz2", "lzss"] + (["cell3"] if thorough else [])
    first = "none"
    flags = ["-DCYTHON_COMPRESS_STRINGS=" + L.CELLS[first]]
    # twins: a str constant with a lone surrogate next to the bytes constant that spells its escaped text
    # (b'\\ud800' is inert in a bytes literal: the six characters backslash u d 8 0 0).  Both are ordinary cases above;
    # here they share one module, in both orders.
    by_val = {}
    for c in shortc:
        if c.kind == "bytes":
            by_val.setdefault(tuple(c.val), c)
    twins = []
    for c in shortc:
        if surrogate(c) and len(c.rec["parts"]) == 1 and len(c.rec["parts"][0]["a"]) == 1:
            esc = tuple(b for v in c.val for b in (b"\\u%04x" % v))
            if esc in by_val:
                twins.append((c, by_val[esc]))
    twins = twins[:(8 if thorough else 2)]
    tw_mods = []
    for k, (cs, cb) in enumerate(twins):
        for order in ("str-first", "bytes-first"):
            m = L.Module("c10tw%d%s" % (k, order[0]))
            for c in ((cs, cb) if order == "str-first" else (cb, cs)):
                m.add(c, "const")
            tw_mods.append((m, order))
    iso = doc_isolated[:(40 if thorough else 6)]
    miso = []
    if iso:
        for k, c in enumerate(iso):
            m = L.Module("c10iso%d" % k)
            m.add(c, "doc")
            miso.append(m)
    specs = [core.BuildSpec(m.name, m.source(), kind=m.kind, cflags=flags) for m in modules]
    specs += [core.BuildSpec(m.name, m.source(), cflags=flags) for m, _ in tw_mods]
    specs += [core.BuildSpec(m.name, m.source()) for m in miso]
    builds = core.build_many(specs, jobs=jobs, timeout=2400)
    tw_builds = builds[len(modules):len(modules) + len(tw_mods)]
    iso_builds = builds[len(modules) + len(tw_mods):]
    builds = builds[:len(modules)]
    n_rt = 0
    algo_hits = {}
    first_good = None
    ddmin_builds = [0]

    def still_fails(m, entries):
        """does the Cython stage still fail for the sub-module with these entries?"""
        sub = L.Module("%s_dd%d" % (m.name, ddmin_builds[0]), kind=m.kind)
        ddmin_builds[0] += 1
        for _, c, ctx in entries:
            sub.add(c, ctx)
        b = core.build_many([core.BuildSpec(sub.name, sub.source(), kind=sub.kind, cython_only=True)], jobs=1)[0]
        return (not b.ok), b

    def prepare(mb):
        """C-compile the remaining cells and import every cell's module in a child (worker thread)."""
        m, b = mb
        if not b.ok:
            return None
        mcells = cells if m.table else [first]      # C-string constants do not pass through the compressed table
        built = L.build_cells(b, mcells, first)
        return L.table_branches(b.c_file), mcells, built, {cell: L.observe(built[cell][0], m) for cell in mcells if built[cell][0]}
    with concurrent.futures.ThreadPoolExecutor(max_workers=max(1, jobs // 2)) as ex:
        prepared = list(ex.map(prepare, zip(modules, builds)))

    for (m, b), prep in zip(zip(modules, builds), prepared):
        if not b.ok and b.stage in ("cython", "cython-crash"):
            # attribute the failure: delta debugging down to a minimal failing set of literals (bounded)
            ents = m.entries()
            last_b = b
            n = 2
            while len(ents) >= 2 and ddmin_builds[0] < 40:
                size = max(1, len(ents) // n)
                chunks = [ents[k:k + size] for k in range(0, len(ents), size)]
                reduced = False
                for ch in chunks:
                    if ddmin_builds[0] >= 40:
                        break
                    f, bb = still_fails(m, ch)
                    if f:
                        ents, last_b, n, reduced = ch, bb, 2, True
                        break
                if not reduced:
                    for ch in chunks:
                        if ddmin_builds[0] >= 40 or len(chunks) <= 2:
                            break
                        comp = [e for e in ents if e not in ch]
                        f, bb = still_fails(m, comp)
                        if f:
                            ents, last_b, n, reduced = comp, bb, max(n - 1, 2), True
                            break
                if not reduced:
                    if n >= len(ents):
                        break
                    n = min(len(ents), n * 2)
            last = (last_b.errors or "").strip().splitlines()[-1] if (last_b.errors or "").strip() else ""
            oc = ("compiler-crash:" + last.split(":")[0]) if last_b.stage == "cython-crash" else "rejected"
            if len(ents) == 1:
                _, c, ctx = ents[0]
                rep.disagree(c.descriptor(ctx=ctx), oc, {"case": c.brief(), "module": m.name, "errors": (last_b.errors or "")[-800:]})
            else:
                rep.disagree({"part": "batch", "module_kind": m.kind, "stage": b.stage, "culprits": len(ents)}, oc,
                             {"module": m.name, "minimal_failing_set(bounded search)": [c.brief() for _, c, _ in ents[:8]],
                              "errors": (last_b.errors or "")[-800:]})
            continue
        if not b.ok:
            rep.disagree({"part": "batch", "module_kind": m.kind, "stage": b.stage}, "build-failed",
                         {"module": m.name, "literals": m.n(), "errors": (b.errors or "")[-3000:]})
            continue
        branches, mcells, built, observed = prep
        for cell in mcells:
            so_dir, err = built[cell]
            algo = L.effective_algo(cell, branches)
            if so_dir is None:
                rep.disagree({"part": "batch", "module_kind": m.kind, "stage": "cc", "cell": cell}, "build-failed", {"module": m.name, "errors": err})
                continue
            o = observed[cell]
            if isinstance(o, tuple):
                rep.disagree({"part": "batch", "module_kind": m.kind, "stage": "import", "cell": cell, "algo": algo}, o[0], dict(o[1], module=m.name))
                continue
            algo_hits[algo] = algo_hits.get(algo, 0) + len(m.tuple_items)
            for slot, c, ctx in m.entries():
                got = o[slot[0]][slot[1]] if slot[0] == "F" else (o["V"][slot[1]] if slot[1] < len(o["V"]) else None)
                want = c.expected()
                n_rt += 1
                if got != want:
                    rep.disagree(c.descriptor(ctx=ctx, cell=algo if m.table else "n/a"), obs_class_for(want, got),
                                 {"case": c.brief(), "module": m.name, "module_kind": m.kind, "cell": cell, "want": short(want), "got": short(got)})
                elif first_good is None and want[0] in ("str", "bytes") and want[1]:
                    first_good = (want, got)
        if len(cov["samples"]) < 4 and m.tuple_items:
            c = m.tuple_items[0][0]
            cov["samples"].append({"literal": c.brief(), "module": m.name, "cells": cells, "table_branches": branches})

    if tw_mods:
        for (m, order), b in zip(tw_mods, tw_builds):
            desc = {"part": "twins", "order": order, "str_has_surrogate": True, "bytes_spell_escaped_text": True}
            n_rt += 1
            if not b.ok:
                last = (b.errors or "").strip().splitlines()[-1] if (b.errors or "").strip() else ""
                oc = ("compiler-crash:" + last.split(":")[0]) if b.stage == "cython-crash" else ("rejected" if b.stage == "cython" else "build-failed")
                rep.disagree(desc, oc, {"module_source": m.source(), "stage": b.stage, "errors": (b.errors or "")[-600:]})
                continue
            o = L.observe(os.path.dirname(b.so), m)
            want = [c.expected() for c, _ in m.tuple_items]
            if isinstance(o, tuple) or o["V"] != want:
                rep.disagree(desc, "wrong-value" if not isinstance(o, tuple) else o[0], {"module_source": m.source(), "want": want,
                                                                                           "got": o if isinstance(o, tuple) else o["V"]})

    # docstrings with lone surrogates: each in its own module (a crash must not take the batch with it)
    if iso:
        for m, c, b in zip(miso, iso, iso_builds):
            want = c.expected()
            n_rt += 1
            if not b.ok:
                last = (b.errors or "").strip().splitlines()[-1] if (b.errors or "").strip() else ""
                oc = "compiler-crash:" + last.split(":")[0] if b.stage == "cython-crash" else ("rejected" if b.stage == "cython" else "build-failed")
                rep.disagree(c.descriptor(ctx="doc"), oc, {"case": c.brief(), "stage": b.stage, "errors": (b.errors or "")[-600:]})
                continue
            o = L.observe(os.path.dirname(b.so), m)
            got = o["F"]["doc_0"] if not isinstance(o, tuple) else None
            if got != want:
                rep.disagree(c.descriptor(ctx="doc"), obs_class_for(want, got), {"case": c.brief(), "want": short(want), "got": short(got)})
    # P for the docstring context (the demand there is CPython's __doc__)
    for m in modules + miso:
        for f, c, ctx in m.funcs:
            if ctx == "doc" and L.py_doc(c.text) != c.expected():
                rep.spec_drift("docstring context: CPython __doc__ differs from the literal's value", {"case": c.brief()})
    cov["runtime"] = {"modules": len(modules), "cells": cells, "comparisons": n_rt, "constants_checked_per_effective_algorithm": algo_hits,
                      "literals_in_tuple_modules": len(chosen), "py_mode": mpy.n(), "char_ptr_context": sum(1 for _, _, x in mctx.funcs if x == "cstr"),
                      "docstring_context": sum(1 for _, _, x in mctx.funcs if x == "doc") + len(iso), "long_literals": len(longc),
                      "twin_modules": len(tw_mods), "delta_debugging_builds": ddmin_builds[0]}

    tp = phase("runtime_stage", tp)
    # binding demonstration: a corrupted expectation must be rejected by the comparison
    if first_good is None:
        if not rep.n_violations():
            core.die("no run-time observation matched at all")
    else:
        want, got = first_good
        bad = [want[0], want[1][:-1] + [(want[1][-1] + 1) % 128]]
        if got == bad or obs_class_for(bad, got) != "wrong-value":
            core.die("binding self-test failed")

    # ------------------------------------------------------------------ string table (spec/StrTable.tla): started earlier, joined here
    if table_thread is not None:
        table_thread.join()
        if table_err:
            raise table_err[0]
    tp = phase("wait_for_table_part", tp)

    nontriv = sum(1 for c in acc if c.rep or len(c.rec["parts"]) > 1 or c.val != [ord(x) for x in body_text(c)])
    cov.update({
        "states": sum(t.generated for t in tl.values()) + cov.get("table_states", 0),
        "distinct_states": sum(t.distinct for t in tl.values()),
        "transitions": sum(t.generated for t in tl.values()) + cov.get("table_states", 0),
        "traces_validated_against_impl": n_parse_cmp + n_rt + cov.get("table_records", 0),
        "evaluations": len(cases), "distinct_nontrivial": nontriv,
        "exhaustive": thorough,     # quick: the model and the parse stage are exhaustive, the run-time stage samples
        "rule": "cases = terminal states of spec/PyLiteral.tla: all literals of <= 1 atom (102 atoms x 6 prefix classes x 4 quote kinds, 10 prefix "
                "spellings x core atoms), <= 2 atoms over the core alphabet (39) x 5 prefix classes x 2 quote kinds%s, two adjacent literals over the mini "
                "alphabet (25 prefix pairs), %slong literals x^k unit^n (15 units, k 0..3, n around 2000/4000/65536).  Distinct by (text, kind); "
                "non-trivial = accepted and the value differs from the body text (an escape, a newline form, truncation mod 256) or is "
                "concatenated or long.  Parse stage on every case; run time: %s" % (
                    " and over all 102 atoms in triple-quoted literals" if thorough else "", "<= 3 atoms over the mini alphabet, " if thorough else "",
                    "every accepted case" if thorough else "all of the <= 1 atom and fusing cases + a seeded sample of the rest (4000 in all)"),
    })
    for c in core.sample(acc, 3, rng):
        cov["samples"].append({"literal": c.brief(), "demanded": short(c.expected())})
    rc = rep.finish()
    cov["known_findings"] = rep.kf_summary()
    core.write_evidence(PROP, tier, seed, "model_checking", cov, time.time() - t0,
                        assumptions=["CPython 3.12 is the oracle P: literal values by compile()+eval of the same text; docstrings are not "
                                     "re-indented before 3.13",
                                     "source files are UTF-8 (no coding cookie, no BOM); language_level=3",
                                     "c'..' is Cython-only: demanded value = the single byte CPython reads from b'..' (observed as unsigned char)",
                                     "the zlib/bz2 codecs are opaque round-tripping functions in StrTable.tla; the emitted compressed tables are "
                                     "decoded with Python's zlib/bz2 and an independent LZSS decoder to validate that",
                                     "cases CPython rejects carry no demand (counted, not judged)"],
                        violations=rep.n_violations())
    return rc


def body_text(c):
    part = c.rec["parts"][0]
    q = L.QUOTES[part["q"]]
    return c.text[len(part["p"]) + len(q):len(c.text) - len(q)]
