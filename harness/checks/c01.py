"""C01 -- compiled pure-Python code behaves exactly like CPython.

spec/PyCore.tla: reference semantics of a bounded mini-Python (closures with cells, global/nonlocal,
class bodies, comprehension scopes incl. walrus, lambdas, augmented assignment, starred/nested unpacking,
conditional expressions, a table of builtins) as a big-step interpreter, and the program family P01 as a
grammar whose derivations are TLC states.  TLC (a) enumerates a small sub-family exhaustively (one
statement over atoms, sub-sampled by structural hash in the quick tier) and (b) explores random
derivations of the full grammar (Sample mode, one derivation per behaviour); every program is then
executed by the spec on a sequence of argument tuples, on one persistent module state, and the expected
observations are published.
Binding B1, three-way: every published program is rendered as Python source; P = the module exec'd by
CPython, C = the same module compiled by Cython from the snapshot; per call the result (type, repr) or
the exception type (+ args where the spec decides them, otherwise CPython's args are the reference),
the log of L() calls and the repr of the module global must agree.  S != P -> exit 2.
"""
import collections
import concurrent.futures
import json
import os
import random
import re
import time

import core
import lib_pycore as lp

PROP = "C01"
BATCH = 40            # programs per generated module

# tier -> list of (cfg, NProg or None, modulus or None)
TIERS = {
    "quick": {"exh": ("PyCore_exh_q", 6), "rnd": ("PyCore_rnd_q", None), "ncalls": 12, "timeout": 1500},
    "thorough": {"exh": ("PyCore_exh_t", 2), "rnd": ("PyCore_rnd_t", None), "ncalls": 36, "timeout": 7000},
}

# productions that must occur among the published programs (vacuity guard on the model side)
NEED_TAGS = ["def:h", "def:h:nonlocal", "def:h:global", "def:m", "def:__init__", "class", "lambda", "comp:list", "comp:gen",
             "comp:dict", "comp:set", "walrus", "cond", "aug:name", "aug:sub", "aug:attr", "assign:tup", "assign:sub",
             "assign:attr", "unpack:n*", "unpack:*n", "unpack:(n", "unpack:nn", "for", "if", "and", "or", "not",
             "call:len", "call:abs", "call:min", "call:max", "call:sum", "call:sorted", "call:any", "call:all",
             "call:isinstance", "call:bool", "call:int", "call:tuple", "call:list", "call:h", "call:attr", "call:lambda",
             "log", "sub", "attr", "tuple", "list"]


def descriptor(rec, k):
    """spec-side description of call k of a published program"""
    o = rec["obs"][k]
    tags = rec["tags"]
    return {
        "family": rec["family"],
        "expect": o["kind"],
        "expect_type": o["ty"],
        "site": o["site"],
        "stale_name_operand": "stale" in o["fl"],
        "class_scope_skipped": "skipcls" in o["fl"],
        "class_bound_name_global_lookup": "clsname" in o["fl"],
        "minmax_arg_order_observable": "minmax" in o["fl"],
        "literal_binop_raises": "constop" in o["fl"],
        "one_char_literal_ordered_against_bint": "chrbint" in o["fl"],
        "empty_display_times_expression": "emptymul" in o["fl"],
        "str_literal_iteration_var_against_int": "ucs4" in o["fl"],
        "has_class": "class" in tags,
        "has_closure": any(t.startswith("def:h") or t == "lambda" for t in tags),
    }


def compare(s, got, ref):
    """spec observation s vs observation got (P or C); ref = CPython's observation or None (when got is CPython itself).
    -> list of difference classes"""
    if isinstance(got, str):
        return ["crash" if got.startswith("CRASH") else "timeout"]
    out = []
    if s["kind"] != got["kind"]:
        if got["kind"] == "exc":
            out.append("exception:%s-instead-of-value" % got["ty"])
        else:
            out.append("value-instead-of-exception:%s" % s["ty"])
        return out
    if s["kind"] == "exc":
        if s["ty"] != got["ty"]:
            out.append("exception:%s-instead-of-%s" % (got["ty"], s["ty"]))
        elif s["rp"] != "?":
            if s["rp"] != got["rp"]:
                out.append("exc-args")
        elif ref is not None and ref["kind"] == "exc" and ref["rp"] != got["rp"]:
            out.append("exc-args")
    else:
        if s["ty"] != got["ty"]:
            out.append("type")
        elif s["rp"] != got["rp"]:
            out.append("value")
    if s["log"] != got["log"]:
        out.append("log")
    if s["g"] != got["g"]:
        out.append("global")
    return out


def cy_error_class(msg):
    if re.search(r"need more than \d+ values? to unpack|too many values to unpack", msg):
        return "unpack-count"
    if re.search(r"Index -?\d+ out of bounds", msg):
        return "index-out-of-bounds"
    if "no starred arg found when splitting starred assignment" in msg or "Compiler crash in PostParse" in msg:
        return "crash-starred-assignment"
    if "'ReturnStatNode' object has no attribute 'return_type'" in msg:
        return "crash-return-type"
    if "is_pylist_type" in msg or "Compiler crash in EarlyReplaceBuiltinCalls" in msg:
        return "crash-early-replace-builtin-calls"
    if "Incompatible types in conditional expression" in msg:
        return "incompatible-conditional-types"
    if "Attempting to index non-array type" in msg:
        return "index-non-array"
    if re.search(r"local variable '\w+' referenced before assignment", msg):
        return "referenced-before-assignment"
    return "other"


def make_modules(recs, prefix):
    mods = []
    for b in range(0, len(recs), BATCH):
        mods.append({"name": "%s%d" % (prefix, b // BATCH), "recs": recs[b:b + BATCH], "dropped": {}})
    return mods


def module_source(m):
    """-> (text, [(first_line, pid)])"""
    lines = [lp.MOD_HEADER.rstrip("\n")]
    starts = []
    for r in m["recs"]:
        if r["pid"] in m["dropped"]:
            continue
        starts.append((len(lines) + 1, r["pid"]))
        lines.extend(r["source"].rstrip("\n").split("\n"))
        lines.append("")
    return "\n".join(lines) + "\n", starts


_RE_CY_ERR = re.compile(r"\.py:(\d+):\d+: (.*)")
_RE_CC_FN = re.compile(r"In function .__pyx_\w*?[_\d]f(\d+)(?:_\w+)?\W")
_RE_CC_LINE = re.compile(r"\.py:(\d+)")


def blame(m, b):
    """programs of module m that the failed build b blames: {pid: (stage, message)}"""
    out = {}
    text, starts = module_source(m)

    def owner(ln):
        own = [p for s0, p in starts if s0 <= ln]
        return own[-1] if own else None
    if b.stage == "cython":
        for line in b.errors.splitlines():
            mm = _RE_CY_ERR.search(line)
            if mm and not line.startswith("warning") and "warning:" not in line:
                p = owner(int(mm.group(1)))
                if p is not None:
                    out.setdefault(p, ("cython", mm.group(2)[:300]))
    elif b.stage == "cc":
        cur = None
        for line in b.errors.splitlines():
            mm = _RE_CC_FN.search(line)
            if mm:
                cur = int(mm.group(1))
            elif " error: " in line and cur is not None:
                out.setdefault(cur, ("cc", line.split(" error: ", 1)[1][:300]))
    return out


def isolate(m, b, jobs, tag):
    """a module fails to build and the messages blame no program (compiler crash without position): find the
    programs that fail on their own by bisection (Cython only) -> {pid: (stage, message)}"""
    out = {}
    groups = [[r for r in m["recs"] if r["pid"] not in m["dropped"]]]
    rnd = 0
    while groups and rnd < 8:
        rnd += 1
        halves = []
        for g in groups:
            if len(g) == 1:
                halves.append(g)
            else:
                halves.extend([g[:len(g) // 2], g[len(g) // 2:]])
        specs = []
        for i, g in enumerate(halves):
            mm = {"recs": g, "dropped": {}}
            specs.append(core.BuildSpec("%s_i%d_%d" % (m["name"], rnd, i), module_source(mm)[0], kind="py", cython_only=True,
                                        options={"language_level": 3, "global_options": {"error_on_unknown_names": False}}))
        bs = core.build_many(specs, workdir=core.subdir("c01iso_%s_%d" % (tag, rnd)), jobs=jobs)
        groups = []
        for g, bb in zip(halves, bs):
            if bb.ok:
                continue
            if len(g) == 1:
                msg = [ln for ln in (bb.errors or "").strip().splitlines() if ln.strip()]
                out[g[0]["pid"]] = ("cython", ("Compiler crash: " + msg[-1][:250]) if msg else "compiler crash")
            else:
                groups.append(g)
    return out


def build_robust(mods, jobs):
    pending = list(range(len(mods)))
    builds = [None] * len(mods)
    for rnd in range(6):
        if not pending:
            break
        specs = [core.BuildSpec(mods[i]["name"], module_source(mods[i])[0], kind="py",
                                options={"language_level": 3, "global_options": {"error_on_unknown_names": False}})
                 for i in pending]
        bs = core.build_many(specs, workdir=core.subdir("c01build%d" % rnd), jobs=jobs)
        nxt = []
        for i, b in zip(pending, bs):
            builds[i] = b
            if not b.ok and b.stage in ("cython", "cc", "cython-crash"):
                bl = blame(mods[i], b)
                bl = {p: v for p, v in bl.items() if p not in mods[i]["dropped"]}
                if not bl and b.stage != "cc" and rnd < 4:
                    bl = isolate(mods[i], b, jobs, "%d_%d" % (rnd, i))
                if bl:
                    mods[i]["dropped"].update(bl)
                    nxt.append(i)
        pending = nxt
    return builds


class _Cached(object):
    """TLC result restored from VERIF_C01_TLC_CACHE (repeated runs on the same spec, e.g. mutation runs)"""

    def __init__(self, d):
        self.__dict__.update(d)
        self.out = ""

    def summary(self):
        return dict(self.summ, cached=True)


def run_tlc(cfg, env, timeout, workers, seed):
    cache = os.environ.get("VERIF_C01_TLC_CACHE")
    key = None
    if cache:
        import hashlib
        h = hashlib.sha1()
        for fn in ("PyCore.tla", cfg + ".cfg"):
            with open(os.path.join(core.SPEC, fn), "rb") as f:
                h.update(f.read())
        h.update(json.dumps(env, sort_keys=True).encode())
        key = os.path.join(cache, "%s_%s.json" % (cfg, h.hexdigest()[:16]))
        if os.path.exists(key):
            with open(key) as f:
                return _Cached(json.load(f))
    r = core.tlc_or_die("PyCore", cfg=cfg, timeout=timeout, workers=workers, env=env)
    if key:
        os.makedirs(cache, exist_ok=True)
        with open(key + ".tmp", "w") as f:
            json.dump({"printed": r.printed, "generated": r.generated, "distinct": r.distinct, "depth": r.depth,
                       "summ": r.summary()}, f)
        os.replace(key + ".tmp", key)
    return r


def run(tier, seed):
    t0 = time.time()
    rng = random.Random(seed)
    rep = core.Reporter(PROP)
    T = TIERS[tier]
    workers = int(os.environ.get("VERIF_TLC_WORKERS", "0")) or min(8, core.NCPU)
    jobs = int(os.environ.get("VERIF_JOBS", "0")) or min(8, core.NCPU)
    ncalls = T["ncalls"]

    # ---- model checking: (a) exhaustive sub-family, (b) random derivations of the full grammar
    cov = {"tlc": []}
    recs = []
    seen = set()
    acts = {}
    n_oom = 0
    with concurrent.futures.ThreadPoolExecutor(2) as ex:
        futs = []
        cfg, mod = T["exh"]
        futs.append(("exhaustive", cfg, ex.submit(run_tlc, cfg, {"C01_REM": seed % mod}, T["timeout"], workers, seed)))
        cfg, _ = T["rnd"]
        futs.append(("random", cfg, ex.submit(run_tlc, cfg, {"C01_SEED": seed}, T["timeout"], workers, seed)))
        for family, cfg, fu in futs:
            r = fu.result()
            cov["tlc"].append(dict(r.summary(), config=cfg, family=family, published=len(r.printed)))
            acts[family] = (r.generated, r.distinct, r.depth)
            if not r.printed:
                core.die("PyCore (%s) published no program" % cfg)
            for p in r.printed:
                key = json.dumps(p["prog"], sort_keys=True)
                if key in seen:
                    continue
                seen.add(key)
                if any(o["kind"] == "oom" for o in p["obs"]):
                    n_oom += 1          # a call left the modelled domain (size limits, cyclic repr, ...): not judged
                    if p["obs"][0]["kind"] == "oom":
                        continue
                elif len(p["obs"]) != ncalls:
                    core.die("program with %d observations, expected %d" % (len(p["obs"]), ncalls))
                p["family"] = family
                recs.append(p)
            del r.out
    # vacuity (model side): every published program is the end of a behaviour Init -> Fill.. -> Seal -> Call^n,
    # so the search must be at least that deep and must have at least that many states
    for fam, (gen, dist, depth) in acts.items():
        n_f = sum(1 for r in recs if r["family"] == fam)
        if depth < ncalls + 3 or dist < n_f * (ncalls + 2):
            core.die("vacuous model run (%s): depth %d, %d distinct states for %d programs" % (fam, depth, dist, n_f))
    for pid, r in enumerate(recs):
        r["pid"] = pid
        r["source"] = lp.render(r["prog"], pid)
        r["tags"] = sorted(lp.node_tags(r["prog"]))
        r["calls"] = lp.call_seq(len(r["obs"]))
    tagcnt = collections.Counter(t for r in recs for t in r["tags"])
    missing = [t for t in NEED_TAGS if not any(k == t or k.startswith(t) for k in tagcnt)]
    kinds = collections.Counter()
    for r in recs:
        for o in r["obs"]:
            kinds[o["kind"] + (":" + o["ty"] if o["kind"] == "exc" else "")] += 1
    # the quick tier draws few programs: a couple of rare productions may be absent there
    if len(missing) > (4 if tier == "quick" else 0) or kinds["ret"] == 0 or not any(k.startswith("exc") for k in kinds):
        core.die("vacuous model run: productions never generated %s, observation kinds %s" % (missing, dict(kinds)))

    # ---- P leg (CPython executes the rendered modules) and C leg (compiled from the snapshot)
    mods = make_modules(recs, "c01m")
    wd = core.subdir("c01p")

    def p_leg(m):
        with open(os.path.join(wd, m["name"] + ".py"), "w") as f:
            f.write(module_source(m)[0])
        return lp.run_work(wd, m["name"], [[r["pid"], r["calls"]] for r in m["recs"]], "P", "p_" + m["name"])

    with concurrent.futures.ThreadPoolExecutor(jobs) as ex:
        fut_p = [ex.submit(p_leg, m) for m in mods]
        builds = build_robust(mods, jobs)
        resP = {}
        for f in fut_p:
            resP.update(f.result())

    n_drift = 0
    for r in recs:
        got = resP.get(r["pid"])
        for k, s in enumerate(r["obs"]):
            if s["kind"] == "oom":
                break
            g = got if isinstance(got, str) or got is None else got[k]
            d = compare(s, g, None) if g is not None else ["missing"]
            if d:
                n_drift += 1
                rep.spec_drift("PyCore vs CPython", {"source": r["source"], "args": r["calls"][k], "spec": s, "cpython": g, "diff": d})
                break

    for m, b in zip(mods, builds):
        if not b.ok:
            rep.disagree({"family": "*", "expect": "build", "site": ""}, "build-failed",
                         {"module": m["name"], "stage": b.stage, "errors": b.errors[-3000:]})

    def c_leg(mb):
        m, b = mb
        if not b.ok:
            return {}
        d = os.path.dirname(b.so)
        work = [[r["pid"], r["calls"]] for r in m["recs"] if r["pid"] not in m["dropped"]]
        return lp.run_work(d, m["name"], work, "C", "c_" + m["name"])

    resC = {}
    with concurrent.futures.ThreadPoolExecutor(jobs) as ex:
        for res in ex.map(c_leg, zip(mods, builds)):
            resC.update(res)

    # ---- verdicts
    n_eval = n_agree = n_dropped = n_after = 0
    nontrivial = set()
    classes = collections.Counter()
    ok_samples = []
    byname = {r["pid"]: r for r in recs}
    for m, b in zip(mods, builds):
        if not b.ok:
            continue
        for r in m["recs"]:
            pid = r["pid"]
            if pid in m["dropped"]:
                stage, msg = m["dropped"][pid]
                oc = "invalid-c" if stage == "cc" else "cython-error:" + cy_error_class(msg)
                classes[oc] += 1
                n_dropped += 1
                desc = descriptor(r, 0)
                desc.update({"expect": "compiles", "site": "", "expect_type": "", "stale_name_operand": False,
                             "class_scope_skipped": False, "class_bound_name_global_lookup": False,
                             "minmax_arg_order_observable": False, "literal_binop_raises": False,
                             "one_char_literal_ordered_against_bint": False, "empty_display_times_expression": False,
                             "str_literal_iteration_var_against_int": False})
                desc.update(lp.static_features(r["prog"]))
                rep.disagree(desc, oc, {"source": r["source"], "stage": stage, "message": msg})
                continue
            got = resC.get(pid)
            ref = resP.get(pid)
            for k, s in enumerate(r["obs"]):
                if s["kind"] == "oom":
                    break
                g = got if isinstance(got, str) or got is None else got[k]
                p = None if isinstance(ref, str) or ref is None else ref[k]
                n_eval += 1
                d = compare(s, g, p) if g is not None else ["missing"]
                if s["kind"] == "ret" or s["log"] or s["g"] != "0":
                    nontrivial.add((pid, k))
                if not d:
                    n_agree += 1
                    if len(ok_samples) < 3000:
                        ok_samples.append((r, k, g, p))
                    continue
                desc = descriptor(r, k)
                for oc in d:
                    classes[oc] += 1
                    rep.disagree(desc, oc, {"source": r["source"], "args": r["calls"][k], "call_index": k,
                                            "want": s, "cpython": p, "got": g,
                                            "earlier_calls": r["calls"][:k]})
                if d != ["exc-args"]:
                    n_after += len(r["obs"]) - k - 1      # module state may have diverged: later calls are not judged
                    break

    # ---- binding demonstration: corrupted expectations must be rejected by the same comparison
    st = {"corrupted": 0, "rejected": 0}
    for r, k, g, p in core.sample(ok_samples, 80, rng):
        s = r["obs"][k]
        muts = []
        if s["kind"] == "ret":
            muts.append(dict(s, rp=s["rp"] + " "))
            muts.append(dict(s, kind="exc", ty="TypeError", rp="?"))
        else:
            muts.append(dict(s, ty="KeyError" if s["ty"] != "KeyError" else "TypeError"))
            muts.append(dict(s, kind="ret", ty="int", rp="0"))
        muts.append(dict(s, log=s["log"] + ["0"]))
        muts.append(dict(s, g=s["g"] + "0"))
        for bad in muts:
            st["corrupted"] += 1
            if compare(bad, g, p):
                st["rejected"] += 1
    if st["corrupted"] == 0 or st["corrupted"] != st["rejected"]:
        core.die("binding self-test failed: %r" % st)

    samples = [{"source": r["source"], "args": r["calls"][k], "expected": {x: r["obs"][k][x] for x in ("kind", "ty", "rp", "log", "g")},
                "compiled": g} for r, k, g, p in core.sample([x for x in ok_samples if x[0]["obs"][x[1]]["kind"] == "ret"] or ok_samples, 4, rng)]
    cov.update({
        "states": sum(t["states_generated"] for t in cov["tlc"]),
        "distinct_states": sum(t["distinct_states"] for t in cov["tlc"]),
        "transitions": sum(t["states_generated"] for t in cov["tlc"]),
        "traces_validated_against_impl": n_eval, "evaluations": n_eval, "agreeing": n_agree,
        "distinct_nontrivial": len(nontrivial),
        "programs": len(recs), "programs_by_family": dict(collections.Counter(r["family"] for r in recs)),
        "programs_leaving_the_model": n_oom, "modules": len(mods),
        "calls_not_judged_after_divergence": n_after,
        "cpython_leg_drift": n_drift, "programs_rejected_by_compiler": n_dropped,
        "expected_observation_kinds": dict(kinds), "productions_seen": dict(tagcnt),
        "difference_classes": dict(classes), "selftest": st,
        "rule": "every program published by TLC (exhaustive family: one statement over atoms, hash %% %d = seed; random family: "
                "one random derivation of the full grammar per behaviour) x the first %d argument tuples over "
                "{-1, 0, 2, 'a', None, (1, 2)}^2 on one persistent module state; non-trivial = (program, call) that returns "
                "a value, logs, or has changed the global" % (T["exh"][1], ncalls),
        "samples": samples,
    })
    rc = rep.finish()
    cov["known_findings"] = rep.kf_summary()
    core.write_evidence(PROP, tier, seed, "model_checking", cov, time.time() - t0,
                        assumptions=["the spec decides exception args only for exceptions raised by the program itself and KeyError; "
                                     "for interpreter-raised exceptions the args of CPython are the reference",
                                     "functions, classes, instances, generators and bound methods are observed as <fn>/<cls>/<obj>/<gen>/<bm> "
                                     "(addresses and qualified names are not compared; the compiled function type differs by design)",
                                     "programs that leave the modelled domain (ints beyond 10^6, sequences beyond 40 items, cyclic or set "
                                     "reprs, sorted() over partially incomparable items, generic aliases) are not judged from that call on",
                                     "after a call whose observation differs in more than the exception args, the later calls of that "
                                     "program are not judged (the module state may have diverged)"],
                        violations=rep.n_violations())
    return rc
