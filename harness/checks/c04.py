"""C04 — overflowcheck: exact result or OverflowError, always OverflowError when the result
does not fit; never a wrapped value, never a crash.  Spurious OverflowError tolerated (counted).

spec/Overflow.tla: scaled (W-bit) images of int / long / unsigned int / unsigned long with the
helpers of Utility/Overflow.c transcribed in both variants (builtin, manual fallback), LeftShift,
and the unchecked call sites (unary minus, //).  TLC, all operand pairs: NeverWrong, AlwaysRaises,
VariantsAgree for the checked operators; hazards (where the transcription leaves the property)
and the demand rows are published.
Binding: (1) the Python mirror `demand()` of the spec's Demand operator is validated against every
TLC row (spec drift guard), then evaluated at the REAL widths (TLC integers are 32-bit);
(2) compiled functions for every C integer type x operator (variable and constant operands,
nested expressions sharing one folded overflow bit) are executed on boundary grids and seeded
random operands, with overflowcheck.fold on and off, built with gcc (builtin variant) and with
clang -D__ibmxl__ (which selects the manual fallback helpers);
(3) the hazards the model predicts are run on the real types, each in its own child.
"""
import json
import os
import random
import sys
import time

import calls
import core

PROP = "C04"
cZ, cU, cO, cUB = 100000, 100001, 100002, 100003

TYPES = [("schar", "signed char", 8, True), ("uchar", "unsigned char", 8, False),
         ("short", "short", 16, True), ("ushort", "unsigned short", 16, False),
         ("int", "int", 32, True), ("uint", "unsigned int", 32, False),
         ("long", "long", 64, True), ("ulong", "unsigned long", 64, False),
         ("llong", "long long", 64, True), ("ullong", "unsigned long long", 64, False),
         ("ssize", "Py_ssize_t", 64, True), ("size", "size_t", 64, False)]


def trange(bits, signed):
    return (-(1 << (bits - 1)), (1 << (bits - 1)) - 1) if signed else (0, (1 << bits) - 1)


def result_type(bits, signed):
    return (32, True) if bits < 32 else (bits, signed)


def exact(op, a, b):
    if op == "add":
        return a + b
    if op == "sub":
        return a - b
    if op in ("mul", "mulc"):
        return a * b
    if op == "lshift":
        return a << b
    if op == "neg":
        return -a
    if op == "fdiv":
        return a // b
    raise ValueError(op)


def demand(bits, signed, op, a, b):
    """Python mirror of Overflow.tla!Demand (validated against every TLC row before use)."""
    if op == "lshift" and not (0 <= b <= 20):
        return cU
    if op == "fdiv" and b == 0:
        return cZ
    v = exact(op, a, b)
    lo, hi = trange(bits, signed)
    return v if lo <= v <= hi else cO


KS = {True: [3, -1, -3, 2, 0, 1], False: [3, 2, 0, 1]}


def kname(c):
    return ("m%d" % -c) if c < 0 else str(c)


def gen_source(fold):
    src = ["# cython: language_level=3, overflowcheck=True, overflowcheck.fold=%s" % fold, "cimport cython", ""]
    for tag, ct, bits, signed in TYPES:
        for op, sym in (("add", "+"), ("sub", "-"), ("mul", "*"), ("lshift", "<<"), ("fdiv", "//")):
            src.append("def %s_%s(%s a, %s b):\n    return a %s b\n" % (op, tag, ct, ct, sym))
        src.append("def neg_%s(%s a):\n    return -a\n" % (tag, ct))
        lo, hi = trange(bits, signed)
        for c in KS[signed] + [hi]:
            src.append("def mulc_%s_%s(%s a):\n    return a * (<%s>%d)\n" % (tag, kname(c), ct, ct, c))
            src.append("def mulcl_%s_%s(%s a):\n    return (<%s>%d) * a\n" % (tag, kname(c), ct, ct, c))
        # nested expressions: one overflow bit shared by the whole tree when fold is on
        src.append("def t1_%s(%s a, %s b, %s c):\n    return (a * b) + c\n" % (tag, ct, ct, ct))
        src.append("def t2_%s(%s a, %s b, %s c):\n    return (a + b) << c\n" % (tag, ct, ct, ct))
        src.append("def t3_%s(%s a, %s b, %s c):\n    return a * b - c * a\n" % (tag, ct, ct, ct))
        src.append("def t4_%s(%s a, %s b, %s c):\n    return (a - b) * (b + c)\n" % (tag, ct, ct, ct))
    return "\n".join(src)


TREES = {
    "t1": lambda D, a, b, c: D("add", D("mul", a, b), c),
    "t2": lambda D, a, b, c: D("lshift", D("add", a, b), c),
    "t3": lambda D, a, b, c: D("sub", D("mul", a, b), D("mul", c, a)),
    "t4": lambda D, a, b, c: D("mul", D("sub", a, b), D("add", b, c)),
}


def tree_demand(bits, signed, name, a, b, c):
    """every node must fit; any node that does not -> OverflowError required"""
    class Ovf(Exception):
        pass

    def D(op, x, y):
        d = demand(bits, signed, op, x, y)
        if d == cO:
            raise Ovf()
        if d == cU:
            raise KeyError()
        return d
    try:
        return TREES[name](D, a, b, c)
    except Ovf:
        return cO
    except KeyError:
        return cU


def expect_obs(d):
    if d == cZ:
        return "E:ZeroDivisionError"
    if d == cO:
        return "E:OverflowError"
    return calls.obs_int(d)


def grid(bits, signed):
    lo, hi = trange(bits, signed)
    g = {lo, lo + 1, lo + 2, -3, -2, -1, 0, 1, 2, 3, 7, hi - 2, hi - 1, hi, hi // 2, hi // 2 + 1, hi // 3, 1 << (bits // 2), (1 << (bits // 2)) - 1,
         -(1 << (bits // 2)), 46341, 46340, -46341, 3037000500, 3037000499, -3037000500, 65536, 65535, 4294967296, 4294967295}
    return sorted(v for v in g if lo <= v <= hi)


def run(tier, seed):
    t0 = time.time()
    rng = random.Random(seed)
    rep = core.Reporter(PROP)
    cov = {"tlc": []}
    W = 6 if tier == "quick" else 8
    t = core.tlc_or_die("Overflow", cfg="Overflow_w%d" % W, timeout=2400)
    cov["tlc"].append(dict(t.summary(), config="W=%d, 4 scaled types x 7 operators x 2 helper variants x all operand pairs" % W))
    rows = t.printed
    if len(rows) < 1000:
        core.die("Overflow.tla published only %d rows" % len(rows))
    # (1) validate the Python mirror of Demand against every TLC row; collect hazards / spurious counts
    hazards = {}
    spurious = {}
    ncells = 0
    for r in rows:
        for bs, d in r["row"].items():
            ncells += 1
            p = demand(W, r["s"], r["op"], r["a"], int(bs))
            if p != d:
                rep.spec_drift("Overflow.Demand vs its Python mirror", {"row": {k: r[k] for k in ("s", "op", "a")}, "b": int(bs), "spec": d, "mirror": p})
        key = (r["op"], r["s"], r["long"], r["variant"])
        if r["hazards"]:
            hazards.setdefault(key, []).append((r["a"], r["hazards"]))
        spurious[key] = spurious.get(key, 0) + r["spurious"]
    hz_ops = sorted({(k[0], k[1], k[2]) for k in hazards})
    for op, s, lg in hz_ops:
        if op not in ("neg", "fdiv"):
            core.die("model hazard for a checked operator: %s" % op)

    # (2) build: gcc (builtin helpers) and clang -D__ibmxl__ (manual fallback helpers), fold on/off
    specs = []
    for fold in (True, False):
        specs.append(core.BuildSpec("c04_gcc_f%d" % fold, gen_source(fold)))
        specs.append(core.BuildSpec("c04_man_f%d" % fold, gen_source(fold), cc="clang", cflags=["-D__ibmxl__"]))
    builds = core.build_many(specs)
    # call table (identical for every build)
    cl, meta = [], []
    nrand = 150 if tier == "quick" else 5000
    for tag, ct, bits, signed in TYPES:
        rb, rs = result_type(bits, signed)
        lo, hi = trange(bits, signed)
        g = grid(bits, signed)
        pairs = [(x, y) for x in g for y in g]
        for _ in range(nrand):
            k1, k2 = rng.randint(1, bits), rng.randint(1, bits)
            pairs.append((rng.randint(max(lo, -(1 << k1)), min(hi, (1 << k1) - 1)), rng.randint(max(lo, -(1 << k2)), min(hi, (1 << k2) - 1))))
        for op in ("add", "sub", "mul", "lshift", "fdiv"):
            for x, y in pairs:
                if op == "lshift" and not (0 <= y <= 70):
                    continue
                yy = y
                d = demand(rb, rs, op, x, yy)
                if d == cU:
                    continue
                hazard = op == "fdiv" and rs and x == -(1 << (rb - 1)) and y == -1
                cl.append(["%s_%s" % (op, tag), [calls.ienc(x), calls.ienc(y)]] + ([True] if hazard else []))
                meta.append(({"op": op, "type": tag, "demand": "overflow" if d == cO else ("zerodiv" if d == cZ else "value"),
                              "shape": "binop"}, d))
        for c in KS[signed] + [hi]:
            for x in g + [rng.randint(lo, hi) for _ in range(20)]:
                d = demand(rb, rs, "mulc", x, c)
                for fn in ("mulc", "mulcl"):
                    cl.append(["%s_%s_%s" % (fn, tag, kname(c)), [calls.ienc(x)]])
                    meta.append(({"op": "mulc", "type": tag, "demand": "overflow" if d == cO else "value", "shape": fn}, d))
        small = [v for v in g if abs(v) < 1 << 33][:14] + [lo, hi, hi // 2]
        triples = [(rng.choice(g), rng.choice(g), rng.choice(small)) for _ in range(400 if tier == "quick" else 6000)]
        for name in TREES:
            for x, y, z in triples:
                if name == "t2" and not (0 <= z <= 70):
                    continue
                d = tree_demand(rb, rs, name, x, y, z)
                if d == cU:
                    continue
                cl.append(["%s_%s" % (name, tag), [calls.ienc(x), calls.ienc(y), calls.ienc(z)]])
                meta.append(({"op": name, "type": tag, "demand": "overflow" if d == cO else "value", "shape": "tree"}, d))
        for x in g:
            d = demand(rb, rs, "neg", x, 0)
            hazard = (rs and x == -(1 << (rb - 1))) or (not rs and x != 0)
            if hazard:
                continue
            cl.append(["neg_%s" % tag, [calls.ienc(x)]])
            meta.append(({"op": "neg", "type": tag, "demand": "value", "shape": "unop"}, d))
    # (3) hazards from the model -> real types, isolated
    hz_calls, hz_meta = [], []
    for op, s, lg in hz_ops:
        for tag, ct, bits, signed in TYPES:
            rb, rs = result_type(bits, signed)
            if rs != s or (rb == 64) != lg:
                continue
            lo, hi = trange(bits, signed)
            rlo = -(1 << (rb - 1))
            if op == "neg":
                xs = [lo] if (signed and bits == rb) else ([1, hi] if not rs else [])
                for x in xs:
                    hz_calls.append(["neg_%s" % tag, [calls.ienc(x)], True])
                    hz_meta.append(({"op": "neg", "type": tag, "signed": rs, "shape": "unop", "hazard": "unchecked-negation"}, demand(rb, rs, "neg", x, 0)))
            elif op == "fdiv" and bits == rb and signed:
                hz_calls.append(["fdiv_%s" % tag, [calls.ienc(rlo), -1], True])
                hz_meta.append(({"op": "fdiv", "type": tag, "signed": True, "shape": "binop", "hazard": "min-div-minus-one"}, demand(rb, rs, "fdiv", rlo, -1)))
    nrun = 0
    spurious_real = {}
    for b in builds:
        if not b.ok:
            rep.disagree({"build": b.name, "shape": "build"}, "build-failed", {"errors": b.errors[-2500:]})
            continue
        obs = calls.run_calls(b, cl, timeout=900)
        hobs = calls.run_calls(b, hz_calls, timeout=300, tag="hz")
        nrun += len(cl) + len(hz_calls)
        variant = "manual" if "_man_" in b.name else "builtin"
        fold = b.name.endswith("f1")
        for (desc, d), o, c in list(zip(meta, obs, cl)) + list(zip(hz_meta, hobs, hz_calls)):
            want = expect_obs(d)
            if o == want:
                continue
            if o == "E:OverflowError" and d not in (cZ,):
                spurious_real[(desc["op"], variant)] = spurious_real.get((desc["op"], variant), 0) + 1
                continue      # tolerated by the property, measured
            crashed = isinstance(o, str) and (o.startswith("CRASH") or o == "TIMEOUT")
            oc = "crash" if crashed else ("exception:" + o[2:] if isinstance(o, str) and o.startswith("E:") else "wrong-value")
            rep.disagree(dict(desc, variant=variant, fold=fold), oc, {"call": c, "want": want, "got": o, "build": b.name})
    k = next(i for i, m in enumerate(meta) if m[1] not in (cO, cZ))
    if expect_obs(meta[k][1] + 1) == expect_obs(meta[k][1]):
        core.die("binding self-test failed")
    cov.update({
        "states": t.generated, "distinct_states": t.distinct, "transitions": t.generated,
        "traces_validated_against_impl": nrun, "evaluations": nrun,
        "distinct_nontrivial": len({(c[0], json.dumps(c[1])) for c, m in zip(cl, meta) if m[1] == cO}) + len(hz_calls),
        "exhaustive": True, "cells_checked_against_mirror": ncells,
        "model_hazards": [{"op": k[0], "signed": k[1], "long": k[2], "variant": k[3], "n": len(v)} for k, v in sorted(hazards.items())],
        "model_spurious_overflows": {"%s/%s/%s/%s" % k: v for k, v in sorted(spurious.items()) if v},
        "real_spurious_overflows": {"%s/%s" % k: v for k, v in sorted(spurious_real.items())},
        "rule": "model: all operand pairs of 4 scaled %d-bit types; real: 12 C integer types x {+,-,*,<<,//,unary -, * by constants (both orders), 4 "
                "nested expression shapes} on boundary grids + seeded random operands, x fold on/off x {gcc builtin helpers, clang manual "
                "helpers}; non-trivial = distinct call whose demand is OverflowError, plus model hazards" % W,
        "samples": [{"call": cl[i], "demand": meta[i][1]} for i in rng.sample(range(len(cl)), 3)] + [{"hazard_call": c} for c in hz_calls[:2]],
    })
    rc = rep.finish()
    cov["known_findings"] = rep.kf_summary()
    core.write_evidence(PROP, tier, seed, "model_checking", cov, time.time() - t0,
                        assumptions=["real-width expectations come from the Python mirror of Demand, validated cell by cell against TLC on the scaled types",
                                     "the manual helper variant is selected by compiling with clang -D__ibmxl__ (clang reports __GNUC__ 4)",
                                     "negative shift counts are outside the property (Python raises ValueError)"],
                        violations=rep.n_violations())
    return rc
