"""C22 — exception handling semantics match CPython.

spec/ExcState.tla: structured exception handling as an abstract machine (exception objects with
__cause__/__context__/__suppress_context__, the stack of handled exceptions = sys.exc_info(), a
big-step evaluator over try/except/else/finally, try/finally, with, loops, sequences, raise,
raise-from, bare raise, return/break/continue).  TLC states are programs; programs grow by
filling an executed hole with a leaf or a fresh compound statement; every state carries the
expected observation for a call with nothing handled and for a call from inside the caller's
`except Z:` block.  Invariants: handled stack restored on every exit path, finally exactly once,
well-formed outcome and chains, caller transparency.
Binding B1, three-way: each published program is rendered as a Python function with probes
(block label + sys.exc_info()[1] with its whole chain) ; P = the rendered source exec'd by CPython,
C = the same source compiled by Cython from the snapshot, every call in a child process.
S != P -> spec drift (exit 2);  C != S -> disagreement.
"""
import collections
import concurrent.futures
import json
import os
import random
import time

import calls
import core
import lib_exc

PROP = "C22"

ACTIONS = ["NestTry", "NestTryFin", "NestWith", "NestLoop", "NestSeq", "InjRaise", "InjRaiseFrom", "InjReraise",
           "InjReturn", "InjBreak", "InjContinue", "InjQuiet"]

TIERS = {
    "quick": {
        "exhaustive": [("ExcState_wide", "1 compound statement, <= 2 injected leaves, all handler lists / context managers / leaves"),
                       ("ExcState_deep", "2 nested compound statements (try, try/finally, with, loop), <= 2 leaves of "
                                         "{raise A, bare raise, return, break, continue}")],
        "sim": ("ExcState_sim", 12, 3000, 200, "random growth to depth <= 3, <= 4 compound statements, <= 4 leaves"),
        "chunk": 80,
    },
    "thorough": {
        "exhaustive": [("ExcState_wide", "1 compound statement, <= 2 injected leaves, all handler lists / context managers / leaves"),
                       ("ExcState_deep", "2 nested compound statements (try, try/finally, with, loop), <= 2 leaves of "
                                         "{raise A, bare raise, return, break, continue}"),
                       ("ExcState_t1", "2 compound statements of {try, try/finally, seq}, <= 2 leaves of {raise A, bare raise, return}"),
                       ("ExcState_t3", "1 compound statement, <= 3 leaves, handler lists (A), (C, A), context managers no/sup")],
        "sim": ("ExcState_tsim", 16, 30000, 800, "random growth to depth <= 3, <= 5 compound statements, <= 5 leaves"),
        "chunk": 100,
    },
}


def features(prog):
    kinds, leaves = set(), set()

    def walk(s):
        t = s["t"]
        if t in lib_exc.COMPOUND:
            kinds.add(t if t != "with" else "with-" + s["cm"])
            for k in ("a", "b", "el", "fin"):
                if k in s:
                    walk(s[k])
            for h in s.get("hs", ()):
                walk(h["b"])
        elif t != "nop":
            leaves.add(t if t != "raise" else ("raise" if s["f"] == "" else "raise-from"))
    walk(prog)
    return "+".join(sorted(kinds)), "+".join(sorted(leaves))


_ACTION_OF = {"try": "NestTry", "tf": "NestTryFin", "with": "NestWith", "loop": "NestLoop", "seq": "NestSeq", "raise": "InjRaise",
              "raise-from": "InjRaiseFrom", "reraise": "InjReraise", "ret": "InjReturn", "brk": "InjBreak", "cnt": "InjContinue",
              "qpass": "InjQuiet", "qret": "InjQuiet"}


def actions_of(prog):
    kinds, leaves = features(prog)
    return {_ACTION_OF[x.split("-")[0] if x.startswith("with") else x] for x in (kinds + "+" + leaves).split("+") if x}


def classify(want, got):
    if isinstance(got, str):
        if got.startswith("CRASH") or got == "TIMEOUT":
            return "crash"
        return "driver:" + got[:40]
    if not isinstance(got, list) or len(got) < 3:
        return "malformed"
    if [e[:2] for e in want[0]] != [e[:2] for e in got[0]]:
        return "blocks"                      # different blocks / order
    if not lib_exc.same([want[0], want[1], want[2]], [got[0], want[1], want[2]]):
        return "exc_info"                    # same blocks, sys.exc_info() differs at some probe
    if want[1][0] != got[1][0] or want[1][1] != got[1][1]:
        return "outcome"
    if want[1] != got[1]:
        return "chain"                       # same exception class/identity expected, __cause__/__context__/suppress differ
    return "exc_info_after_call"


def run(tier, seed):
    t0 = time.time()
    rng = random.Random(seed)
    rep = core.Reporter(PROP)
    T = TIERS[tier]
    cov = {"tlc": []}
    workers = int(os.environ.get("VERIF_TLC_WORKERS", "0")) or None
    jobs = int(os.environ.get("VERIF_JOBS", "0")) or None

    # ---- model checking: every program is a state carrying its expected observations
    progs = collections.OrderedDict()      # key -> {"prog", "runs": {outer: run}, "src": config}
    action_cov = collections.Counter()
    tot = collections.Counter()
    for cfg, desc in T["exhaustive"]:
        r = core.tlc_or_die("ExcState", cfg=cfg, timeout=1500, workers=workers)
        cov["tlc"].append(dict(r.summary(), config=desc))
        tot["states"] += r.generated
        tot["distinct"] += r.distinct
        if len(r.printed) != r.distinct:
            core.die("ExcState.tla published %d cases for %d distinct states (%s)" % (len(r.printed), r.distinct, cfg))
        for c in r.printed:
            k = lib_exc.prog_key(c["prog"])
            if k not in progs:
                progs[k] = dict(c, src=cfg)
                # (TLC's -coverage is unusably slow on the recursive evaluator.)  A program that contains the statement
                # an action introduces is a state that this action produced.
                for a in actions_of(c["prog"]):
                    action_cov[a] += 1
        del r
    n_exh = len(progs)
    phase = {"tlc_exhaustive": round(time.time() - t0, 1)}
    scfg, sdepth, smax, stake, sdesc = T["sim"]
    r = core.tlc_simulate("ExcState", scfg, seconds=300 if tier == "quick" else 900, depth=sdepth, workers=1, seed=seed,
                          max_records=smax)
    if not r.ok:
        core.die("TLC simulation failed (%s): %s" % (r.violation, r.out[-3000:]))
    cov["tlc"].append({"states_generated": len(r.printed), "config": "simulation: " + sdesc, "cmd": r.cmd, "wall_s": round(r.wall, 2)})
    tot["states"] += len(r.printed)
    taken = 0
    for c in r.printed:
        if taken >= stake:
            break
        k = lib_exc.prog_key(c["prog"])
        if c["nodes"] >= 3 and c["inj"] >= 2 and k not in progs:
            progs[k] = dict(c, src=scfg)
            taken += 1
    del r
    if taken < stake // 3:
        core.die("simulation delivered only %d large programs" % taken)
    for a in ACTIONS:
        if action_cov[a] == 0:
            core.die("vacuous model: action %s never produced a new state" % a)

    phase["tlc_simulation"] = round(time.time() - t0 - phase["tlc_exhaustive"], 1)
    keys = list(progs)
    names = {k: "f%d" % i for i, k in enumerate(keys)}
    cases = []          # (key, run)
    for k in keys:
        for run_ in sorted(progs[k]["runs"], key=lambda x: x["outer"]):
            cases.append((k, run_))
    want = [lib_exc.expected(c) for _, c in cases]

    # ---- model-side case classes (vacuity guard)
    classes = collections.Counter()
    nontrivial = set()
    for (k, c), w in zip(cases, want):
        classes["out:" + c["out"]] += 1
        if c["again"]:
            classes["reraised_exception_needed_again"] += 1
        if c["retover"]:
            classes["return_overridden_inside_loop"] += 1
        user_excs = c["nexc"] - (1 if c["outer"] else 0)
        if user_excs:
            nontrivial.add((k, c["outer"]))
            classes["raises"] += 1
        if c["out"] == "raise":
            e = c["exc"]
            classes["propagates:" + e.split("[")[0].rstrip("0123456789")] += 1
            if ",T]" in e:
                classes["suppress_context"] += 1
            if not e.startswith(e.split("[")[0] + "[-,-,"):
                classes["chained"] += 1
        kinds_seen = {e[0] for e in c["log"]}
        for kk, nm in ((2, "handler_entered"), (4, "exit_called")):
            if kk in kinds_seen:
                classes[nm] += 1
        if any(e[0] in (0, 1) and e[2] != ("Z[-,-,F]" if c["outer"] else "-") for e in c["log"]):
            classes["probe_sees_handled_exception"] += 1
    for need in ("out:norm", "out:ret", "out:raise", "reraised_exception_needed_again", "return_overridden_inside_loop", "propagates:RuntimeError", "propagates:Z",
                 "propagates:A", "propagates:C", "suppress_context", "chained", "handler_entered", "exit_called",
                 "probe_sees_handled_exception"):
        if classes[need] == 0:
            core.die("vacuous model: no case of class %s" % need)

    # ---- render: identical source text for P (exec) and C (compiled), `chunk` functions per module
    chunk = T["chunk"]
    mods = []
    for m in range(0, len(keys), chunk):
        ks = keys[m:m + chunk]
        src, shapes = lib_exc.render_module([(names[k], progs[k]["prog"]) for k in ks], seed)
        mods.append({"name": "c22m%d" % (m // chunk), "keys": ks, "src": src, "shapes": shapes})
    shape_cov = collections.Counter(s for m in mods for sh in m["shapes"].values() for p, s in sh.items() if p != "loops")
    loops_of = {n: sh["loops"] for m in mods for n, sh in m["shapes"].items()}
    fsrc = {}
    for m in mods:
        parts = m["src"].split("\ndef ")
        for p in parts[1:]:
            fsrc[p.split("(")[0]] = "def " + p
    wd = core.subdir("c22")
    with open(os.path.join(wd, "c22rt.py"), "w") as f:
        f.write(lib_exc.RT_SOURCE)
    allsrc = os.path.join(wd, "c22all.py")
    with open(allsrc, "w") as f:
        f.write("\n".join(lib_exc.MODULE_HEAD) + "\n" + "\n".join(m["src"].split("\n", len(lib_exc.MODULE_HEAD))[-1] for m in mods))

    # builds start now and run while P is evaluated
    specs = [core.BuildSpec(m["name"], m["src"], kind="py", options={"extra_files": {"c22rt.py": lib_exc.RT_SOURCE}}) for m in mods]
    pool = concurrent.futures.ThreadPoolExecutor(1)
    fut = pool.submit(core.build_many, specs, core.subdir("build"), jobs, 3000)

    # ---- P: plain CPython
    t1 = time.time()
    call_list = [["RUN", [names[k], c["outer"]]] for k, c in cases]
    gotP = lib_exc.run_plain(wd, allsrc, call_list)
    drift = 0
    for (k, c), w, p in zip(cases, want, gotP):
        if not lib_exc.same(w, p):
            drift += 1
            rep.spec_drift("ExcState.tla vs CPython", {"prog": progs[k]["prog"], "outer": c["outer"], "source": fsrc[names[k]],
                                                      "spec": w, "cpython": p})
    # binding demonstration: corrupted expectations must be rejected by the comparison
    selftest = {"corrupted": 0, "rejected": 0}
    if not drift:
        for i in rng.sample(range(len(cases)), min(300, len(cases))):
            bad = json.loads(json.dumps(want[i]))
            mode = rng.randrange(4)
            if mode == 0 and len(bad[0]) >= 2:
                j = rng.randrange(len(bad[0]) - 1)
                bad[0][j], bad[0][j + 1] = bad[0][j + 1], bad[0][j]         # two blocks in the other order
                if bad[0][j][:3] == bad[0][j + 1][:3]:
                    continue
            elif mode == 1:
                e = bad[0][rng.randrange(len(bad[0]))]
                e[2] = "A9[-,-,F]" if e[2] == "-" else "-"                    # another sys.exc_info()
            elif mode == 2:
                if bad[1][0] == "raise":
                    bad[1][2] = bad[1][2].replace(",F]", ",X]", 1).replace(",T]", ",F]", 1).replace(",X]", ",T]", 1)   # flip __suppress_context__
                else:
                    bad[1][1] += 1                                            # another return value
            else:
                bad[2] = "A9[-,-,F]" if bad[2] == "-" else "-"                # exc_info left behind after the call
            selftest["corrupted"] += 1
            if not lib_exc.same(bad, gotP[i]):
                selftest["rejected"] += 1
        if selftest["corrupted"] == 0 or selftest["rejected"] != selftest["corrupted"]:
            core.die("binding self-test failed: %r" % selftest)

    phase["cpython_and_selftest"] = round(time.time() - t1, 1)
    # ---- C: compiled by Cython from the snapshot
    builds = fut.result()
    phase["build_total"] = round(time.time() - t1, 1)
    t2 = time.time()
    pool.shutdown()
    case_idx = collections.defaultdict(list)
    for i, (k, c) in enumerate(cases):
        case_idx[k].append(i)
    gotC = [None] * len(cases)
    build_failures = 0

    def parse(o):
        return json.loads(o) if isinstance(o, str) and o.startswith("[") else o

    def run_mod(mb):
        m, b = mb
        idx = [i for k in m["keys"] for i in case_idx[k]]
        cl = [["RUN", [names[cases[i][0]], cases[i][1]["outer"]], True] for i in idx]
        out = [None] * len(cl)
        start = restarts = 0
        while True:
            obs = [parse(o) for o in calls.run_calls(b, cl[start:], prelude=lib_exc.RUN_SOURCE, timeout=600, tag="r%d" % restarts)]
            # a call that finds a stale handled exception on entry runs in a process polluted by an earlier call (which is
            # reported by its own exc_info-after-the-call): repeat it and the rest in a fresh process
            bad = next((j for j, g in enumerate(obs) if j > 0 and isinstance(g, list) and len(g) == 4 and g[3] != "-"), None)
            if bad is None or restarts >= 25:
                out[start:] = obs
                return idx, out, restarts
            out[start:start + bad] = obs[:bad]
            start += bad
            restarts += 1

    okmods = []
    for m, b in zip(mods, builds):
        if not b.ok and b.stage == "timeout":
            core.die("build of %s timed out (machine overloaded?)" % m["name"])
        if not b.ok:
            build_failures += 1
            rep.disagree({"part": "build", "stage": b.stage}, "build-failed", {"module": m["name"], "errors": b.errors[-3000:],
                                                                              "functions": len(m["keys"])})
        else:
            okmods.append((m, b))
    with concurrent.futures.ThreadPoolExecutor(jobs or core.NCPU) as ex:
        for idx, obs, restarts in ex.map(run_mod, okmods):
            tot["restarts"] += restarts
            for i, o in zip(idx, obs):
                gotC[i] = o

    phase["compiled_calls"] = round(time.time() - t2, 1)
    replays = 0
    obs_classes = collections.Counter()
    samples = []
    for i, ((k, c), w, g) in enumerate(zip(cases, want, gotC)):
        if g is None:
            continue            # module did not build
        replays += 1
        if drift and not lib_exc.same(w, gotP[i]):
            continue
        if not lib_exc.same(w, g):
            oc = classify(w, g)
            obs_classes[oc] += 1
            kinds, leaves = features(progs[k]["prog"])
            rep.disagree({"again": bool(c["again"]), "retover": bool(c["retover"]), "loops": loops_of[names[k]],
                          "outer": bool(c["outer"]), "out": c["out"], "kinds": kinds, "leaves": leaves},
                         oc, {"prog": progs[k]["prog"], "outer": c["outer"], "source": fsrc[names[k]], "shapes": None,
                              "want [log, outcome, exc_info after the call]": w, "got": g, "from": progs[k]["src"]})
    for i in rng.sample(range(len(cases)), 3):
        k, c = cases[i]
        samples.append({"source": fsrc[names[k]], "called_inside_except_Z": c["outer"], "expected [log, outcome, exc_info after]": want[i],
                        "compiled": gotC[i]})

    cov.update({
        "states": tot["states"], "distinct_states": tot["distinct"], "transitions": tot["states"],
        "traces_validated_against_impl": replays,
        "evaluations": len(cases) + replays, "distinct_nontrivial": len(nontrivial),
        "programs": len(keys), "programs_exhaustive": n_exh, "programs_from_simulation": taken, "modules": len(mods),
        "build_failures": build_failures, "phase_wall_s": phase, "process_restarts_after_pollution": tot["restarts"],
        "exhaustive": False,
        "action_coverage": dict(action_cov), "case_classes": dict(classes), "handler_shapes_rendered": dict(shape_cov),
        "disagreement_classes": dict(obs_classes), "binding_selftest": selftest,
        "rule": "one case per (program, called with nothing handled | called inside the caller's `except Z:`); programs = every state of "
                "the exhaustive TLC runs + the first %d programs with >= 3 compound statements and >= 2 leaves of a seeded TLC "
                "simulation; compared: the ordered probe log (block label, sys.exc_info()[1] with its full "
                "__cause__/__context__/__suppress_context__ chain, the exception bound by `as` / passed to __exit__), the outcome "
                "(return value | propagated exception with its chain), sys.exc_info() of the caller after the call; non-trivial = "
                "at least one exception object is created inside the function" % stake,
        "samples": samples,
    })
    rc = rep.finish()
    cov["known_findings"] = rep.kf_summary()
    core.write_evidence(PROP, tier, seed, "model_checking", cov, time.time() - t0,
                        assumptions=["exception classes, identities (creation order) and chain attributes are compared, not messages or tracebacks",
                                     "except* (PEP 654) and exception handling inside generators / cdef functions are not modelled",
                                     "the `as` name of a handler is observed inside the handler only (its unbinding afterwards is not)",
                                     "shape choices that are neutral in Python (class vs instance raise, `as` target present/used, loop "
                                     "iterable, `with .. as`) are drawn per position from the seed, not enumerated"],
                        violations=rep.n_violations())
    return rc


def replay(path, seed):
    """Re-run the cases of a replay file: compile the recorded source, call it, print spec / compiled observations."""
    with open(path) as f:
        rec = json.load(f)
    rc = 0
    for n, case in enumerate(rec["cases"]):
        if "source" not in case:
            print(json.dumps(case)[:2000])
            continue
        src = "\n".join(lib_exc.MODULE_HEAD) + "\n" + case["source"]
        name = case["source"].split("(")[0][4:]
        b = core.build_many([core.BuildSpec("c22r%d" % n, src, kind="py", options={"extra_files": {"c22rt.py": lib_exc.RT_SOURCE}})])[0]
        if not b.ok:
            print("build failed:", b.errors[-2000:])
            rc = 1
            continue
        o = calls.run_calls(b, [["RUN", [name, case["outer"]], True]], prelude=lib_exc.RUN_SOURCE)[0]
        g = json.loads(o) if isinstance(o, str) and o.startswith("[") else o
        w = case["want [log, outcome, exc_info after the call]"]
        print(case["source"])
        print("outer =", case["outer"])
        print("want:", json.dumps(w))
        print("got: ", json.dumps(g))
        if not lib_exc.same(w, g):
            rc = 1
    return rc
