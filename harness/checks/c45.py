"""C45 — profiling and tracing events are balanced and well nested.

spec/TraceEvents.tla: reference semantics of the sys.setprofile / sys.settrace event stream for call trees of plain
functions and generators (return, raise, caught by the parent, try/finally, with, loops with early exit, generators
exhausted / closed early / finalised by a dropped iterator), written as an interpreter that derives the expected
sequence from the PROGRAM STRUCTURE.  TLC builds programs function by function (AddRoot/AddDef/AddGen), evaluates them
(RunProg) and walks every expected sequence event by event through the nesting automaton of spec/TraceNest.tla with
activation accounting (DoCall .. DoLine); invariants: nesting, call graph, own lines, one start / one end per
activation, nothing left open.  Besides two exhaustive small families (TLC BFS) the model is run on programs grown
by the harness (seeded; the spec's WellFormed invariant re-checks the construction rules).
Binding B1: a sample of the published programs is rendered to Python source, compiled with profile=True and with
linetrace=True/-DCYTHON_TRACE=1, run under a recorder; S (spec) = P (CPython on the same source) is required
(start/end events, strict line events, executed lines), C (compiled) is compared with S: start/end sequence exactly,
line events by membership (function on top, line executed by that activation).  Deviations are classified with the
spec's implementation-shaped variants (return event emitted by the return statement; close() of a fresh generator;
double end event of a cpdef function called from Python and left by an exception).
Binding B2: every recorded stream is walked by TLC through the same automaton (spec/TraceEvents_Trace.tla).
"""
import collections
import concurrent.futures
import json
import os
import random
import sys
import time

import core
import lib_trace as lt

PROP = "C45"

TIERS = {
    "quick": {
        "bfs": [("TraceEvents_q1", 90, "def trees: 2 functions, root try/except/finally/loop/with x callee bodies"),
                ("TraceEvents_q2", 90, "generator trees: root consumes a generator (for/break/return/raise, next+close, close) x generator bodies")],
        "given": (320, 130, "TraceEvents_given", 4, 3, ["def"], ["def"]),
        "per_module": 80, "tlc_timeout": 1500,
    },
    "thorough": {
        "bfs": [("TraceEvents_q1", 250, "def trees: 2 functions"),
                ("TraceEvents_q2", 250, "generator trees: 2 functions"),
                ("TraceEvents_t1", 300, "def trees with cdef / cpdef callees and a cpdef root")],
        "given": (2000, 1200, "TraceEvents_given_t", 5, 4, ["def"] * 5 + ["ccall"], ["def", "def", "cfunc", "ccall"]),
        "per_module": 100, "tlc_timeout": 3000,
    },
}

CONFIGS = [("profile", {"profile": True}, [], "profile"),
           ("linetrace", {"linetrace": True}, ["-DCYTHON_TRACE=1"], "trace")]


def tlc_cases(cfg, workers, timeout, env=None):
    r = core.tlc_or_die("TraceEvents", cfg=cfg, workers=workers, timeout=timeout, env=env, heap="3g")
    cases = [p for p in r.printed if "ev" in p]
    skipped = sum(1 for p in r.printed if "skip" in p)
    return r, cases, skipped


def canon(case):
    return json.dumps([[f["k"], f["b"], f["ch"]] for f in case["p"]], sort_keys=True)


def hazards(case):
    """spec side: the implementation-shaped variants that change the visible stream of this program"""
    return sorted(case["hz"])


def explain(case, pj):
    """the smallest set of variants whose predicted stream equals the recorded one"""
    best = None
    for v in case["iv"]:
        if v["pj"] == pj and (best is None or (len(v["fl"]), sorted(v["fl"])) < (len(best), best)):
            best = sorted(v["fl"])
    return best


def stratified(cases, n, rng):
    """two thirds of the sample from programs without a classified hazard, spread over root skeletons"""
    if len(cases) <= n:
        return list(cases)
    groups = collections.defaultdict(list)
    for c in cases:
        groups[(bool(hazards(c)), c["p"][0]["sk"], len(c["p"]))].append(c)
    for g in groups.values():
        rng.shuffle(g)
    keys = sorted(groups, key=lambda k: (k[0], k[1], k[2]))
    clean = [k for k in keys if not k[0]]
    haz = [k for k in keys if k[0]]
    out = []
    for ks, quota in ((clean, n - n // 3), (haz, n // 3)):
        got = 0
        while got < quota and any(groups[k] for k in ks):
            for k in ks:
                if groups[k] and got < quota:
                    out.append(groups[k].pop())
                    got += 1
    rest = [c for k in keys for c in groups[k]]
    rng.shuffle(rest)
    return out + rest[:n - len(out)]


def descriptor(case, config, hazard):
    kinds = sorted(set(f["k"] for f in case["p"]))
    return {"config": config, "hazard": hazard, "kinds": "+".join(kinds)}


def detail(case, config, want, got, extra=None):
    d = {"config": config, "program": lt.prog_src(case), "case": {"p": case["p"]},
         "expected_start_end_events": want, "recorded": got}
    if extra:
        d.update(extra)
    return d


def replay_cases(cases, rep, rng, per_module, jobs, cov, samples, tot, selftest):
    """render, build (2 configurations), run P and C, compare; returns B2 records + their status"""
    items = list(enumerate(cases, 1))
    mods = [items[i:i + per_module] for i in range(0, len(items), per_module)]
    wd = core.subdir("c45")
    info, specs = [], []
    for mi, its in enumerate(mods):
        src, deflines, hdef = lt.render_module(its)
        name = "c45m%d" % mi
        sp = os.path.join(wd, name + ".py")
        with open(sp, "w") as f:
            f.write(src)
        info.append((name, sp, its, deflines, hdef))
        for cname, directives, cflags, _ in CONFIGS:
            specs.append((mi, cname, core.BuildSpec(name, src, kind="py", directives=directives,
                                                    options={"language_level": 3}, cflags=cflags)))
    t0 = time.time()
    with concurrent.futures.ThreadPoolExecutor(max_workers=jobs) as ex:
        futs = [(mi, cname, ex.submit(core.build_one, spec, core.subdir("build_" + cname), 3600)) for mi, cname, spec in specs]
        # P: CPython on the same sources, while the builds run
        P = {}
        for name, sp, its, deflines, hdef in info:
            for kind in ("profile", "trace"):
                got, died = lt.run_driver("P", kind, name, None, sp, [pid for pid, _ in its])
                if died:
                    core.die("CPython driver died on %s: %r" % (name, died))
                for pid, _ in its:
                    P[(pid, kind)] = lt.normalise(got[pid], pid, deflines, hdef), got[pid]["out"]
        builds = {(mi, cname): f.result() for mi, cname, f in futs}
    cov["build_wall_s"] = round(time.time() - t0, 1)
    b2_records, b2_status = [], {}

    for mi, (name, sp, its, deflines, hdef) in enumerate(info):
        views = {pid: lt.spec_views(c) for pid, c in its}
        # ---- S vs P
        ok_pids = []
        for pid, c in its:
            v = views[pid]
            drift = None
            for kind in ("profile", "trace"):
                st, out = P[(pid, kind)]
                if out != c["out"]:
                    drift = (kind, "outcome", c["out"], out)
                elif lt.proj_of(st) != v["proj"]:
                    drift = (kind, "start/end events", v["proj"], lt.proj_of(st))
                elif kind == "trace":
                    if lt.strict_of(st, v["strict_lines"]) != v["strict"]:
                        drift = (kind, "strict line events", v["strict"], lt.strict_of(st, v["strict_lines"]))
                    else:
                        lc = lt.line_check(st, v)
                        if lc:
                            drift = (kind, lc[1], sorted(map(sorted, v["allowed"].values())), st)
                if drift:
                    break
            if drift:
                rep.spec_drift("TraceEvents.tla vs CPython (%s, %s)" % drift[:2],
                               {"program": lt.prog_src(c), "spec": drift[2], "cpython": drift[3]})
                continue
            ok_pids.append(pid)
            tot["spec_eq_cpython"] += 1
            # P's linetrace stream must be accepted by the B2 automaton as well
            rid = len(b2_records)
            b2_records.append({"id": rid, "cal": c["cal"], "sz": c["sz"], "ev": P[(pid, "trace")][0]})
            b2_status[rid] = ("P", pid, None, "equal")
        # ---- binding self-test (B1): a corrupted expectation must be rejected by the comparison
        for pid in rng.sample(ok_pids, min(12, len(ok_pids))):
            pj = [list(e) for e in views[pid]["proj"]]
            idx = [i for i in range(len(pj) - 1) if pj[i] != pj[i + 1]]
            if idx:
                i = rng.choice(idx)
                pj[i], pj[i + 1] = pj[i + 1], pj[i]
                selftest["b1_corrupted"] += 1
                if lt.proj_of(P[(pid, "profile")][0]) != pj:
                    selftest["b1_rejected"] += 1
        cases_by_pid = dict(its)
        # ---- C vs S
        for cname, _, _, kind in CONFIGS:
            b = builds[(mi, cname)]
            if not b.ok and b.stage == "timeout":
                core.die("build of %s (%s) timed out (machine load), not an observation" % (name, cname))
            if not b.ok:
                rep.disagree({"config": cname, "hazard": "none", "kinds": "build"}, "build-failed",
                             {"module": name, "stage": b.stage, "errors": (b.errors or "")[-3000:]})
                continue
            got, died = lt.run_driver("C", kind, name, os.path.dirname(b.so), sp, ok_pids)
            for pid, how in died:
                c = cases_by_pid[pid]
                rep.disagree(descriptor(c, cname, "+".join(hazards(c)) or "none"), "crash",
                             detail(c, cname, views[pid]["proj"], how))
            for pid in ok_pids:
                if pid not in got:
                    continue
                c, v = cases_by_pid[pid], views[pid]
                st = lt.normalise(got[pid], pid, deflines, hdef)
                pj = lt.proj_of(st)
                hz = hazards(c)
                tot["replays"] += 1
                tot["events_compared"] += len(pj)
                rid = len(b2_records)
                b2_records.append({"id": rid, "cal": c["cal"], "sz": c["sz"], "ev": st})
                if pj == v["proj"]:
                    status = "equal"
                    if hz:
                        tot["hazard_not_manifested"] += 1
                    if kind == "trace":
                        tot["line_events_checked"] += sum(1 for e in st if e[0] == "l")
                        lc = lt.line_check(st, v)
                        if lc:
                            status = "line"
                            rep.disagree(descriptor(c, cname, "+".join(hz) or "none"), lc[1],
                                         detail(c, cname, c["ev"], st, {"event_index": lc[0]}))
                    if got[pid]["out"] != c["out"]:
                        tot["outcome_differs_events_equal"] += 1
                elif kind == "trace" and c["p"][0]["k"] == "ccall" and pj == [["c", 1]] and got[pid]["out"] == "OT":
                    # the cpdef root fails at its first line event: the frame of the C function has f_trace = None
                    status = "impl"
                    tot["cpdef_root_fails_under_settrace"] += 1
                    rep.disagree(descriptor(c, cname, "cpdef-root"), "cpdef-from-python-fails-under-settrace",
                                 detail(c, cname, v["proj"], pj, {"outcome": got[pid]["out"]}))
                else:
                    expl = explain(c, pj)
                    if expl:
                        status = "impl"
                        for h in expl:
                            rep.disagree(descriptor(c, cname, h), "events-as-impl-model:" + h,
                                         detail(c, cname, v["proj"], pj))
                        tot["explained_by_impl_model"] += 1
                    else:
                        status = "unexplained"
                        rep.disagree(descriptor(c, cname, "+".join(hz) or "none"), "events-unexplained",
                                     detail(c, cname, v["proj"], pj, {"impl_model_variants": c["iv"]}))
                b2_status[rid] = ("C:" + cname, pid, c, status)
                if len(samples) < 4 and rng.random() < 0.02:
                    samples.append({"program": lt.prog_src(c), "config": cname, "expected_start_end": v["proj"],
                                    "recorded": st[:60], "status": status})
    return b2_records, b2_status


def b2_validate(records, status, rep, rng, cov, tot, selftest, workers, timeout):
    """TLC walks the recorded streams through the automaton; corrupted copies must be rejected"""
    base = len(records)
    okc = [r for r in records if status[r["id"]][3] == "equal" and len(r["ev"]) >= 4]
    corrupted = {}
    for r in rng.sample(okc, min(60, len(okc))):
        ev = [list(e) for e in r["ev"]]
        how = rng.choice(["drop-end", "bad-line", "dup-end"])
        if how == "bad-line" and not any(e[0] == "l" for e in ev):
            how = "drop-end"
        if how == "drop-end":
            i = rng.choice([i for i, e in enumerate(ev) if e[0] == "r"])
            del ev[i]
        elif how == "dup-end":
            i = rng.choice([i for i, e in enumerate(ev) if e[0] == "r"])
            ev.insert(i, list(ev[i]))
        else:
            i = rng.choice([i for i, e in enumerate(ev) if e[0] == "l"])
            ev[i][2] = r["sz"][ev[i][1] - 1] + 1
        rid = base + len(corrupted)
        corrupted[rid] = how
        records = records + [{"id": rid, "cal": r["cal"], "sz": r["sz"], "ev": ev}]
    path = os.path.join(core.subdir("c45"), "b2_records.ndjson")
    core.write_ndjson(path, records)
    r = core.tlc_or_die("TraceEvents_Trace", cfg="TraceEvents_Trace", workers=workers, timeout=timeout,
                        env={"RECORDS": path}, heap="3g")
    pubs = [p for p in r.printed if "rejected" in p]
    if not pubs or pubs[-1]["n"] != len(records):
        core.die("TraceEvents_Trace.tla did not publish verdicts for %d records" % len(records))
    rejected = {v["id"]: v for v in pubs[-1]["rejected"]}
    cov["tlc"].append(dict(r.summary(), config="TraceEvents_Trace: %d recorded streams (+%d corrupted copies)" % (base, len(corrupted))))
    tot["b2_states"] = r.distinct
    tot["b2_generated"] = r.generated
    why = collections.Counter()
    for rid in range(base):
        who, pid, c, st = status[rid]
        v = rejected.get(rid)
        tot["b2_streams"] += 1
        if v is None:
            tot["b2_accepted"] += 1
            continue
        why[(st, v["why"])] += 1
        if who == "P":
            rep.spec_drift("TraceEvents_Trace.tla rejects a stream recorded from CPython", {"verdict": v, "stream": records[rid]["ev"][:80]})
        elif st == "equal":
            rep.disagree(descriptor(c, who[2:], "+".join(hazards(c)) or "none"), "b2:" + v["why"],
                         detail(c, who[2:], None, records[rid]["ev"], {"verdict": v}))
        # st == "impl": consequence of a classified deviation; "unexplained"/"line": reported by B1 already
    for rid, how in corrupted.items():
        selftest["b2_corrupted"] += 1
        if rid in rejected:
            selftest["b2_rejected"] += 1
    cov["b2_rejections"] = {"%s/%s" % k: n for k, n in why.items()}


def grow_programs(n, rng, max_fn, max_depth, root_kinds, callee_kinds):
    seen, progs = set(), []
    guard = 0
    while len(progs) < n and guard < n * 50:
        guard += 1
        p = lt.grow(rng, max_fn, max_depth, root_kinds, callee_kinds)
        key = json.dumps(p)
        if key not in seen:
            seen.add(key)
            progs.append(p)
    return progs


def run(tier, seed):
    t0 = time.time()
    rng = random.Random(seed)
    rep = core.Reporter(PROP)
    T = TIERS[tier]
    workers = int(os.environ.get("VERIF_TLC_WORKERS", "0")) or 4
    jobs = int(os.environ.get("VERIF_JOBS", "0")) or 8
    cov = {"tlc": []}
    tot = collections.Counter()
    selftest = collections.Counter()
    samples = []

    # ---- 1. the model: exhaustive families + grown programs, all walked by TLC
    n_given, n_pick, gcfg, gmaxfn, gdepth, grk, gck = T["given"]
    progs = grow_programs(n_given, rng, gmaxfn, gdepth, grk, gck)
    pfile = os.path.join(core.subdir("c45"), "progs.ndjson")
    core.write_ndjson(pfile, progs)
    with concurrent.futures.ThreadPoolExecutor(max_workers=len(T["bfs"]) + 1) as ex:
        futs = [(cfg, n, what, ex.submit(tlc_cases, cfg, workers, T["tlc_timeout"])) for cfg, n, what in T["bfs"]]
        gf = ex.submit(tlc_cases, gcfg, workers, T["tlc_timeout"], {"PROGS": pfile})
        runs = [(cfg, n, what, f.result()) for cfg, n, what, f in futs]
        runs.append((gcfg, n_pick, "%d programs grown by the harness (seed %d), <= %d functions, depth <= %d" % (len(progs), seed, gmaxfn, gdepth), gf.result()))
    selected, seen = [], set()
    model = collections.Counter()
    for cfg, n, what, (r, cases, skipped) in runs:
        tot["states"] += r.generated
        tot["distinct"] += r.distinct
        tot["programs_walked"] += len(cases)
        tot["programs_outside_domain"] += skipped
        for c in cases:
            model["functions:" + "/".join(sorted(set(f["k"] for f in c["p"])))] += 1
            model["outcome:" + c["out"]] += 1
            for h in hazards(c):
                model["hazard:" + h] += 1
            ks = collections.Counter(e[0] for e in c["ev"])
            for k, v in ks.items():
                model["event:" + k] += v
            if ks["throw"]:
                model["generator-closed-early"] += 1
            if ks["resume"]:
                model["generator-resumed"] += 1
        pick = [c for c in stratified(cases, n, rng)]
        k = 0
        for c in pick:
            key = canon(c)
            if key not in seen:
                seen.add(key)
                selected.append(c)
                k += 1
        cov["tlc"].append(dict(r.summary(), config=cfg, what=what, programs_published=len(cases), programs_outside_domain=skipped,
                               programs_selected=k, exhaustive=not cfg.startswith("TraceEvents_given")))
    # vacuity guard (model side): every action of Next was taken, every class of the property statement occurs
    need = ["event:call", "event:ret", "event:unw", "event:yield", "event:resume", "event:throw", "event:line",
            "outcome:ok", "outcome:VE", "outcome:OT", "generator-closed-early", "generator-resumed", "hazard:retstmt", "hazard:closeun"]
    if tier == "thorough":
        need.append("hazard:cpdefx")
    for k in need:
        if model[k] == 0:
            core.die("vacuous model: no published program with %s" % k)
    if not any(k.startswith("functions:") and "gen" in k for k in model) or tot["programs_walked"] < 500:
        core.die("vacuous model: %r" % dict(model))
    sys.stderr.write("c45: model done %.0fs, %d programs walked, %d selected\n" % (time.time() - t0, tot["programs_walked"], len(selected)))

    # ---- 2. B1: replay on CPython and on the compiled modules
    rng.shuffle(selected)
    b2_records, b2_status = replay_cases(selected, rep, rng, T["per_module"], jobs, cov, samples, tot, selftest)
    sys.stderr.write("c45: replay done %.0fs\n" % (time.time() - t0))
    # ---- 3. B2: TLC walks the recorded streams
    if b2_records:
        b2_validate(b2_records, b2_status, rep, rng, cov, tot, selftest, workers, T["tlc_timeout"])
    if not rep.drift:
        if selftest["b1_corrupted"] == 0 or selftest["b1_rejected"] != selftest["b1_corrupted"] \
                or selftest["b2_corrupted"] == 0 or selftest["b2_rejected"] != selftest["b2_corrupted"]:
            core.die("binding self-test failed: %r" % dict(selftest))

    nontrivial = sum(1 for c in selected if sum(1 for e in c["ev"] if e[0] == "call") >= 2)
    if not samples and selected:
        c = selected[0]
        samples.append({"program": lt.prog_src(c), "expected_start_end": lt.spec_views(c)["proj"]})
    cov.update({
        "states": tot["states"] + tot["b2_generated"], "distinct_states": tot["distinct"] + tot["b2_states"],
        "transitions": tot["states"] + tot["b2_generated"],
        "traces_validated_against_impl": tot["b2_streams"],
        "evaluations": tot["programs_walked"] + tot["replays"],
        "distinct_nontrivial": nontrivial,
        "programs_walked_by_tlc": tot["programs_walked"], "programs_outside_domain": tot["programs_outside_domain"],
        "programs_replayed": len(selected), "programs_spec_eq_cpython": tot["spec_eq_cpython"],
        "replays_on_compiled_code": tot["replays"], "start_end_events_compared": tot["events_compared"],
        "line_events_checked": tot["line_events_checked"],
        "explained_by_impl_model": tot["explained_by_impl_model"], "hazard_not_manifested": tot["hazard_not_manifested"],
        "outcome_differs_events_equal": tot["outcome_differs_events_equal"],
        "b2_streams_walked": tot["b2_streams"], "b2_streams_accepted": tot["b2_accepted"],
        "build_configurations": ["profile=True", "linetrace=True -DCYTHON_TRACE=1"],
        "model_classes": dict(model), "binding_selftest": dict(selftest),
        "rule": "programs = call trees built by TLC (two exhaustive 2-function families) or grown by the harness (seeded) and run by "
                "TLC; a stratified sample (two thirds without a classified hazard) is replayed three-way (spec / CPython / compiled with "
                "profile and with linetrace); compared: the exact sequence of start/end events with function identity, line events by "
                "membership (function on top, line executed by that activation); distinct = distinct (kinds, bodies, call tree); "
                "non-trivial = the expected stream has at least two activations",
        "samples": samples[:4],
    })
    rc = rep.finish()
    cov["known_findings"] = rep.kf_summary()
    core.write_evidence(PROP, tier, seed, "model_checking", cov, time.time() - t0,
                        assumptions=["legacy (pre-sys.monitoring) tracing of Python 3.12; c_call/c_return/exception events are not part of the comparison",
                                     "line events of compiled code are checked by membership (Cython reports fewer / repeated lines than CPython), not by sequence",
                                     "outside the domain (skipped): yield inside a finally clause, generators that ignore GeneratorExit, `return` leaving a "
                                     "generator loop through a finally/with inside the loop or leaving two nested generator loops (finalisation order is "
                                     "reference-counting detail)",
                                     "the recorder is installed before the root call and removed after it; trace functions never raise"],
                        violations=rep.n_violations())
    return rc


def replay(path, seed):
    """re-run the cases of a replay file: prints the recorded streams of both configurations next to the expectation"""
    with open(path) as f:
        doc = json.load(f)
    progs = []
    for d in doc.get("cases", []):
        p = d.get("case", {}).get("p")
        if p:
            progs.append([{"k": f["k"], "sk": f["sk"], "at": f["at"], "ch": f["ch"], "d": 1} for f in p])
    if not progs:
        core.die("no program in %s" % path)
    pfile = os.path.join(core.subdir("c45"), "progs.ndjson")
    core.write_ndjson(pfile, progs)
    r, cases, skipped = tlc_cases("TraceEvents_given_t", 2, 900, {"PROGS": pfile})
    rep = core.Reporter(PROP)
    tot, st, cov = collections.Counter(), collections.Counter(), {"tlc": []}
    rec, status = replay_cases(cases, rep, random.Random(seed), 50, 4, cov, [], tot, st)
    for rid, (who, pid, c, s) in status.items():
        if who != "P":
            print(who, lt.prog_src(c), s)
            print("   expected", lt.spec_views(c)["proj"])
            print("   recorded", rec[rid]["ev"])
    return rep.finish()
