"""C20 — operands and targets are evaluated left to right, exactly once.

spec/EvalOrder.tla: an expression/assignment AST language whose leaves are logging calls and whose
values are logging objects (every protocol call -- __getitem__, __setitem__, __getattr__,
__setattr__, __call__, __bool__, __add__/__radd__/__iadd__, __neg__, __lt__/__gt__,
__contains__, __format__, __iter__ -- logs itself and the repr of what it receives).  TLC
explores root -> AST -> (typing, all-truthy) -> one changed leaf outcome at a time (falsy /
raise), i.e. every canonical outcome vector of every AST, with the expected log in the state;
invariants state the property on the model (at most once, stop at the raise, everything
evaluated without short-circuit forms, source order for regular expressions, rhs before
targets, targets left to right, augmented-assignment order, all operands of a membership test
over a display before its first comparison).  Membership tests over tuple/list/set displays use
equality-aware logging objects (== logged as an unordered pair, equal = both falsy).
Binding B1, three-way: every published AST x typing is rendered as a Python function; P = the
generated module exec'd by CPython, C = the same module compiled by Cython from the snapshot
(typed leaves are calls of a cfunc returning a C int).  Every published outcome vector is run
in child processes; log + exception type must equal the spec's (S != P -> exit 2).
"""
import collections
import concurrent.futures
import json
import os
import random
import re
import time

import core
import lib_evalorder as le

PROP = "C20"
CFG = {"quick": ("EvalOrder_quick", 24), "thorough": ("EvalOrder_thorough", 6)}
BATCH = 220          # functions per generated module
ALL_FORMS = {"getitem", "slice", "getattr", "add", "neg", "lt", "lt3", "in", "notin", "and", "or", "not", "cond",
             "tuple", "list", "set", "dict1", "dict2", "fstr", "fspec", "ret", "assign", "aug", "unpack",
             "tN", "tsub", "tattr", "tslice", "inlit", "notinlit"}

_FRESH = re.compile(r"V5\d{4}")
_IDX_EV = re.compile(r"\.(getitem|setitem)\(")


def _bintnorm(log):
    """True/False -> 1/0 inside the index part of getitem/setitem events"""
    out = []
    for ev in log:
        if _IDX_EV.search(ev):
            head, _, args = ev.partition("(")
            if ".setitem" in head:      # only the key, not the stored value
                key, sep, val = args.rpartition(", ")
                key = key.replace("True", "1").replace("False", "0")
                ev = head + "(" + key + sep + val
            else:
                ev = head + "(" + args.replace("True", "1").replace("False", "0")
        out.append(ev)
    return out


def collapse(log):
    """not observed: an immediately repeated truth test of the same object ((a or b) or c tests a twice in CPython)"""
    out = []
    for ev in log:
        if out and ev == out[-1] and ev.endswith(".bool()"):
            continue
        out.append(ev)
    return out


_EQ_EV = re.compile(r"V\d+\.eq\(")


def observe(c, got):
    """the observation of one case.  Membership in a SET display: CPython hashes (which elements get compared, and
    when, is unspecified; Cython compares one by one) -- the == events are not part of the observation there
    (the spec does not log them), the evaluation of the operands and the result are."""
    if isinstance(got, str) or not c.get("_setmem"):
        return got
    return [[ev for ev in got[0] if not _EQ_EV.match(ev)], got[1]]


def _msd(a, b):
    ca, cb = collections.Counter(a), collections.Counter(b)
    return sum(((ca - cb) + (cb - ca)).values())


def _ids(log):
    return [_FRESH.sub("V#", ev) for ev in log]


def _digits(p):
    d = []
    while p:
        d.append(p % 8)
        p //= 8
    return d[::-1]


def features(ast, ty, log=(), exc=""):
    """spec-side case features beyond lib_evalorder.descriptor (from the AST, the typing and the EXPECTED log)"""
    f = {"method_call_args": False, "aug_target": "", "cmp_chain_raise_in_later_operand": False}
    # the leaf that raises (spec side) lies in the third operand of an object-typed comparison chain
    if exc and log and re.match(r"L\d+$", log[-1]):
        q = _digits(int(log[-1][1:]))

        def walk3(e, p, dp):
            if e["t"] == "lt3" and le.ctype(e, p, ty) == "obj" and q[:len(dp) + 1] == dp + [3]:
                return True
            return any(walk3(c, 8 * p + j, dp + [j]) for j, c in enumerate(e["a"], 1))
        f["cmp_chain_raise_in_later_operand"] = walk3(ast, 0, [])

    def walk(e):
        if e["t"] == "call" and e["a"][0]["t"] == "getattr" and len(e["sig"]) > 0 and set(e["sig"]) <= {"p", "k"}:
            f["method_call_args"] = True
        for c in e["a"]:
            walk(c)
    walk(ast)
    # a tuple display of C-typed elements (a ctuple for Cython) in a truth test or as a slice bound
    def ctup(e, p):
        return e["t"] == "tuple" and all(le.ctype(c, 8 * p + j, ty) != "obj" for j, c in enumerate(e["a"], 1))

    def walk2(e, p, table):
        r = any(ctup(e["a"][j - 1], 8 * p + j) for j in table.get(e["t"], []))
        return r or any(walk2(c, 8 * p + j, table) for j, c in enumerate(e["a"], 1))
    truth = {"and": [1], "or": [1], "not": [1], "cond": [2]}
    f["ctuple_truth_test"] = walk2(ast, 0, truth)
    f["ctuple_scalar_use"] = f["ctuple_truth_test"] or walk2(ast, 0, {"slice": [2, 3], "tslice": [2, 3]})
    if ast["t"] == "aug":
        tg = ast["a"][0]
        f["aug_target"] = "%s(%s)" % (tg["t"], tg["a"][0]["t"]) if tg["a"] else tg["t"]
    return f


def analyse(desc, want, got):
    """-> list of obs_class, one per separately recognisable difference (empty: equal).
    obs_class is computed from the observation; the matchers combine it with spec-side descriptor fields."""
    if isinstance(got, str):
        if desc.get("cmp_chain_raise_in_later_operand"):
            return ["wrong-after-double-decref"]     # undefined behaviour predicted for this case: a crash is one of its forms
        return ["crash" if got.startswith("CRASH") else "timeout"]
    w, wexc = collapse(want[0]), want[1]
    g, gexc = collapse(got[0]), got[1]
    if (w, wexc) == (g, gexc):
        return []
    classes = []
    if desc.get("cmp_chain_raise_in_later_operand"):
        return ["wrong-after-double-decref"]
    if desc.get("ctuple_truth_test"):
        # the truth test was replaced by a constant: operands of the tuple are never evaluated
        lw = {ev for ev in w if re.match(r"L\d+$", ev)}
        lg = {ev for ev in g if re.match(r"L\d+$", ev)}
        if lg < lw and gexc in ("", wexc):
            return ["ctuple-truth-test-folded"]
    # (1) bool index arriving as int
    wb, gb = _bintnorm(w), _bintnorm(g)
    if _msd(wb, gb) < _msd(w, g):
        classes.append("index-arrives-as-int")
        w, g = wb, gb
    if (w, wexc) == (g, gexc):
        return classes
    # (2) container of an augmented attribute target evaluated a second time right before the store
    if wexc == gexc == "" and len(g) == len(w) + 1 and len(g) >= 3:
        extra = g[-2]
        gi = _ids(g[:-2] + g[-1:])
        if (".getattr(" in extra or ".getitem(" in extra) and _ids([extra])[0] in _ids(g[:-2]) and gi == _ids(w):
            classes.append("target-container-evaluated-twice")
            return classes
    # (3) attribute lookup of a method call happens after the arguments were evaluated
    if wexc == gexc:
        strip = lambda lg: [ev for ev in _ids(lg) if not ev.endswith(".getattr(at)")]
        ga = [i for i, ev in enumerate(g) if ev.endswith(".getattr(at)")]
        wa = [i for i, ev in enumerate(w) if ev.endswith(".getattr(at)")]
        if strip(w) == strip(g) and len(ga) <= len(wa) and (len(ga) < len(wa) or any(i + 1 < len(g) and ".call(" in g[i + 1] for i in ga)):
            classes.append("attr-lookup-after-args")
            return classes
    # residual
    if gexc != wexc:
        classes.append("exception:%s-instead-of-%s" % (gexc or "none", wexc or "none"))
        return classes
    lw = [ev for ev in w if re.match(r"L\d+$", ev)]
    lg = [ev for ev in g if re.match(r"L\d+$", ev)]
    if lw != lg:
        classes.append("leaf-order" if sorted(lw) == sorted(lg) else "leaf-set")
    else:
        classes.append("protocol-log")
    return classes


def group_cases(cases):
    groups = collections.OrderedDict()
    for c in cases:
        groups.setdefault((json.dumps(c["ast"], sort_keys=True), c["ty"]), []).append(c)
    return list(groups.items())


def make_modules(items, prefix):
    mods = []
    for b in range(0, len(items), BATCH):
        funcs, work, idx = [], [], []
        for n, ((_, ty), cs) in enumerate(items[b:b + BATCH], b):
            name = "f%d_%s" % (n, ty)
            funcs.append((name, le.function(name, cs[0]["ast"], ty)))
            work.append([name, [list(zip(c["lp"], c["out"])) for c in cs]])
            idx.append(cs)
        mods.append({"name": "%s%d" % (prefix, b // BATCH), "funcs": funcs, "work": work, "idx": idx})
    return mods


def module_source(m, skip=()):
    return "\n".join([le.MOD_HEADER] + [src for name, src in m["funcs"] if name not in skip])


_RE_CC_FN = re.compile(r"In function .__pyx_\w*?\d(f\d+_[OIM])\W")
_RE_CY_ERR = re.compile(r"\.py:(\d+):\d+: (.*)")


def failing_functions(m, b, skip):
    """functions of module m that the failed build b blames: {name: message}"""
    out = {}
    if b.stage == "cc":
        cur = None
        for line in b.errors.splitlines():
            mm = _RE_CC_FN.search(line)
            if mm:
                cur = mm.group(1)
            elif " error: " in line and cur:
                out.setdefault(cur, line.split(" error: ", 1)[1][:200])
    elif b.stage == "cython":
        # map error lines to functions through the line numbers of the generated source
        starts = []
        for i, line in enumerate(module_source(m, skip).splitlines(), 1):
            if line.startswith("def f"):
                starts.append((i, line[4:line.index("(")]))
        for line in b.errors.splitlines():
            mm = _RE_CY_ERR.search(line)
            if mm and not line.startswith("warning"):
                ln = int(mm.group(1))
                owner = [n for s0, n in starts if s0 <= ln]
                if owner:
                    out.setdefault(owner[-1], mm.group(2)[:200])
    return out


def build_robust(mods, jobs=None):
    """build every module; functions that make a module fail are dropped (and reported) and the module rebuilt"""
    pending = list(range(len(mods)))
    builds = [None] * len(mods)
    for m in mods:
        m["dropped"] = {}
    for rnd in range(6):
        if not pending:
            break
        bs = core.build_many([core.BuildSpec(mods[i]["name"], module_source(mods[i], mods[i]["dropped"]), kind="py",
                                             options={"language_level": 3}) for i in pending],
                             workdir=core.subdir("build%d" % rnd), jobs=jobs, timeout=3600)   # 220 functions per module: > 900 s at machine load 300
        nxt = []
        for i, b in zip(pending, bs):
            builds[i] = b
            if not b.ok:
                blamed = failing_functions(mods[i], b, mods[i]["dropped"])
                if blamed and b.stage in ("cc", "cython"):
                    for k, v in blamed.items():
                        mods[i]["dropped"][k] = (b.stage, v)
                    nxt.append(i)
        pending = nxt
    return builds


def vacuity(cases):
    cnt = collections.Counter()
    seen_forms = set()
    for c in cases:
        cnt["stmt:" + c["ast"]["t"]] += 1
        cnt["typing:" + c["ty"]] += 1
        if c["exc"]:
            cnt["raise"] += 1
        elif sum(1 for ev in c["log"] if re.match(r"L\d+$", ev)) < len(c["lp"]):
            cnt["short-circuit-skip"] += 1
        if "F" in c["out"]:
            cnt["falsy-leaf"] += 1
        le.forms(c["ast"], seen_forms)
        top = c["ast"]["a"][0] if c["ast"]["t"] == "ret" else None
        if top is not None and top["t"] in le.MEMBER:
            cnt["member:" + top["k"]] += 1
            n = len(top["a"]) - 1
            if all(x["t"] == "L" for x in top["a"]) and not c["exc"] and c["out"][0] == "F":
                # both falsy = equal: an element before the last one already matches, the rest must be evaluated all the same
                if "F" in c["out"][1:n]:
                    cnt["member-early-match:" + top["k"]] += 1
                elif c["out"][n] == "F":
                    cnt["member-last-match"] += 1
            if any(_EQ_EV.match(ev) for ev in c["log"]):
                cnt["member-eq-observed"] += 1
    base = {f.split(":")[0] for f in seen_forms}
    # target kinds belong to the sub-sampled statement families: a small sample may lack one of them
    missing = (ALL_FORMS | {"call", "L", "N"}) - base - {"tN", "tslice", "tattr"}
    need = ["stmt:ret", "stmt:assign", "stmt:aug", "stmt:unpack", "typing:O", "typing:I", "typing:M", "raise",
            "short-circuit-skip", "falsy-leaf", "member:tuple", "member:list", "member:set", "member-early-match:tuple",
            "member-early-match:list", "member-early-match:set", "member-last-match", "member-eq-observed"]
    lacking = [k for k in need if cnt[k] == 0]
    return cnt, sorted(seen_forms), sorted(missing), lacking


def run(tier, seed):
    t0 = time.time()
    rng = random.Random(seed)
    rep = core.Reporter(PROP)
    cfg, mod = CFG[tier]
    workers = int(os.environ.get("VERIF_TLC_WORKERS", "0")) or None

    # ---- model checking: every case is a state that carries its expected log
    r = core.tlc_or_die("EvalOrder", cfg=cfg, timeout=1500 if tier == "quick" else 6000, workers=workers,
                        env={"C20_REM": seed % mod})
    cases = r.printed
    cov = {"tlc": [dict(r.summary(), config=cfg, rem=seed % mod)]}
    del r.out
    for c in cases:
        c["_setmem"] = any(m["k"] == "set" for m in le.members(c["ast"]))
    items = group_cases(cases)
    n_ast = len({k for (k, _), _ in items})
    if not cases or len(cases) != r.distinct - 1 - n_ast:
        core.die("EvalOrder published %d cases for %d distinct states and %d ASTs" % (len(cases), r.distinct, n_ast))
    cnt, seen_forms, missing, lacking = vacuity(cases)
    if missing or lacking:
        core.die("vacuous model run: forms never generated %s, case classes without cases %s" % (missing, lacking))

    # ---- render; P leg (CPython executes the generated modules)
    mods = make_modules(items, "c20m")
    wd = core.subdir("c20p")
    le.write_runtime(wd)

    def p_leg(m):
        path = os.path.join(wd, m["name"] + ".py")
        with open(path, "w") as f:
            f.write(module_source(m))
        return le.run_work(wd, "P", path, m["work"], "p_" + m["name"])

    jobs = min(8, core.NCPU)
    with concurrent.futures.ThreadPoolExecutor(jobs) as ex:
        fut_p = [ex.submit(p_leg, m) for m in mods]
        # ---- C leg: build from the snapshot while P runs
        builds = build_robust(mods)
        resP = [f.result() for f in fut_p]

    n_drift = 0
    for m, res in zip(mods, resP):
        for cs, rs, w in zip(m["idx"], res, m["work"]):
            for k, c in enumerate(cs):
                got = observe(c, rs if isinstance(rs, str) else rs[k])
                if got != [c["log"], c["exc"]]:      # S must equal CPython literally (incl. repeated truth tests)
                    n_drift += 1
                    rep.spec_drift("EvalOrder vs CPython", {"source": le.stmt(c["ast"], c["ty"])[0], "out": c["out"],
                                                            "spec": [c["log"], c["exc"]], "cpython": got})
    bad = [(m, b) for m, b in zip(mods, builds) if not b.ok]
    for m, b in bad:
        rep.disagree({"stmt": "*", "form": "build", "typing": "*", "raises": False, "bint_index": False}, "build-failed",
                     {"module": m["name"], "stage": b.stage, "errors": b.errors[-3000:]})

    def c_leg(mb):
        m, b = mb
        if not b.ok:
            return None
        d = os.path.dirname(b.so)
        le.write_runtime(d)
        keep = [i for i, w in enumerate(m["work"]) if w[0] not in m["dropped"]]
        # cases in which the model predicts undefined behaviour of the compiled code (KF-C20-5) run in a child of their own
        hz = {i: [k for k, c in enumerate(m["idx"][i]) if features(c["ast"], c["ty"], c["log"], c["exc"])["cmp_chain_raise_in_later_operand"]]
              for i in keep}
        safe = [[m["work"][i][0], [v for k, v in enumerate(m["work"][i][1]) if k not in hz[i]]] for i in keep]
        res = le.run_work(d, "C", b.so, safe, "c_" + m["name"])
        hkeep = [i for i in keep if hz[i]]
        hres = le.run_work(d, "C", b.so, [[m["work"][i][0], [m["work"][i][1][k] for k in hz[i]]] for i in hkeep], "h_" + m["name"], timeout=180) if hkeep else []
        full = [None] * len(m["work"])
        for i, r0 in zip(keep, res):
            if isinstance(r0, str):
                full[i] = r0
                continue
            it = iter(r0)
            full[i] = [None if k in hz[i] else next(it) for k in range(len(m["work"][i][1]))]
        for i, r0 in zip(hkeep, hres):
            if isinstance(full[i], str):
                continue
            for n, k in enumerate(hz[i]):
                full[i][k] = r0 if isinstance(r0, str) else r0[n]
        return full

    with concurrent.futures.ThreadPoolExecutor(jobs) as ex:
        resC = list(ex.map(c_leg, zip(mods, builds)))

    n_eval = n_agree = n_dropped = 0
    nontrivial = set()
    ok_samples = []
    classes = collections.Counter()
    for m, res in zip(mods, resC):
        if res is None:
            continue
        for cs, rs, w in zip(m["idx"], res, m["work"]):
            if rs is None:      # the function was dropped from the module: Cython or the C compiler rejected it
                stage, msg = m["dropped"][w[0]]
                c = cs[0]
                desc = le.descriptor(c["ast"], c["ty"], "")
                desc.update(features(c["ast"], c["ty"]))
                oc = "invalid-c" if stage == "cc" else "cython-error"
                classes[oc] += 1
                n_dropped += 1
                rep.disagree(desc, oc, {"source": le.stmt(c["ast"], c["ty"])[0], "typing": c["ty"], "stage": stage, "message": msg,
                                        "ast": c["ast"]})
                continue
            for k, c in enumerate(cs):
                got = observe(c, rs if isinstance(rs, str) else rs[k])
                want = [c["log"], c["exc"]]
                n_eval += 1
                if len(c["lp"]) >= 2:
                    nontrivial.add((w[0], "".join(c["out"])))
                if not analyse({}, want, got):
                    n_agree += 1
                    if len(ok_samples) < 2000:
                        ok_samples.append((c, got))
                    continue
                desc = le.descriptor(c["ast"], c["ty"], c["exc"])
                desc.update(features(c["ast"], c["ty"], c["log"], c["exc"]))
                for oc in analyse(desc, want, got):
                    classes[oc] += 1
                    rep.disagree(desc, oc, {"source": le.stmt(c["ast"], c["ty"])[0], "typing": c["ty"], "leaf_paths": c["lp"],
                                            "outcomes": c["out"], "want": want, "got": got, "ast": c["ast"]})

    # ---- binding demonstration: corrupted expectations must be rejected by the same comparison
    st = {"corrupted": 0, "rejected": 0}
    for c, got in core.sample(ok_samples, 60, rng):
        for bad_want in ([list(reversed(c["log"])), c["exc"]] if len(c["log"]) > 1 and c["log"] != list(reversed(c["log"])) else None,
                         [c["log"], "LeafErr" if not c["exc"] else ""], [c["log"][:-1], c["exc"]]):
            if bad_want is None:
                continue
            st["corrupted"] += 1
            if analyse({}, bad_want, got):
                st["rejected"] += 1
    if st["corrupted"] == 0 or st["corrupted"] != st["rejected"]:
        core.die("binding self-test failed: %r" % st)

    samples = [{"source": le.stmt(c["ast"], c["ty"])[0], "typing": c["ty"], "outcomes": dict(zip(map(str, c["lp"]), c["out"])),
                "expected_log": c["log"], "expected_exc": c["exc"], "compiled": got} for c, got in core.sample(ok_samples, 4, rng)]
    cov.update({
        "states": r.generated, "distinct_states": r.distinct, "transitions": r.generated,
        "traces_validated_against_impl": n_eval, "evaluations": n_eval, "agreeing": n_agree,
        "distinct_nontrivial": len(nontrivial), "asts": n_ast, "functions_compiled": len(items), "modules": len(mods),
        "cpython_leg_drift": n_drift, "functions_rejected_by_compiler": n_dropped, "case_classes": dict(cnt), "forms_seen": seen_forms,
        "difference_classes": dict(classes), "selftest": st,
        "rule": "every canonical outcome vector (T/F/R per leaf; unevaluated leaves fixed to T) of every selected AST x typing "
                "{O,I,M}; one-level expressions all, two-level expressions and statements sub-sampled by structural hash %% %d = seed; "
                "non-trivial = distinct (function, outcome vector) with at least two leaves" % mod,
        "samples": samples,
    })
    rc = rep.finish()
    cov["known_findings"] = rep.kf_summary()
    core.write_evidence(PROP, tier, seed, "model_checking", cov, time.time() - t0,
                        assumptions=["protocol methods of the logging class return fresh objects that inherit the receiver's truth value",
                                     "__hash__/__eq__ calls made by dict/set displays are not observed (timing unspecified); membership in a set display: == events not observed",
                                     "== of the equality-aware logging objects is observed as an unordered pair (CPython asks the element, Cython the tested value)",
                                     "exception type only; typed leaves are cfunc calls returning C int (values are small, no overflow)",
                                     "unevaluated leaves get outcome T (canonical vectors)"],
                        violations=rep.n_violations())
    return rc
