"""C11 — emitted C string literals denote exactly the original bytes.

Records -> verdict (function-style trace validation): the real
StringEncoding.escape_byte_string / split_string_literal / escape_char /
BytesLiteral.as_c_string_literal and Code._write_cstring_const (pure Python,
from the snapshot of the working tree) are run on every input of the domain;
spec/CLiteral.tla (a scanner following the ISO C translation phases) reads every
emitted text and TLC decides whether it denotes the input bytes.

S = CLiteral.tla, P = gcc -std=c11 -trigraphs -pedantic-errors reading the same
text (sample of the compiler's texts + synthetic texts that exercise the rules
the compiler never uses), C = the text written by the code in /repo.
"""
import json
import os
import random
import sys
import threading
import time

import core
import lib_cliteral as L

PROP = "C11"

ACTIONS = ["Trigraph", "Splice", "SkipWs", "OpenQuote", "Punct", "CloseQuote", "Plain", "Backslash",
           "SimpleEsc", "OctStart", "OctDigit", "OctEnd", "HexStart", "HexDigit", "HexEnd",
           "Finish", "NonPortable", "Reject"]

# texts whose reading ISO C leaves to the implementation: the spec must say "np"
NP_TEXTS = [("str", '"a\x80"'), ("str", '"\x7f"'), ("str", '"a\x01b"'), ("str", '"\\u00e9"'), ("str", '"\\U000000e9"'),
            ("chr", "'ab'"), ("chr", "'\xff'"), ("arr", "{'a','bc'}"), ("str", '"a\rb"')]


# ---------------------------------------------------------------------------
# jobs for the real code


def build_jobs(tier, rng):
    quick = tier == "quick"
    jobs = []

    def add(form, family, data=None, **kw):
        j = {"id": len(jobs), "form": form, "family": family}
        if data is not None:
            j["hex"] = data.hex()
            j["expect"] = list(data)
        j.update(kw)
        jobs.append(j)
        return j

    A = L.ALPHABET
    short = [b""] + [bytes([a]) for a in A] + [bytes([a, b]) for a in A for b in A]
    n_le2 = len(short)
    all3 = [bytes([a, b, c]) for a in A for b in A for c in A]
    if quick:
        short += rng.sample(all3, 7000)
    else:
        short += all3
    for i, s in enumerate(short):
        add("lit", "short", s)
        if i < n_le2 or i % 4 == 0:
            add("const", "short", s)
        if s and (i < n_le2 or i % 4 == 1):
            add("arrforce", "short", s)
        for lim in L.SMALL_LIMITS_SHORT:
            if len(s) >= 2 and (i < n_le2 or (i + lim) % (3 if quick else 4) == 0):
                add("split", "short", s, limit=lim)

    for b in range(256):
        add("char", "char", bytes([b]))
    for u in ("", "abc", "héllo ?? \\", "€\"'", "\U0001F600??=", "\x7f\x80\xff", "퟿"):
        add("ustr", "unicode", ustr=u, expect=list(u.encode("utf8")))

    cores = L.adversarial_cores()
    shift = rng.randrange(12)      # quick: which alignments are taken depends on the seed
    # every alignment of every core relative to a small chunk limit
    for ci, core_ in enumerate(cores):
        for lim in L.SMALL_LIMITS_ADV:
            if quick and (ci + lim + shift) % 3:
                continue
            for pre in range(0, lim + 2):
                add("split", "adv-small", b"a" * pre + core_ + b"zz" + core_, limit=lim, core=core_.hex())
    for core_ in cores:
        add("arrforce", "adv-array", b"a" + core_ + b"z" + core_, core=core_.hex())
    # ... and relative to the real limit of 2000 characters, through the two real emitters
    offs = range(1984, 2002)
    for ci, core_ in enumerate(cores):
        for oi, pre in enumerate(offs):
            if (ci + oi + shift) % (12 if quick else 3):
                continue
            data = b"a" * pre + core_ + b"b" * 7 + core_
            add("const" if (ci + oi) % 2 else "lit", "adv-2000", data, core=core_.hex())
    # second chunk end: filler so that another core meets offset ~4000 of the escaped text
    for ci, core_ in enumerate(cores):
        if (ci + shift) % (12 if quick else 3):
            continue
        for pre in (1993, 1996, 1998, 1999):
            data = b"a" * pre + core_ + b"c" * (1990 - len(core_)) + core_ + core_ + b"d" * 9 + core_
            add("const", "adv-4000", data, core=core_.hex())
    # long runs of backslashes (the `end == start` branch of split_string_literal)
    runs = list(range(996, 1004)) + [1500, 1999, 2000, 2001, 2998, 3001]
    if quick:
        runs = [997, 998, 999, 1000, 1001, 1002, 2001, 2998]
    for n in runs:
        for pre in (0, 1, 2, 3):
            add("lit" if pre % 2 else "const", "bsrun", b"x" * pre + b"\\" * n + b'"q', run=n)
    for lim in L.SMALL_LIMITS_ADV:
        for n in range(lim // 2 - 3, lim + 3):
            for pre in (0, 1, 2):
                add("split", "bsrun-small", b"x" * pre + b"\\" * max(n, 1) + b"n", limit=lim, run=n)
    # random long strings, heavy in special characters
    for _ in range(40 if quick else 200):
        add("const" if rng.random() < 0.5 else "lit", "random-long", L.weighted_random_bytes(rng, rng.randint(700, 2600)))
    for _ in range(300 if quick else 6000):
        add("split", "random-small", L.weighted_random_bytes(rng, rng.randint(4, 40)), limit=rng.choice(L.SMALL_LIMITS_ADV))
    # the table of large integer constants: digits 0-7 follow the \000 separators
    b32 = "0123456789abcdefghijklmnopqrstuv"
    for _ in range(30 if quick else 150):
        digits, total = [], 0
        target = rng.randint(1900, 4300)
        while total < target:
            d = ("-" if rng.random() < 0.2 else "") + "".join(rng.choice(b32[:8] if rng.random() < 0.5 else b32)
                                                               for _ in range(rng.randint(1, 30)))
            digits.append(d)
            total += len(d) + 4
        add("numtab", "numtab", digits=digits, expect=list(b"\0".join(d.encode() for d in digits)))
    # >= 64K: the character-array branch for MSVC
    pat = bytes(range(256)) + b'??=\\\\"\'\\n\\0007' + b"plain text " * 8
    dense = bytes(range(128, 256)) + bytes(range(0, 32)) + b'??="\\\''     # ~3.9 characters per byte when escaped
    add("cconst", "huge", (dense * 110)[:17000])              # escaped length >= 65536 with few array elements
    if not quick:
        add("cconst", "huge", (pat * 120)[:30000])
        add("const", "huge", (b"abcdefghij" * 40 + pat)[:700] * 94)   # 65800 bytes
        add("const", "huge", (pat * 200)[:65535])             # just below the threshold: one literal only
        add("const", "huge", L.weighted_random_bytes(rng, 65536))   # exactly at the threshold
        add("cconst", "huge", L.weighted_random_bytes(rng, 30000))
    return jobs


def run_real_code(jobs, wd):
    inf = os.path.join(wd, "jobs.ndjson")
    outf = os.path.join(wd, "out.ndjson")
    core.write_ndjson(inf, [{k: v for k, v in j.items() if k != "expect"} for j in jobs])
    ch = core.run_child(L.CHILD, [inf, outf], with_snapshot=True, timeout=1500, mem_mb=8192)
    return ch, (core.read_ndjson(outf) if os.path.exists(outf) else [])


# ---------------------------------------------------------------------------
# TLC


def run_tlc(records, wd, cov, tag, workers=None):
    """Judge records with CLiteral.tla.  Returns {id: verdict record} for the non-ok ones."""
    verdicts = {}
    chunks, cur, size = [], [], 0
    for r in records:
        cur.append(r)
        size += len(r["text"]) + len(r["expect"])
        if len(cur) >= 120000 or size > 12000000:
            chunks.append(cur)
            cur, size = [], 0
    if cur:
        chunks.append(cur)
    for ci, chunk in enumerate(chunks):
        f = os.path.join(wd, "records_%s_%d.ndjson" % (tag, ci))
        core.write_ndjson(f, chunk)
        t = core.tlc_or_die("CLiteral", cfg="CLiteral", env={"RECORDS": f}, timeout=3000, coverage=True, heap="12g", dfs=True,
                            workers=workers)
        done = sum(t.coverage.get(a, (0, 0))[1] for a in ("Finish", "NonPortable", "Reject"))
        if done != len(chunk):
            sys.stderr.write(t.out[-3000:])
            core.die("CLiteral.tla finished %d of %d records" % (done, len(chunk)))
        for pr in t.printed:
            verdicts[pr["id"]] = pr
        for a in ACTIONS:
            c = t.coverage.get(a, (0, 0))
            old = cov["action_coverage"].get(a, [0, 0])
            cov["action_coverage"][a] = [old[0] + c[0], old[1] + c[1]]
        cov["states"] += t.generated
        cov["distinct_states"] += t.distinct
        cov["transitions"] += t.generated
        cov["tlc"].append(t.summary())
        os.unlink(f)
    return verdicts


def excerpt(text, pos, width=120):
    a = max(0, pos - width)
    return {"from": a, "text": text[a:pos + width]}


# ---------------------------------------------------------------------------


def run(tier, seed):
    t0 = time.time()
    rng = random.Random(seed * 7919 + 11)
    rep = core.Reporter(PROP)
    quick = tier == "quick"
    wd = core.subdir("c11")
    cov = {"states": 0, "distinct_states": 0, "transitions": 0, "traces_validated_against_impl": 0,
           "evaluations": 0, "distinct_nontrivial": 0, "samples": [], "tlc": [], "action_coverage": {},
           "exhaustive": False}

    # ---- C: the real code ------------------------------------------------
    jobs = build_jobs(tier, rng)
    only = os.environ.get("VERIF_C11_FAMILIES")      # development aid: restrict the run to some input families
    if only:
        jobs = [j for j in jobs if j["family"] in only.split(",")]
        for n, j in enumerate(jobs):
            j["id"] = n
        cov["restricted_to_families"] = only
    ch, outs = run_real_code(jobs, wd)
    if ch.rc != 0 and not outs:
        sys.stderr.write(ch.err[-3000:])
        rep.disagree({"form": "any", "family": "startup", "limit": "n/a", "part": "n/a"}, "crash",
                     {"stderr": ch.err[-2000:], "timed_out": ch.timed_out})
        return finish(rep, cov, tier, seed, t0)
    by_id = {o["id"]: o for o in outs}
    records, meta = [], {}

    def desc_of(j, part):
        lim = "n/a"
        if j["form"] == "split":
            lim = "small"
        elif j["form"] in ("lit", "const", "cconst", "numtab", "ustr", "arrforce"):
            lim = "default"
        return {"form": j["form"], "family": j["family"], "limit": lim, "part": part}

    def detail_of(j):
        d = {k: v for k, v in j.items() if k not in ("expect", "hex")}
        if "hex" in j:
            d["input_hex"] = j["hex"] if len(j["hex"]) < 400 else j["hex"][:400] + "...(%d bytes)" % (len(j["hex"]) // 2)
        return d

    def add_record(kind, text, expect, role, **m):
        rid = len(records)
        records.append({"id": rid, "kind": kind, "text": L.ords(text), "expect": expect})
        m.update(role=role, kind=kind, str_text=text, expect=expect)
        meta[rid] = m
        return rid

    nontrivial = set()
    for j in jobs:
        o = by_id.get(j["id"])
        if o is None:
            rep.disagree(desc_of(j, "n/a"), "crash", {"job": detail_of(j), "note": "the child died before this job finished",
                                                      "stderr": ch.err[-800:], "timed_out": ch.timed_out})
            break
        if "error" in o:
            rep.disagree(desc_of(j, "n/a"), "hang" if o["error"].startswith("Hang") else "exception",
                         {"job": detail_of(j), "error": o["error"]})
            continue
        if j["form"] in ("const", "cconst", "arrforce"):
            parts = L.parse_const(o["out"])
            if parts is None:
                rep.disagree(desc_of(j, "n/a"), "unexpected-declaration-shape", {"job": detail_of(j), "emitted": o["out"][:600]})
                continue
            want_arr = j["form"] == "arrforce" or (j["form"] == "const" and len(j["expect"]) >= 65536)
            if j["form"] != "cconst" and want_arr != (len(parts) == 2):
                rep.disagree(desc_of(j, "n/a"), "missing-char-array-branch", {"job": detail_of(j), "emitted": o["out"][:200]})
            if j["form"] == "arrforce":
                parts = [x for x in parts if x[0] == "arr"]     # the string part repeats the "const" form
        else:
            parts = [("chr" if j["form"] == "char" else "str", o["out"])]
        for kind, text in parts:
            add_record(kind, text, j["expect"], "impl", job=j)
            if "\\" in text or '""' in text[1:-1]:
                nontrivial.add((j["form"], j.get("limit"), kind, bytes(j["expect"])))
    n_impl = len(records)
    # very long texts are single long behaviours: read them in a TLC run of their own, concurrently
    long_ids = set(i for i in range(n_impl) if len(records[i]["text"]) > 30000)
    long_cov = {"states": 0, "distinct_states": 0, "transitions": 0, "tlc": [], "action_coverage": {}}
    long_box = {}

    def long_run():
        try:
            long_box["verdicts"] = run_tlc([records[i] for i in sorted(long_ids)], core.subdir("c11long"), long_cov, "long", workers=4)
        except BaseException as e:      # SystemExit from core.die included
            long_box["error"] = e

    long_thread = None
    if long_ids:
        long_thread = threading.Thread(target=long_run)
        long_thread.start()
    cov["evaluations"] = len(jobs)
    cov["distinct_nontrivial"] = len(nontrivial)

    # ---- P: gcc on a sample of the compiler's texts and on synthetic texts ----
    impl_ids = list(range(n_impl))
    heavy = [i for i in impl_ids if meta[i]["job"]["family"] != "short" and meta[i]["job"]["family"] != "random-small"]
    light = [i for i in impl_ids if meta[i]["job"]["family"] in ("short", "random-small")]
    sampled = heavy + core.sample(light, 2500 if quick else 20000, rng)
    synth = list(L.HAND_TEXTS) + [(k, t) for k, t, _ in L.random_texts(rng, 250 if quick else 3000)]
    items = [(("i", i), meta[i]["kind"], meta[i]["str_text"]) for i in sampled]
    items += [(("s", n), k, t, True) for n, (k, t) in enumerate(synth)]
    tg = time.time()
    gcc = L.gcc_read(items, os.path.join(wd, "gcc"))
    cov["gcc_wall_s"] = round(time.time() - tg, 1)
    p_of = {}
    for i in sampled:
        g = gcc.get(("i", i))
        if g is None:
            continue
        p_of[i] = g
        if g != meta[i]["expect"]:
            if isinstance(g, tuple):
                meta[i]["oracle_rec"] = add_record(meta[i]["kind"], meta[i]["str_text"], [], "oracle", want="mal", of=i)
            else:
                meta[i]["oracle_rec"] = add_record(meta[i]["kind"], meta[i]["str_text"], g, "oracle", want="ok", of=i)
    n_synth_ok = n_synth_mal = 0
    for n, (k, t) in enumerate(synth):
        g = gcc.get(("s", n))
        if g is None:
            continue
        if isinstance(g, tuple):
            add_record(k, t, [], "oracle", want="mal", gcc=g[1])
            n_synth_mal += 1
        else:
            add_record(k, t, g, "oracle", want="ok")
            n_synth_ok += 1
    for k, t in NP_TEXTS:
        add_record(k, t, [], "np-demo")
    # binding demonstration: corrupted expectations must be rejected
    pool = [i for i in range(len(records)) if meta[i]["role"] in ("impl", "oracle") and meta[i].get("want", "ok") == "ok"]
    for i in core.sample(pool, 300, rng):
        e = list(meta[i]["expect"])
        how = rng.choice(("flip", "drop", "add", "swap"))
        if how == "flip" and e:
            q = rng.randrange(len(e))
            e[q] = (e[q] + rng.choice((1, 8, 64, 128))) % 256
        elif how == "drop" and e:
            e.pop(rng.randrange(len(e)))
        elif how == "swap" and len(e) >= 2 and len(set(e)) > 1:
            q = rng.choice([x for x in range(len(e) - 1) if e[x] != e[x + 1]] or [None])
            if q is None:
                e.append(0)
            else:
                e[q], e[q + 1] = e[q + 1], e[q]
        else:
            e.insert(rng.randrange(len(e) + 1), rng.choice((0, 34, 48, 63, 92)))
        if e == meta[i]["expect"]:
            e = e + [1]
        add_record(meta[i]["kind"], meta[i]["str_text"], e, "corrupt", of=i)

    # ---- S: TLC reads every text -------------------------------------------
    verdicts = run_tlc([r for r in records if r["id"] not in long_ids], wd, cov, "main")
    if long_thread is not None:
        long_thread.join()
        if "error" in long_box:
            core.die("TLC run for the long texts failed: %r" % (long_box["error"],))
        verdicts.update(long_box["verdicts"])
        for key in ("states", "distinct_states", "transitions"):
            cov[key] += long_cov[key]
        cov["tlc"] += long_cov["tlc"]
        for a, c2 in long_cov["action_coverage"].items():
            old = cov["action_coverage"].get(a, [0, 0])
            cov["action_coverage"][a] = [old[0] + c2[0], old[1] + c2[1]]

    def v_of(rid):
        return verdicts.get(rid, {}).get("v", "ok")

    missing = [a for a in ACTIONS if cov["action_coverage"].get(a, [0, 0])[1] == 0]
    if missing:
        core.die("vacuous model: scanner steps never taken: %s" % missing)

    # machinery checks
    for rid, m in meta.items():
        if m["role"] == "corrupt" and v_of(rid) == "ok":
            core.die("binding demonstration failed: corrupted expectation accepted for %r" % (m["str_text"][:200],))
        if m["role"] == "np-demo" and v_of(rid) != "np":
            core.die("spec does not classify %r as implementation-defined (verdict %s)" % (m["str_text"], v_of(rid)))

    # failing compiler records that gcc has not read yet: read them now (second, small pass)
    failing = [i for i in range(n_impl) if v_of(i) != "ok"]
    late = [i for i in failing if i not in p_of][:2000]
    if late:
        gcc2 = L.gcc_read([(("i", i), meta[i]["kind"], meta[i]["str_text"]) for i in late], os.path.join(wd, "gcc2"))
        extra = []
        for i in late:
            g = gcc2.get(("i", i))
            if g is None:
                continue
            p_of[i] = g
            if g != meta[i]["expect"]:
                rid = len(records)
                rec = {"id": rid, "kind": meta[i]["kind"], "text": L.ords(meta[i]["str_text"]),
                       "expect": [] if isinstance(g, tuple) else g}
                records.append(rec)
                meta[rid] = {"role": "oracle", "want": "mal" if isinstance(g, tuple) else "ok", "of": i,
                             "kind": rec["kind"], "str_text": meta[i]["str_text"], "expect": rec["expect"]}
                meta[i]["oracle_rec"] = rid
                extra.append(rec)
        if extra:
            verdicts.update(run_tlc(extra, wd, cov, "late"))

    # ---- S vs P (drift guard) ----------------------------------------------
    n_sp = 0
    for rid, m in meta.items():
        if m["role"] == "oracle":
            n_sp += 1
            v = v_of(rid)
            if v == "np":
                continue          # declared: no ISO-guaranteed reading, nothing to compare
            if v != m["want"]:
                rep.spec_drift("CLiteral.tla vs gcc", {"text": m["str_text"][:300], "kind": m["kind"], "gcc": str(m.get("gcc", m["expect"]))[:300],
                                                       "spec_verdict": verdicts.get(rid)})
    for i, g in p_of.items():
        v = v_of(i)
        n_sp += 1
        if g == meta[i]["expect"] and v not in ("ok", "np"):
            rep.spec_drift("CLiteral.tla rejects a text that gcc reads as the input",
                           {"text": meta[i]["str_text"][:300], "spec_verdict": verdicts.get(i)})
        if g != meta[i]["expect"] and v == "ok":
            rep.spec_drift("CLiteral.tla accepts a text that gcc reads differently",
                           {"text": meta[i]["str_text"][:300], "gcc": str(g)[:300]})
    cov["spec_vs_gcc_compared"] = n_sp
    cov["synthetic_texts"] = {"well_formed": n_synth_ok, "rejected_by_gcc_and_spec": n_synth_mal, "np": len(NP_TEXTS)}
    cov["corrupted_expectations_rejected"] = sum(1 for m in meta.values() if m["role"] == "corrupt")

    # ---- C vs S --------------------------------------------------------------
    for i in failing:
        m = meta[i]
        j = m["job"]
        pr = verdicts[i]
        obs = {"bad": "wrong-bytes", "mal": "malformed-c", "np": "non-portable-character"}[pr["v"]]
        g = p_of.get(i)
        d = desc_of(j, m["kind"])
        if pr["v"] == "np":
            d["np_char"] = pr["c"]      # the character the spec refuses to read (spec-side observation)
        rep.disagree(d, obs,
                     {"job": detail_of(j), "emitted": excerpt(m["str_text"], pr["p"] - 1), "emitted_length": len(m["str_text"]),
                      "spec": {"verdict": pr["v"], "bytes_read": pr["k"], "first_mismatch_at_byte": pr["m"], "text_position": pr["p"]},
                      "gcc_reads_as": (str(g)[:400] if g is not None else "not compiled")})
    cov["traces_validated_against_impl"] = n_impl
    cov["records_per_family"] = {}
    for i in range(n_impl):
        f = meta[i]["job"]["family"]
        cov["records_per_family"][f] = cov["records_per_family"].get(f, 0) + 1
    for fam in ("short", "adv-small", "adv-2000", "bsrun", "numtab", "char"):
        c = [i for i in range(n_impl) if meta[i]["job"]["family"] == fam]
        if c:
            i = rng.choice(c)
            cov["samples"].append({"family": fam, "form": meta[i]["job"]["form"], "limit": meta[i]["job"].get("limit", "default"),
                                   "input_hex": (meta[i]["job"].get("hex") or "")[:80], "emitted_text": meta[i]["str_text"][:160],
                                   "emitted_length": len(meta[i]["str_text"]), "spec_verdict": v_of(i)})
    cov["exhaustive"] = False
    cov["exhaustive_part"] = ("byte strings of length <= 2 over the 40 representatives in every form" if quick else
                              "byte strings of length <= 3 over the 40 representatives through as_c_string_literal")
    return finish(rep, cov, tier, seed, t0)


def finish(rep, cov, tier, seed, t0):
    rc = rep.finish()
    cov["known_findings"] = rep.kf_summary()
    cov["rule"] = ("inputs: every byte string of length <= 2 over 40 representative bytes (case split of the escaper and of the C "
                   "reading rules) through as_c_string_literal, _write_escaped_cstring_const, the character-array branch of "
                   "_write_cstring_const and split_string_literal with limits 6..12; length 3: %s; all 256 bytes through escape_char; "
                   "adversarial cores (backslash runs, ??x, digits/hex letters after escapes, quotes) at every alignment to chunk "
                   "limits 8..16 (quick: a seed-dependent third) and at %s of the 18 alignments to the real limit 2000 (first and "
                   "second chunk end, seed-dependent choice); long backslash runs; random special-heavy strings; the \\000-joined "
                   "table of large integers; strings whose (escaped) length reaches 64K (real character-array branch).  non-trivial = "
                   "distinct (form, limit, kind, input) whose emitted text contains an escape sequence or a literal split."
                   % ("seeded sample of 7000 of 64000" if tier == "quick" else "all 64000 through as_c_string_literal, a quarter through "
                      "each emitter form, 1.75 of 7 small limits each", "a twelfth" if tier == "quick" else "a third"))
    if not cov["samples"]:
        cov["samples"] = [{"note": "the real code did not produce any record"}]
    core.write_evidence(PROP, tier, seed, "model_checking", cov, time.time() - t0,
                        assumptions=["ISO C reading rules are as transcribed in spec/CLiteral.tla (cross-checked against gcc -std=c11 "
                                     "-trigraphs -pedantic-errors on the sampled and synthetic texts of this run: zero drift)",
                                     "characters outside printable ASCII/HT/VT/FF inside a literal, universal character names and "
                                     "multi-character constants are treated as not guaranteed (verdict np), not compared with gcc",
                                     "the escaping code is exercised in its pure-Python form from the working tree",
                                     "bytes outside the 40 representatives are covered at length 1 (escape_char: all 256) and in "
                                     "random/huge strings only"],
                        violations=rep.n_violations())
    return rc
