"""C10, part 2: the module string table (spec/StrTable.tla).

model   : TLC explores Add* ; Emit(algo) ; DecodeStep* exhaustively for small pools of constants (invariant ModelOK).
records : real compilations run in a child with the snapshot compiler; the constants handed to
          GlobalState.generate_pystring_constants, the blob and the compressed blobs handed to the C-literal
          writer are captured (pure-Python module globals wrapped at run time, nothing is edited), slots and length
          indices are parsed from the generated C file; TLC loads each module's table instead of the reference
          Emit and runs the same run-time decode over it; a module whose table does not satisfy Holds is a
          disagreement.  The opaque-codec assumption of the spec is validated on the emitted compressed
          blobs with zlib / bz2 (Python) and the independent LZSS decoder of lib_lzss.
"""
import bz2
import json
import os
import re
import zlib

import core
import lib_pyliteral as L

CAPTURE_CHILD = r'''
import sys, json, os
import Cython
from Cython.Compiler import Code, Options, Errors, StringEncoding
assert Code.__file__.endswith(".py") and StringEncoding.__file__.endswith(".py")
from Cython.Compiler.Main import compile as cy_compile, CompilationOptions
src, outdir = sys.argv[1], sys.argv[2]
rec = {"text": [], "bytes": [], "blobs": []}
orig = Code.GlobalState.generate_pystring_constants
def wrap(self, text_strings, byte_strings):
    rec["text"] = [[bool(i), c, list(str(t).encode("utf-8"))] for i, c, t in text_strings]
    rec["bytes"] = [[c, list(bytes(t) if isinstance(t, bytes) else str(t).encode(t.encoding or "utf-8"))] for _, c, t in byte_strings]
    return orig(self, text_strings, byte_strings)
Code.GlobalState.generate_pystring_constants = wrap
origw = Code._write_escaped_cstring_const
def wrapw(code, cstring_bytes, c_var_name):
    rec["blobs"].append([c_var_name, list(bytes(cstring_bytes))])
    return origw(code, cstring_bytes, c_var_name)
Code._write_escaped_cstring_const = wrapw
opts = CompilationOptions(compiler_directives={"language_level": 3}, output_file=os.path.join(outdir, "m.c"))
Errors.init_thread()
res = cy_compile(src, opts)
assert not res.num_errors, res.num_errors
rec["c_file"] = res.c_file
print("@@" + json.dumps(rec))
'''

_RE_DEF = re.compile(r"^#define (\w+) (\w+)\[(\d+)\]\s*$", re.M)
_RE_IDX = re.compile(r"const unsigned int length: (\d+); \} (str|bytes)_length_index\[\] = \{([^;]*)\};")


def capture(name, source, wd):
    d = os.path.join(wd, name)
    os.makedirs(d, exist_ok=True)
    src = os.path.join(d, name + ".pyx")
    with open(src, "w", encoding="utf8", newline="") as f:
        f.write(source)
    r = core.run_child(CAPTURE_CHILD, [src, d], with_snapshot=True, timeout=900)
    jl = r.json_lines()
    if r.rc != 0 or not jl:
        return None, (r.err or r.out)[-2000:]
    rec = jl[0]
    with open(rec["c_file"], errors="replace") as f:
        ctext = f.read()
    from collections import Counter
    arrays = Counter(m.group(2) for m in _RE_DEF.finditer(ctext))
    cnames = {e[1] for e in rec["text"]} | {e[0] for e in rec["bytes"]}
    tabname = next((m.group(2) for m in _RE_DEF.finditer(ctext) if m.group(1) in cnames), None)
    slots = {m.group(1): int(m.group(3)) for m in _RE_DEF.finditer(ctext) if m.group(2) == tabname}
    idx = {m.group(2): (int(m.group(1)), [int(x) for x in re.findall(r"\{(\d+)\}", m.group(3))]) for m in _RE_IDX.finditer(ctext)}
    entries = [{"c": c, "k": "u", "it": it, "s": s} for it, c, s in rec["text"]] + [{"c": c, "k": "b", "it": False, "s": s} for c, s in rec["bytes"]]
    missing = [e["c"] for e in entries if e["c"] not in slots]
    blob = [b for n, b in rec["blobs"] if n == "bytes"]
    comp = [b for n, b in rec["blobs"] if n == "cstring"]
    algos = [m.group(1) for m in L._RE_BRANCH.finditer(ctext) if m.group(1) != "none"]
    out = {"name": name, "entries": entries, "slot": [slots.get(e["c"], -1) for e in entries],
           "ulen": idx.get("str", (0, []))[1], "blen": idx.get("bytes", (0, []))[1],
           "ubits": idx.get("str", (0, []))[0], "bbits": idx.get("bytes", (0, []))[0],
           "blob": blob[0] if len(blob) == 1 else [], "n_blobs": len(blob), "missing_defines": missing,
           "compressed": list(zip(algos, comp)) if len(algos) == len(comp) else None, "arrays": dict(arrays)}
    return out, ""


def run_part(tier, seed, rep, cov, chosen, rng):
    thorough = tier == "thorough"
    w = int(os.environ.get("VERIF_C10_WORKERS", "0")) or max(2, core.NCPU // 2)
    # ---- model mode
    t = core.tlc("StrTable", cfg="StrTable_model_t" if thorough else "StrTable_model", workers=w, coverage=True, timeout=2400)
    if not t.ok:
        import sys
        sys.stderr.write(t.out[-4000:])
        core.die("TLC failed on StrTable model mode: %s" % (t.violation or t.rc))
    for a in ("Add", "Emit", "DecodeStep", "Ready"):
        if not t.coverage.get(a, (0, 0))[1]:
            core.die("vacuous StrTable model: action %s never taken" % a)
    cov["tlc"].append(dict(t.summary(), config="StrTable_model"))
    states = t.generated

    # ---- records mode: tables emitted by real compilations
    wd = core.subdir("c10table")
    consts = [c for c in chosen if c.kind in ("str", "bytes") and not any(0xD800 <= v <= 0xDFFF for v in c.val)]
    mods = []
    sizes = [12, 150, 320] + ([600, 900] if thorough else [])
    for k, n in enumerate(sizes):
        part = core.sample(consts, n, rng)
        src = "def func_%d(arg_one, arg_two=None):\n    return arg_one\n" % k
        src += "class Klass%d:\n    attr_x = 1\n" % k
        src += "V = (\n" + "".join("%s,\n" % c.text for c in part) + ")\n"
        if n >= 300:   # a compressible tail so that several codecs qualify
            src += "W = (%s)\n" % ", ".join("'%s'" % ("lorem ipsum dolor sit amet %d " % j * 3) for j in range(60))
        # the longest text / bytes constant has a length of exactly 2^k: the edge of the length index's bit field
        pw = 256 if n >= 300 else 64
        src += "P = ('%s', b'%s')\n" % ("x" * pw, "y" * pw)
        mods.append(("tab%d" % k, src, part))
    recs = []
    codec_checks = 0
    import lib_lzss
    for name, src, part in mods:
        r, err = capture(name, src, wd)
        if r is None:
            rep.disagree({"part": "table", "stage": "capture"}, "build-failed", {"module": name, "errors": err})
            continue
        desc = {"part": "table", "module_constants": len(part)}
        if r["missing_defines"] or r["n_blobs"] != 1:
            rep.disagree(desc, "table-incomplete", {"module": name, "missing_defines": r["missing_defines"][:10], "blobs": r["n_blobs"]})
            continue
        # opaque codecs of the spec: the emitted compressed blobs must decode to the blob
        for algo, data in (r["compressed"] or []):
            data = bytes(data)
            try:
                if algo == "zlib":
                    dec = zlib.decompress(data)
                elif algo == "bz2":
                    dec = bz2.decompress(data)
                elif algo == "lzss":
                    dec = lib_lzss.py_decode(data, len(r["blob"]))
                    dec = bytes(dec[2]) if isinstance(dec, tuple) else bytes(dec)
                else:
                    continue
            except Exception as e:       # noqa
                dec = "decoder raised %r" % (e,)
            codec_checks += 1
            if dec != bytes(r["blob"]):
                rep.disagree(dict(desc, algo=algo), "compressed-blob-mismatch", {"module": name, "algo": algo})
        recs.append({"id": len(recs), "name": name, "entries": [{"k": e["k"], "it": e["it"], "s": e["s"]} for e in r["entries"]],
                     "slot": r["slot"], "ulen": r["ulen"], "blen": r["blen"], "ubits": r["ubits"], "bbits": r["bbits"], "blob": r["blob"]})
    n_entries = sum(len(r["entries"]) for r in recs)
    if recs:
        path = os.path.join(wd, "records.ndjson")
        core.write_ndjson(path, recs)
        t2 = core.tlc("StrTable", cfg="StrTable_records", workers=1, env={"RECORDS": path}, timeout=2400, coverage=True)
        if not t2.ok or not t2.printed:
            import sys
            sys.stderr.write(t2.out[-4000:])
            core.die("TLC failed on StrTable records mode: %s" % (t2.violation or t2.rc))
        verdict = t2.printed[-1]
        if verdict["n"] != len(recs):
            core.die("StrTable saw %s records, expected %d" % (verdict["n"], len(recs)))
        for rid in verdict["bad"]:
            rep.disagree({"part": "table", "module_constants": len(recs[rid]["entries"])}, "table-decode-mismatch",
                         {"module": recs[rid]["name"], "records_file": path})
        # binding demonstration: a corrupted table must be rejected by the spec
        bad = json.loads(json.dumps(recs[-1]))
        bad["id"] = 0
        bad["slot"][0], bad["slot"][1] = bad["slot"][1], bad["slot"][0]
        bad2 = json.loads(json.dumps(recs[-1]))
        bad2["id"] = 1
        bad2["ulen"][0] += 1
        p2 = os.path.join(wd, "corrupt.ndjson")
        core.write_ndjson(p2, [bad, bad2])
        t3 = core.tlc("StrTable", cfg="StrTable_records", workers=1, env={"RECORDS": p2}, timeout=1200)
        if not t3.ok or not t3.printed or sorted(t3.printed[-1]["bad"]) != [0, 1]:
            core.die("StrTable accepted a corrupted table (binding self-test)")
        states += t2.generated + t3.generated
        cov["tlc"].append(dict(t2.summary(), config="StrTable_records"))
        cov["samples"].append({"string_table_of": recs[0]["name"], "constants": len(recs[0]["entries"]), "slot": recs[0]["slot"][:8],
                               "ulen": recs[0]["ulen"][:8], "blen": recs[0]["blen"][:8]})
    pow2 = sum(1 for r in recs for ix in (r["ulen"], r["blen"]) if ix and max(ix) & (max(ix) - 1) == 0)
    cov["string_table"] = {"model_states": t.generated, "real_tables_validated": len(recs), "constants_in_real_tables": n_entries,
                           "length_indices_whose_maximum_is_a_power_of_two": pow2,
                           "compressed_blobs_decoded_by_independent_codecs": codec_checks}
    cov["table_states"] = states
    cov["table_records"] = n_entries
