"""C07 - the power operator follows the documented cpow rules.

spec/Pow.tla (one TLC run, cfg Pow_q / Pow_t): (table) the five rows of docs/src/userguide/cpow_table.csv as RowMatches/RowCell,
one state per (cpow, operand a, operand b) with the demanded result class; (intpow) IntPow of
Utility/CMath.c as a step machine on scaled integer types against b^e-when-it-fits, with the
loop invariant and UB bookkeeping; (pow2) the width classes of __Pyx__PyNumber_PowerOf2;
(real) CPython's float_pow on XReal (signed zeros, infinities, nan, dyadics up to 2^+-1000)
with exceptions and the float/complex split.
Binding: B3 - cython.typeof(a ** b) compiled for every table state, compared with the demanded
class; B1 - one compiled function per selected table state, called on the cases TLC published
(integer powers, XReal pairs, 2 ** n) plus real-width boundary/random operands whose expectation
comes from CPython (P).  Where the class is the Python one (object, "real or complex") the
value/exception must equal CPython's; integer classes are exact when the result fits the observed
result type; C floating classes must show Python's float where Python has one and NaN where the
result would be complex.
"""
import concurrent.futures
import json
import math
import os
import random
import time

import calls
import core
import lib_pow as L

PROP = "C07"
N_TYPE_MODS = 1      # modules per cpow setting (more modules cost more CPU: every module re-imports the compiler and re-compiles the utility code)
N_VAL_MODS = 1
NEG_EXPS = [-1, -2, -3, -5, -8]
SMALL_BASES = [-3, -2, -1, 0, 1, 2, 3, 5, 10, 63, 64]


def iroot(n, k):
    r = int(round(n ** (1.0 / k)))
    while r ** k > n:
        r -= 1
    while (r + 1) ** k <= n:
        r += 1
    return r


def width_grid(bits, signed):
    """(b, e) pairs around the places where b ** e stops fitting a `bits`-wide type."""
    lo, hi = L.irange(bits, signed)
    out = set()
    for k in (2, 3, 4, 5, 7, 8, 10, 15, 16, 20, 21, 31, 32, 40, 62, 63, 64):
        r = iroot(hi, k)
        for b in (r - 1, r, r + 1):
            out.add((b, k))
            if signed:
                out.add((-b, k))
        if signed:
            r = iroot(-lo, k)
            out.add((-r, k))
            out.add((-r - 1, k))
    for b, e in ((2, bits - 2), (2, bits - 1), (2, bits), (-2, bits - 1), (-2, bits), (3, 20), (3, 39), (3, 40), (3, 41), (10, 9), (10, 10),
                 (10, 18), (10, 19), (10, 20), (7, 11), (7, 22), (7, 23), (hi, 1), (lo, 1), (hi, 2), (lo, 0), (hi, 0), (lo, 3)):
        out.add((b, e))
    return sorted(out)


class Model(object):
    """What TLC published."""

    def __init__(self, small, ints):
        self.table = [r for r in small if r["part"] == "table"]
        self.real = {}
        self.real_list = []
        for r in small:
            if r["part"] == "real":
                a, b = L.xreal_value(r["a"]), L.xreal_value(r["b"])
                self.real[(L.fkey(a), L.fkey(b))] = r
                self.real_list.append((a, b, r))
        self.pow2 = {r["n"]: r["path"] for r in small if r["part"] == "pow2" and r["lb"] == 64}
        self.pow2_scaled = [r for r in small if r["part"] == "pow2" and r["lb"] != 64]
        self.ints = {}
        self.int_cases = ints
        self.dead = set()
        for r in ints:
            k = (r["b"], r["e"])
            if self.ints.setdefault(k, r["v"]) != r["v"]:
                core.die("Pow.tla published two values for %r" % (k,))
            if r["dead"]:
                self.dead.add(k)
        self.xvals = sorted({a for a, _, _ in self.real_list}, key=lambda v: (L.fclass(v), v if v == v else 0))


def validate_model(m, rep, doc):
    """S vs P on everything the spec decides (drift is a machinery failure, never a verdict)."""
    n = 0
    for c in m.table:
        p, row = L.doc_class(doc, c["cpow"], c["a"], c["b"])
        n += 1
        if p != c["cls"] or row != c["row"]:
            rep.spec_drift("Pow.ResultClass vs cpow_table.csv", {"case": c, "doc": p, "doc_row": row})
    for (b, e), v in m.ints.items():
        n += 1
        if b ** e != v:
            rep.spec_drift("Pow.IntDemand vs Python ints", {"b": b, "e": e, "spec": v, "python": b ** e})
    for a, b, r in m.real_list:
        n += 1
        st, p = L.py_pow(a, b)
        py = r["py"]
        if py["k"] == "und":
            ok = True
        elif py["k"] == "err":
            ok = st == "exc" and p == py["x"]
        elif py["k"] == "complex":
            ok = st == "ok" and type(p) is complex
        else:
            ok = st == "ok" and type(p) is float and L.same_float(p, L.xreal_value(py))
        # the C view: nothing where Python raises, NaN where Python is complex, else the same float
        c = r["c"]
        if py["k"] == "err":
            ok = ok and c["k"] == "nodemand"
        elif py["k"] == "complex":
            ok = ok and c["k"] == "nan"
        else:
            ok = ok and c == py
        if not ok:
            rep.spec_drift("Pow.PyFloatPow vs CPython float **", {"a": a, "b": b, "spec": py, "c": c, "python": [st, repr(p)]})
    for nn, path in m.pow2.items():
        n += 1
        want = "one" if nn == 0 else "generic" if nn < 0 else "long" if nn <= 62 else "ull" if nn <= 63 else "lshift"
        if path != want:
            rep.spec_drift("Pow.Pow2Path at the real widths", {"n": nn, "spec": path, "expected": want})
    return n


# ---------------------------------------------------------------------------------------------
# demands


def py_operand(op, v):
    """the Python object CPython would see for this operand"""
    k = L.op_kind(op)
    if k.startswith("int-"):
        return int(v)
    if k in ("float", "float-const"):
        return float(v)
    if k == "complex":
        return complex(v)
    return v


def moderate(v, base, lim=1024):
    """finite components of moderate size (and a non-zero base)"""
    z = complex(v)
    if any(x != x or abs(x) > lim for x in (z.real, z.imag)):
        return False
    return abs(z) >= 1.0 / 1024 if base else True


def demand(m, c, rtype, av, bv):
    """-> (want, source) or None when the property has no demand for this call."""
    cls = c["cls"]
    if cls == "integer":
        if bv < 0:
            return None
        if (av, bv) in m.ints:
            v, src = m.ints[(av, bv)], "spec"
        else:
            if abs(av) > 1 and bv > 200:
                return None
            v, src = av ** bv, "python"
        bits, signed = L.TYPEOF_INT.get(rtype, (64, True))
        lo, hi = L.irange(bits, signed)
        if not lo <= v <= hi:
            return None
        return ("int", v), src
    if cls in ("double", "floating"):
        x, y = float(av), float(bv)
        rt = rtype if rtype in L.TYPEOF_FLT else "double"
        f32 = rt == "float" or "float" in (c["a"]["t"] if c["a"]["k"] == "var" else "", c["b"]["t"] if c["b"]["k"] == "var" else "")
        if f32 and not (L.is_f32(x) and L.is_f32(y)):
            return None
        r = m.real.get((L.fkey(x), L.fkey(y)))
        if r is not None and r["c"]["k"] != "und":
            if r["c"]["k"] == "nodemand":
                return None
            if r["c"]["k"] == "nan" and r["py"]["k"] == "complex" and c["row"] != 5:
                core.die("complex result outside row 5: %r" % (c,))
            v = L.xreal_value(r["c"])
            if rt == "float" and not L.is_f32(v):
                return None
            return ("float", v), "spec"
        if rt != "double":
            return None      # float / long double results: decided cases only (powf/powl round differently)
        st, p = L.py_pow(x, y)
        if st == "exc":
            return None
        if type(p) is complex:
            return ("float", math.nan), "python"
        return ("float", p), "python"
    if cls == "realorcomplex":
        x, y = float(av), float(bv)
        if "float" in (c["a"]["t"] if c["a"]["k"] == "var" else "", c["b"]["t"] if c["b"]["k"] == "var" else "") and not (L.is_f32(x) and L.is_f32(y)):
            return None
        r = m.real.get((L.fkey(x), L.fkey(y)))
        if r is not None and r["py"]["k"] != "und":
            py = r["py"]
            if py["k"] == "err":
                return ("exc", py["x"]), "spec"
            if py["k"] == "complex":
                return ("complex~", x ** y, 1e-9), "spec"     # the spec decides the type, the value is compared loosely
            return ("float", L.xreal_value(py)), "spec"
        st, p = L.py_pow(x, y)
        if st == "exc":
            return ("exc", p), "python"
        if type(p) is complex:
            if p.imag == 0:
                return None      # the documented representation shows a zero imaginary part as a float (extreme underflow only)
            return ("complex~", p, 1e-9), "python"
        return ("float", p), "python"
    pa, pb = py_operand(c["a"], av), py_operand(c["b"], bv)
    if cls == "complex":
        st, p = L.py_pow(pa, pb)
        if st == "exc" or not (moderate(pa, True) and moderate(pb, False, 16)) or not moderate(p, False, 1e30):
            return ("complextype",), "python"      # values of C complex arithmetic belong to C08; here: it is a complex
        lowp = rtype == "float complex" or "fcomplex" in (c["a"]["t"], c["b"]["t"]) or "float" in (c["a"]["t"], c["b"]["t"])
        return ("complex~", complex(p), 1e-4 if lowp else 1e-9), "python"
    # object: CPython exactly
    if isinstance(pa, int) and isinstance(pb, int) and not isinstance(pa, bool) and not isinstance(pb, bool) and abs(pa) > 1 and pb > 4096:
        return None
    st, p = L.py_pow(pa, pb)
    src = "python"
    if type(pa) is float and type(pb) is float:
        r = m.real.get((L.fkey(pa), L.fkey(pb)))
        if r is not None and r["py"]["k"] not in ("und", "complex"):
            src = "spec"
            py = r["py"]
            sp = ("exc", py["x"]) if py["k"] == "err" else ("ok", L.xreal_value(py))
            if sp[0] != st or (st == "ok" and not L.same_float(sp[1], p)) or (st == "exc" and sp[1] != p):
                core.die("spec/python disagree on %r ** %r" % (pa, pb))
    elif type(pa) is int and type(pb) is int and (pa, pb) in m.ints:
        src = "spec"
        if st != "ok" or p != m.ints[(pa, pb)]:
            core.die("spec/python disagree on %r ** %r" % (pa, pb))
    if st == "exc":
        return ("exc", p), src
    if type(p) is int and p.bit_length() > 12000:
        return None          # beyond the int <-> str conversion limit of the driver
    return ("enc", L.res_enc(p)), src


# ---------------------------------------------------------------------------------------------
# stimuli


def operand_domain(op):
    k = L.op_kind(op)
    if op["k"] != "var":
        v = L.op_const_value(op)
        return ("const", v)
    if k.startswith("int-"):
        return ("int",) + L.irange(*L.INT_RANGE[op["t"]])
    return (k,)


def int_pairs(m, c, rtype, rng, nrand):
    da, db = operand_domain(c["a"]), operand_domain(c["b"])

    def ok(dom, v):
        if dom[0] == "const":
            return v == dom[1]
        return dom[1] <= v <= dom[2]
    out = []
    seen = set()

    def add(b, e):
        if (b, e) not in seen and ok(da, b) and ok(db, e):
            seen.add((b, e))
            out.append((b, e))
    for (b, e) in m.ints:
        add(b, e)
    for b in SMALL_BASES:
        for e in NEG_EXPS:
            add(b, e)
    bits, signed = L.TYPEOF_INT.get(rtype, (64, True))
    grids = {(bits, signed), (32, True), (64, True)}
    for g in sorted(grids):
        for b, e in width_grid(*g):
            add(b, e)
    for _ in range(nrand):
        k = rng.randint(2, bits)
        b = rng.randint(-(1 << k), (1 << k))
        emax = max(1, int(bits / max(1.0, math.log2(abs(b) + 1))) + 1)
        add(b, rng.randint(0, emax))
    if da[0] == "const":
        for e in list(range(0, 70)) + [127, 128, 255]:
            add(da[1], e)
    if db[0] == "const":
        for b in list(range(-130, 131)) + [181, 182, 255, 256, 1290, 1291, 46340, 46341, 65535, 65536, 2097151, 2097152, 3037000499, 3037000500]:
            add(b, db[1])
            add(-b, db[1])
    return out


OBJ_INTS = [-3, -2, -1, 0, 1, 2, 3, 5, 10, 63, 64, 1000, 2 ** 64, -2 ** 63]
OBJ_MISC = [1j, 1 + 2j, -2 + 0j, 0j, True, False, None]
CPX_POOL = [0j, 1 + 0j, -1 + 0j, 2 + 0j, 1j, 1 + 2j, -2 + 0j, 0.5 + 0j, 3 - 1j, -0.5 - 0.5j]
POW2_EXTRA = [-1080, -1075, -1074, -1022, 255, 256, 1000, 4095]


def pool(m, op, role, other_is_obj):
    dom = operand_domain(op)
    if dom[0] == "const":
        return [dom[1]]
    if dom[0] == "int":
        vals = [int(v) for v in m.xvals if L.is_intvalued(v) and not (v == 0 and math.copysign(1, v) < 0) and dom[1] <= v <= dom[2]]
        return sorted(set(vals + [v for v in (0, 7, -7, 31, 100) if dom[1] <= v <= dom[2]]))
    if dom[0] == "float":
        vals = list(m.xvals)
        if op["t"] == "float":
            vals = [v for v in vals if L.is_f32(v)]
        return vals
    if dom[0] == "complex":
        return list(CPX_POOL)
    return list(m.xvals) + OBJ_INTS + OBJ_MISC


def is_int_int(c):
    return L.op_kind(c["a"]).startswith("int-") and L.op_kind(c["b"]).startswith("int-")


def gen_calls(m, c, rtype, rng, tier):
    """-> list of (args, av, bv) for the value function of table case c"""
    if is_int_int(c):
        pairs = int_pairs(m, c, rtype, rng, 40 if tier == "quick" else 1500)
    else:
        pa = pool(m, c["a"], "a", L.op_kind(c["b"]) == "object")
        pb = pool(m, c["b"], "b", L.op_kind(c["a"]) == "object")
        if L.case_id(c) == "i_2__v_object":
            pb = pb + sorted(m.pow2) + POW2_EXTRA + [("py", "type('IntSub', (int,), {})(5)"), "x", 2.5]
        pairs = [(a, b) for a in pa for b in pb]
        if tier != "quick" and all(L.op_kind(o) in ("float", "object", "float-const", "int-signed", "int-unsigned", "int-const", "int-const-neg") for o in (c["a"], c["b"])):
            # seeded random finite doubles (P decides)
            for _ in range(400):
                a = pa[0] if len(pa) == 1 else math.ldexp(rng.uniform(-2, 2), rng.randint(-40, 40))
                b = pb[0] if len(pb) == 1 else (float(rng.randint(-12, 12)) if rng.random() < 0.4 else rng.uniform(-6, 6))
                da, db = operand_domain(c["a"]), operand_domain(c["b"])
                if da[0] == "int":
                    a = max(da[1], min(da[2], int(a)))
                if db[0] == "int":
                    b = max(db[1], min(db[2], int(b)))
                if c["a"]["k"] == "var" and c["a"]["t"] == "float" or c["b"]["k"] == "var" and c["b"]["t"] == "float":
                    continue
                pairs.append((a, b))
    out = []
    for a, b in pairs:
        args = []
        if c["a"]["k"] == "var":
            args.append(L.arg_enc(a))
        if c["b"]["k"] == "var":
            args.append(L.arg_enc(b))
        out.append((args, a, b))
    return out


def run(tier, seed):
    t0 = time.time()
    rng = random.Random(seed)
    rep = core.Reporter(PROP)
    cov = {"tlc": []}
    core.scratch()
    core.snapshot()
    core.subdir("tlc")
    workdir = core.subdir("build")

    # ---- modules: typeof facts for every table state, value functions for the selected ones.  They are rendered from
    # the operand forms mirrored in lib_pow (so that the builds overlap with TLC); the set of states TLC publishes must
    # be exactly this set (checked below), i.e. the modules are a function of the published states.
    ex = concurrent.futures.ThreadPoolExecutor(max_workers=3)
    mirrored = L.mirrored_table_cases()
    specs = []
    type_mod = {}     # (cpow, case id) -> module
    val_mod = {}
    for cpow in (False, True):
        tag = "T" if cpow else "F"
        cases = sorted((c for c in mirrored if c["cpow"] == cpow), key=L.case_id)
        for i in range(N_TYPE_MODS):
            chunk = cases[i::N_TYPE_MODS]
            name = "c07types_%s%d" % (tag, i)
            specs.append(core.BuildSpec(name, L.types_source(chunk, cpow)))
            type_mod.update({(cpow, L.case_id(c)): name for c in chunk})
        vcases = [c for c in cases if L.wants_value_function(c)]
        for i in range(N_VAL_MODS):
            chunk = vcases[i::N_VAL_MODS]
            name = "c07val_%s%d" % (tag, i)
            specs.append(core.BuildSpec(name, "# cython: language_level=3, cpow=%s\n\n%s" % (cpow, L.value_source(chunk))))
            val_mod.update({(cpow, L.case_id(c)): name for c in chunk})
    fut_build = ex.submit(core.build_many, specs, workdir, len(specs))

    # ---- model checking (one TLC run: the one-state-per-case parts and the IntPow step machine), builds overlap
    small = tl_int = core.tlc_or_die("Pow", cfg="Pow_q" if tier == "quick" else "Pow_t", timeout=2400, workers=8 if tier == "quick" else None)
    cov["tlc"].append(dict(small.summary(), config="all parts"))
    table = [r for r in small.printed if r["part"] == "table"]
    if len(table) < 1500:
        core.die("Pow.tla published %d table cases" % len(table))

    if {(c["cpow"], L.case_id(c)) for c in table} != set(type_mod) or len(table) != len(type_mod):
        core.die("the table states published by Pow.tla are not the operand forms the modules were rendered from")
    timing = {"tlc_done_s": round(time.time() - t0, 1)}
    ints = [r for r in tl_int.printed if r["part"] == "intpow"]
    m = Model(small.printed, ints)

    # ---- vacuity guard (model only)
    from collections import Counter
    cls_count = Counter(c["cls"] for c in m.table)
    row_count = Counter(c["row"] for c in m.table)
    kind_count = Counter(r["py"]["k"] for _, _, r in m.real_list)
    path_count = Counter(m.pow2.values())
    int_count = Counter((r["w"], r["s"]) for r in ints)
    guard = {"classes": dict(cls_count), "rows": {str(k): v for k, v in row_count.items()}, "real_kinds": dict(kind_count),
             "pow2_paths": dict(path_count), "intpow_demands": {"%d%s" % (w, "s" if s else "u"): v for (w, s), v in int_count.items()},
             "intpow_dead_overflow_cases": len(m.dead), "intpow_depth": tl_int.depth}
    cov["vacuity_guard"] = guard
    if (set(cls_count) != {"integer", "double", "floating", "realorcomplex", "complex", "object"} or set(row_count) != {0, 1, 2, 3, 4, 5}
            or not {"fin", "zero", "inf", "nan", "err", "complex", "und"} <= set(kind_count)
            or set(path_count) != {"one", "generic", "long", "ull", "lshift"}
            or len(int_count) < 3 or min(int_count.values()) < 100 or not m.dead or (tl_int.depth or 0) < 7):
        core.die("vacuous model: %r" % (guard,))

    # ---- S vs P
    doc = L.read_doc_table(core.REPO)
    n_validated = validate_model(m, rep, doc)

    builds = {b.name: b for b in fut_build.result()}
    timing["builds_done_s"] = round(time.time() - t0, 1)
    ex.shutdown()
    failed = [b for b in builds.values() if not b.ok]
    if failed:
        for b in failed:
            rep.disagree({"part": "build", "module": b.name, "stage": b.stage}, "build-failed", {"errors": (b.errors or "")[-3000:]})
        rc = rep.finish()
        core.write_evidence(PROP, tier, seed, "model_checking", {"evaluations": len(failed), "distinct_nontrivial": 0, "states": small.generated,
                            "transitions": small.generated, "traces_validated_against_impl": 0,
                            "samples": [{"module": b.name, "stage": b.stage} for b in failed]}, time.time() - t0, violations=rep.n_violations())
        return rc

    # ---- B3: result types
    typeof = {}
    for name in sorted(set(type_mod.values())):
        o = calls.run_calls(builds[name], [["pow_types", [1]]], timeout=300, tag="types")[0]
        if not (isinstance(o, list) and o and o[0] == "d"):
            core.die("pow_types returned %r" % (o,))
        for k, v in o[1:]:
            typeof[(name[9] == "T", k)] = v
    n_types = 0
    type_samples = []
    for c in m.table:
        t = typeof.get((c["cpow"], L.case_id(c)))
        if t is None:
            core.die("no typeof fact for %r" % (c,))
        n_types += 1
        if t not in L.CLASS_TYPES[c["cls"]]:
            rep.disagree({"part": "type", "cpow": c["cpow"], "row": c["row"], "a": L.op_kind(c["a"]), "b": L.op_kind(c["b"]), "want": c["cls"]},
                         "class:" + L.observed_class(t), {"case": L.case_id(c), "cpow": c["cpow"], "typeof": t, "want_class": c["cls"]})
        if len(type_samples) < 3 and c["row"] in (1, 3, 5):
            type_samples.append({"cpow": c["cpow"], "expr": L.case_id(c), "row": c["row"], "class": c["cls"], "typeof": t})

    # ---- B1: values
    mods = sorted(set(val_mod.values()))
    all_calls = {k: [] for k in mods}
    meta = {k: [] for k in mods}
    n_funcs = 0
    for c in m.table:
        if not L.wants_value_function(c):
            continue
        n_funcs += 1
        rtype = typeof[(c["cpow"], L.case_id(c))]
        fn = "f_" + L.case_id(c)
        for args, av, bv in gen_calls(m, c, rtype, rng, tier):
            if c["cls"] != "object" and (av is None or bv is None or isinstance(av, (str, tuple)) or isinstance(bv, (str, tuple))
                                         or isinstance(av, bool) or isinstance(bv, bool)):
                continue
            if c["cls"] not in ("object", "complex") and (isinstance(av, complex) or isinstance(bv, complex)):
                continue
            if c["cls"] == "object" and isinstance(bv, tuple):
                d = (("enc", 32), "python")       # 2 ** IntSub(5)
            else:
                d = demand(m, c, rtype, av, bv)
            if d is None:
                continue
            want, src = d
            desc = {"part": "value", "cpow": c["cpow"], "row": c["row"], "rclass": c["cls"], "a": L.op_kind(c["a"]), "b": L.op_kind(c["b"]),
                    "a_cls": L.vclass(av), "b_cls": L.vclass(bv), "b_int": L.is_intvalued(bv), "special": bool(L.is_special(av) or L.is_special(bv)),
                    "want_kind": L.want_kind(want), "decided_by": src}
            if L.case_id(c) == "i_2__v_object" and type(bv) is int:
                desc["pow2_path"] = m.pow2.get(bv) or ("generic" if bv < 0 else "lshift" if bv > 63 else "?")
            all_calls[val_mod[(c["cpow"], L.case_id(c))]].append([fn, args])
            meta[val_mod[(c["cpow"], L.case_id(c))]].append((desc, want, rtype, av, bv))

    def run_mod(name):
        return calls.run_calls(builds[name], all_calls[name], timeout=1800, tag="val")
    with concurrent.futures.ThreadPoolExecutor(max_workers=len(mods)) as ex2:
        obs = dict(zip(mods, ex2.map(run_mod, mods)))

    timing["calls_done_s"] = round(time.time() - t0, 1)
    cov["timing"] = timing
    n_calls = n_spec = n_bad = 0
    nontriv = set()
    passing = []
    per_class = Counter()
    for mod in mods:
        for cl, (desc, want, rtype, av, bv), o in zip(all_calls[mod], meta[mod], obs[mod]):
            cpow = desc["cpow"]
            n_calls += 1
            n_spec += desc["decided_by"] == "spec"
            per_class[desc["rclass"]] += 1
            if not (desc["rclass"] == "integer" and (av in (0, 1) or bv in (0, 1))):
                nontriv.add((cpow, cl[0], json.dumps(cl[1], sort_keys=True)))
            oc = L.compare(want, o)
            if oc is None:
                if len(passing) < 2000:
                    passing.append((cpow, cl, want, o))
                continue
            n_bad += 1
            rep.disagree(desc, oc, {"cpow": cpow, "call": cl, "result_type": rtype, "want": list(want) if want[0] != "complex~" else ["complex~", repr(want[1])],
                                    "got": o})

    # ---- binding demonstration: corrupted expectations must be rejected
    demo = 0
    for cpow, cl, want, o in passing:
        if want[0] == "int":
            bad = ("int", want[1] + 1)
        elif want[0] == "float" and want[1] == want[1] and want[1] not in (math.inf, -math.inf):
            bad = ("float", -want[1] if want[1] == 0 else abs(want[1]) * 2 + 3)
        elif want[0] == "exc":
            bad = ("exc", "KeyError")
        else:
            continue
        if L.compare(bad, o) is None:
            core.die("binding self-test failed: %r accepted for %r" % (bad, cl))
        demo += 1
    if demo < 50:
        core.die("binding self-test exercised only %d cases" % demo)

    srng = random.Random(seed + 1)
    samples = list(type_samples)
    for mod in mods:
        idx = srng.sample(range(len(all_calls[mod])), min(1, len(all_calls[mod])))
        samples += [{"cpow": meta[mod][i][0]["cpow"], "call": all_calls[mod][i], "want": repr(meta[mod][i][1]), "got": obs[mod][i],
                     "decided_by": meta[mod][i][0]["decided_by"]} for i in idx]
    cov.update({
        "states": small.generated, "distinct_states": small.distinct,
        "transitions": small.generated,
        "traces_validated_against_impl": n_calls + n_types,
        "evaluations": n_calls + n_types, "distinct_nontrivial": len(nontriv) + n_types,
        "spec_vs_python_cases": n_validated, "typeof_facts": n_types, "value_functions": n_funcs, "value_calls": n_calls,
        "value_calls_decided_by_spec": n_spec, "value_calls_decided_by_python_only": n_calls - n_spec,
        "value_calls_per_class": dict(per_class), "disagreements": n_bad, "binding_selftest_cases": demo,
        "rule": "one typeof fact per TLC table state (cpow x 29 operand forms x 29, minus literal**literal); one compiled function per selected state, "
                "called on every TLC-published integer power (8-bit types exhaustive up to MaxE, 16-bit grid), every XReal pair, every 2**n of the "
                "pow2 part, plus real-width boundary and seeded random operands decided by CPython; non-trivial = distinct call, excluding "
                "integer-class calls with base or exponent in {0, 1}; every typeof fact counts",
        "samples": samples,
    })
    rc = rep.finish()
    cov["known_findings"] = rep.kf_summary()
    core.write_evidence(PROP, tier, seed, "model_checking", cov, time.time() - t0,
                        assumptions=["the 8/16-bit integer types of the IntPow machine are scaled images of int/long/...: the helper is one template, "
                                     "real widths are covered by replay with CPython integers as oracle (TLC integers are 32-bit)",
                                     "signed overflow in the helper wraps (gcc -O0); the model shows it only happens in the unused last squaring "
                                     "when the result fits",
                                     "float/long double results are compared on spec-decided (exactly representable) cases only; complex values "
                                     "are compared with CPython to 1e-9 (1e-5 single precision), their Python type exactly",
                                     "result classes outside the documented table: any Python-object operand gives a Python object, any C complex "
                                     "operand a complex"],
                        violations=rep.n_violations())
    return rc


def replay(path, seed):
    """A replay file names a descriptor class and up to five calls; the calls only make sense together with the
    generated modules, so the quick tier is run again (same seed -> same modules and calls) and the file's class must recur."""
    with open(path) as f:
        want = json.load(f)["descriptor"]
    rc = run("quick", seed)
    p = os.path.join(core.REPLAY_DIR, PROP, os.path.basename(path))
    print("replay: class %s %s" % (json.dumps(want, sort_keys=True), "reproduced" if os.path.exists(p) else "not reproduced"))
    return rc
