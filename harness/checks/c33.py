"""C33 -- Python <-> C/C++ value conversions round-trip or raise.

spec/Convert.tla: target types as an algebra (C integers, double, char* / std::string under a
c_string_type/c_string_encoding mode, struct, union, T[n], char[n], vector, list, set, unordered_set,
map, unordered_map, pair; nesting <= 2), Python values as records, reference RoundTrip = ToPy o FromPy
through an explicit C value domain + declarative Valid/Norm, and an implementation-shaped transcription of
Utility/CppConvert.pyx / CConvert.pyx whose deviations carry a root-cause tag.  A case = pick a type, pick
a valid value, inject at most one fault at some position, convert; TLC explores all of them and checks the
invariants (see the module comment).

Binding B1: the type table published by TLC is rendered into Cython modules with one identity function per
type (`def rt_T(T x): return x`, arrays by assignment to a local), built from the working tree; every
published case is realised in a child process and executed; the observation must be the reference outcome
(equal value, or an exception inside {TypeError, ValueError, OverflowError}).  P = an independent oracle on
the realised objects (array.array, codecs, iteration / unpacking / collections.abc.Mapping of CPython).
"""
import collections
import concurrent.futures
import json
import os
import random
import sys
import time

import calls
import core
import lib_convert as L

PROP = "C33"
VOCAB = ("TypeError", "ValueError", "OverflowError")
GROUPS = {"quick": ["q_a", "q_b"], "thorough": ["t_a", "t_b", "t_c", "t_d"]}
ACTIONS = ("PickType", "PickGood", "InjectTop", "InjectNested", "Accept", "Reject", "AcceptDev", "RejectDev")
ROOT_CAUSES = ("float-trunc", "map-items-attr", "array-len-indexerror", "struct-extra-key", "chararray-overread")


def is_crash(o):
    return isinstance(o, str) and (o.startswith("CRASH") or o == "TIMEOUT")


def classify(case, obs):
    """-> (obs_class or None when the observation is the reference outcome, info dict)"""
    want, pred = case["want"], case["pred"]
    if is_crash(obs):
        return "crash", {"obs": obs}
    if "mkfail" in obs:
        core.die("value of a published case could not be realised: %s %s" % (obs["mkfail"], json.dumps(case["val"])[:300]))
    if want["ok"]:
        if "ok" in obs:
            if L.want_matches(want["x"], obs["ok"]):
                return None, {}
            if (case["rc"] == "chararray-overread" and obs["ok"][0] == "bytes" and len(obs["ok"][1]) > len(want["x"]["b"])
                    and obs["ok"][1][:len(want["x"]["b"])] == list(want["x"]["b"])):
                return "overread", {}
            return "wrong-value", {}
        return "raised:" + (obs["voc"] or obs["exc"]), {}
    # the reference rejects
    if "ok" in obs:
        if pred["ok"] and pred["exc"] == "" and L.want_matches(pred["x"], obs["ok"]):
            return "accepted-as-modelled", {}
        return "accepted", {}
    if obs["voc"] in VOCAB:
        return None, {"class_differs": obs["voc"] != want["exc"]}
    return "raised:" + obs["exc"], {}


def run_tlc(tier, cfgs):
    res = {}
    with concurrent.futures.ThreadPoolExecutor(max_workers=2) as ex:
        futs = {}
        for c in cfgs:
            futs[c] = ex.submit(core.tlc, "Convert", "Convert_" + c, 4, None, 900 if tier == "quick" else 3000)
            time.sleep(0.3)      # core.tlc names its metadir by the millisecond
        for c, f in futs.items():
            res[c] = f.result()
    return res


def build_modules(types, jobs):
    mods = L.plan_modules(types, chunk=7)
    specs = []
    for name, ts, directives, cplus in mods:
        src, cpp = L.render_module(ts)
        specs.append(core.BuildSpec(name, src, directives=directives, options={"cplus": True} if (cplus or cpp) else {}))
    return mods, core.build_many(specs, jobs=jobs, timeout=1500)


def run(tier, seed):
    t0 = time.time()
    rng = random.Random(seed)
    rep = core.Reporter(PROP)
    cov = {"tlc": []}
    core.scratch(), core.subdir("tlc"), core.snapshot()          # (not thread-safe on first use)

    # ---- the type table (fast TLC run), then builds and the model checking runs side by side
    rt = core.tlc_or_die("Convert", cfg="Convert_types_" + ("q" if tier == "quick" else "t"), workers=2, timeout=600)
    types = {r["type"]["name"]: r["type"] for r in rt.printed if "type" in r}
    if len(types) < 40:
        core.die("Convert published only %d types" % len(types))
    cov["tlc"].append(dict(rt.summary(), config="types"))
    with concurrent.futures.ThreadPoolExecutor(max_workers=2) as ex:
        fb = ex.submit(build_modules, list(types.values()), int(os.environ.get("VERIF_C33_JOBS", "8")))
        ft = ex.submit(run_tlc, tier, GROUPS[tier])
        tl = ft.result()
        t_tlc = time.time() - t0
        mods, builds = fb.result()
        t_build = time.time() - t0

    cases = []
    for c, r in tl.items():
        if not r.ok:
            sys.stderr.write(r.out[-5000:])
            core.die("TLC failed on Convert_%s (%s)" % (c, r.violation or r.rc))
        cov["tlc"].append(dict(r.summary(), config=c))
        cases += [p for p in r.printed if "val" in p]
    seen, uniq = set(), []
    for c in cases:
        key = (c["ty"], json.dumps(c["val"], sort_keys=True))
        if key not in seen:
            seen.add(key)
            uniq.append(c)
    cases = uniq

    # ---- vacuity guard on the model: every action of Next produced states, every root cause and every
    # target kind occurs (the spec publishes one record per `done` / `value` state; -coverage needs > 2 CPU
    # minutes to build its cost model for this spec, so the counts are taken from the published states)
    act = collections.Counter()
    act["PickType"] = len(types)
    for c in cases:
        top = c["fault"]["fk"] == "none"
        act["PickGood"] += top
        if not top:
            act["InjectTop" if not c["fault"]["path"] else "InjectNested"] += 1
        same = c["rc"] == ""
        act[("Accept" if c["want"]["ok"] else "Reject") + ("" if same else "Dev")] += 1
    missing = [a for a in ACTIONS if not act[a]]
    rcs = collections.Counter(c["rc"] for c in cases)
    missing += [r for r in ROOT_CAUSES if not rcs[r]]
    kinds = collections.Counter(types[c["ty"]]["t"] for c in cases)
    missing += [k for k in ("struct", "union", "array", "chararray", "cstr", "string", "vector", "list", "set", "uset", "map", "umap", "pair")
                if not kinds[k]]
    if missing or len(cases) < 5000:
        core.die("vacuous model: %d cases, nothing for %s" % (len(cases), missing))

    # ---- S vs P
    for c in cases:
        T = types[c["ty"]]
        try:
            p = L.p_outcome(T, c["val"])
        except NotImplementedError as e:
            rep.spec_drift("case outside the oracle's domain", {"case": c, "why": str(e)})
            continue
        w = c["want"]
        if p[0] == "mkfail":
            rep.spec_drift("value cannot be realised", {"case": c, "why": p[1]})
        elif w["ok"] != (p[0] == "ok") or (w["ok"] and L.want_canon(w["x"]) != p[1]) or (not w["ok"] and w["exc"] != p[1]):
            rep.spec_drift("Convert.RoundTrip vs CPython-primitive oracle", {"ty": c["ty"], "val": c["val"], "spec": w, "oracle": p})

    # ---- C: replay on the compiled modules
    mod_of = {}
    failed = []
    for (name, ts, directives, cplus), b in zip(mods, builds):
        if not b.ok:
            failed.append((name, b))
            rep.disagree({"part": "build", "module": name, "stage": b.stage, "types": [T["name"] for T in ts]}, "build-failed",
                         {"errors": (b.errors or "")[-3000:]})
            continue
        for T in ts:
            mod_of[T["name"]] = b
    per_mod = collections.defaultdict(list)
    for c in cases:
        b = mod_of.get(c["ty"])
        if b is not None:
            per_mod[b.name].append(c)
    n_run = 0
    stats = collections.Counter()
    samples = []
    self_ok = self_n = 0

    def run_mod(name):
        b = next(bb for bb in builds if bb.name == name)
        # risky (flushed before the call, so that a crash is attributed exactly): strlen() past a char[n], and C arrays
        # of C++ objects (copied with memcpy: KF-C33-6)
        cl = [["call", ["rt_" + c["ty"], json.dumps(c["val"])],
               c["rc"] == "chararray-overread" or (types[c["ty"]]["t"] == "array" and L.needs_cpp(types[c["ty"]]))] for c in per_mod[name]]
        return calls.run_calls(b, cl, prelude=L.CHILD_SRC, timeout=900)
    with concurrent.futures.ThreadPoolExecutor(max_workers=4) as ex:
        results = dict(zip(per_mod, ex.map(run_mod, list(per_mod))))
    for name, obs_list in results.items():
        for c, o in zip(per_mod[name], obs_list):
            n_run += 1
            obs = o if is_crash(o) else json.loads(o) if isinstance(o, str) and o.startswith("{") else {"exc": str(o), "voc": ""}
            oc, info = classify(c, obs)
            T = types[c["ty"]]
            if info.get("class_differs"):
                stats["rejected_with_other_vocabulary_class"] += 1
            if c["rc"] and oc is None:
                stats["predicted_deviation_absent:" + c["rc"]] += 1
            if oc is None:
                # binding self-test material: a corrupted expectation must be rejected
                if c["want"]["ok"] and self_n < 400 and c["want"]["x"]["k"] in ("list", "tuple", "oset", "odict", "sdict", "bytes", "str", "int"):
                    self_n += 1
                    bad = json.loads(json.dumps(c))
                    corrupt(bad["want"]["x"])
                    if classify(bad, obs)[0] is not None:
                        self_ok += 1
                continue
            stats["deviation:" + oc] += 1
            desc = {"type": c["ty"], "kind": T["t"], "mode": T["md"] or "bytes", "at": c["fault"]["at"], "fk": c["fault"]["fk"],
                    "bad": c["fault"]["bad"], "depth": c["fault"]["depth"], "rc": c["rc"], "input": c["val"]["k"],
                    "elem": T["a"][0]["t"] if T["a"] else ""}
            rep.disagree(desc, oc, {"type": T, "val": c["val"], "python": repr_val(c["val"]), "fault": c["fault"], "want": c["want"],
                                    "model_prediction": c["pred"], "got": obs, "call": "rt_%s" % c["ty"]})
    t_replay = time.time() - t0
    if self_n < 50 or self_ok != self_n:
        core.die("binding self-test failed: %d of %d corrupted expectations rejected" % (self_ok, self_n))

    nontriv = sum(1 for c in cases if c["ty"] in mod_of and (c["fault"]["depth"] >= 1 or nonempty(c["val"])))
    for c in core.sample([c for c in cases if c["fault"]["depth"] >= 1], 3, rng) + core.sample([c for c in cases if c["fault"]["fk"] == "none"], 2, rng):
        samples.append({"type": c["ty"], "value": repr_val(c["val"]), "fault": c["fault"], "want": c["want"]["exc"] or "round trip", "rc": c["rc"]})
    cov.update({
        "states": sum(t.distinct for t in tl.values()) + rt.distinct, "transitions": sum(t.generated for t in tl.values()) + rt.generated,
        "traces_validated_against_impl": n_run, "evaluations": n_run, "distinct_nontrivial": nontriv, "exhaustive": True,
        "rule": "every case of the model: (target type) x (valid value of the generator) x (no fault | one fault at one position: wrong "
                "object, wrong element type, out-of-range element, wrong length, missing / surplus / renamed key, non-mapping, text that "
                "cannot be encoded / decoded); distinct by (type, value); non-trivial = the value is a non-empty container or the fault "
                "sits inside a container",
        "types": len(types), "modules": [m[0] for m in mods], "cases_by_kind": dict(kinds), "model_actions": dict(act),
        "model_root_causes": dict(rcs), "cases_by_fault": dict(collections.Counter(c["fault"]["fk"] for c in cases)),
        "binding_selftest": {"corrupted": self_n, "rejected": self_ok},
        "phase_wall_s": {"types_run": round(rt.wall, 1), "model_checking_done_at": round(t_tlc, 1), "builds_done_at": round(t_build, 1),
                         "replay_done_at": round(t_replay, 1)}, "replay_stats": dict(stats), "samples": samples,
    })
    rc = rep.finish()
    cov["known_findings"] = rep.kf_summary()
    core.write_evidence(PROP, tier, seed, "model_checking", cov, time.time() - t0,
                        assumptions=["char* is a NUL-terminated view (documented): the reference cuts the value at the first NUL",
                                     "the dict made from a union holds every member; only the member that was set is compared",
                                     "which of TypeError / ValueError / OverflowError is raised is not demanded (counted as "
                                     "rejected_with_other_vocabulary_class), only that one of them is",
                                     "values hold at most one fault; set / dict inputs never hold two elements that convert to the same C value",
                                     "plain `char` is signed (x86-64), 32-bit int, 16-bit short"],
                        violations=rep.n_violations())
    return rc


def corrupt(x):
    k = x["k"]
    if k == "int":
        x["n"] += 1
    elif k in ("bytes", "str"):
        x["b"] = list(x["b"]) + [65]
    elif k in ("list", "tuple"):
        x["e"] = list(x["e"]) + [{"k": "int", "n": 7}]
    elif k == "oset":
        x["m"] = list(x["m"]) + [{"k": "int", "n": 123456}]
    elif k == "odict":
        x["m"] = list(x["m"]) + [[{"k": "int", "n": 123456}, {"k": "int", "n": 1}]]
    elif k == "sdict":
        x["m"] = list(x["m"]) + [["zz", {"k": "int", "n": 1}]]


def nonempty(v):
    return bool(v.get("e") or v.get("d") or v.get("b"))


def repr_val(v):
    """Python source of a value (generators as `iter([...])`)."""
    k = v["k"]
    if k == "gen":
        return "iter([%s])" % ", ".join(repr_val(x) for x in v["e"])
    if k in ("list", "tuple", "set"):
        inner = ", ".join(repr_val(x) for x in v["e"])
        return {"list": "[%s]", "tuple": "(%s,)" if len(v["e"]) == 1 else "(%s)", "set": "{%s}" if v["e"] else "set(%s)"}[k] % inner
    if k in ("dict", "mproxy"):
        inner = "{%s}" % ", ".join("%s: %s" % (repr_val(a), repr_val(b)) for a, b in v["d"])
        return inner if k == "dict" else "MappingProxyType(%s)" % inner
    if k == "obj":
        return "object()"
    if k == "big":
        return "%d * 2**70" % v["n"]
    return repr(L.mk(v))


def replay(path, seed):
    """Re-run the cases of a replay file written by Reporter.finish()."""
    with open(path) as f:
        data = json.load(f)
    core.scratch(), core.snapshot()
    rc = 0
    for i, case in enumerate(data["cases"]):
        T = case["type"]
        mods, builds = build_modules([T], 1)
        b = builds[0]
        if not b.ok:
            print("build failed:", (b.errors or "")[-2000:])
            return 1
        o = calls.run_calls(b, [["call", ["rt_" + T["name"], json.dumps(case["val"])], True]], prelude=L.CHILD_SRC)[0]
        print("%s(%s): want %s, got %s" % (case["call"], case["python"], case["want"]["exc"] or json.dumps(case["want"]["x"]), o))
        c = {"ty": T["name"], "val": case["val"], "want": case["want"], "pred": case["model_prediction"], "rc": data["descriptor"].get("rc", ""),
             "fault": case["fault"]}
        obs = o if is_crash(o) else json.loads(o)
        oc = classify(c, obs)[0]
        if oc is not None:
            d = dict(data["descriptor"], obs_class=oc)
            kf = [k["id"] for k in core.load_known_findings(PROP) if core._match(k["match"], d)]
            print("   -> %s%s" % (oc, " (known finding %s)" % kf[0] if kf else ""))
            if not kf:
                rc = 1
    return rc
