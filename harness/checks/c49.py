"""C49 — the code buffer assembles fragments in insertion-point order, markers aligned.

spec/CodeBuf.tla: reference "list of holes" document + implementation-shaped
StringIOTree forest, invariants Agree / ExactlyOnce / MarkersAligned / OwnSubtreeOnly
checked by TLC on all histories up to MaxLen.  Binding B1: every history of the
bounded exploration (and long random behaviours from TLC -simulate) is replayed on
the real Cython.StringIOTree.StringIOTree and on Cython.Compiler.Code.CCodeWriter
from the working tree, comparing getvalue()/allmarkers() of EVERY live handle with
the spec's expectation after EVERY step.
"""
import json
import os
import random
import sys
import time

import core

PROP = "C49"

_CHILD = r'''
import json, sys
from io import StringIO
from Cython import StringIOTree as SM
from Cython.Compiler import Code
assert SM.__file__.endswith(".py") and Code.__file__.endswith(".py"), (SM.__file__, Code.__file__)
StringIOTree = SM.StringIOTree
CCodeWriter = Code.CCodeWriter

class SrcDesc(object):
    def get_escaped_description(self):
        return "src"
SRC = SrcDesc()
FRAG = {}     # fragment id -> (kind, newlines, position)

def text(fid, nl=None):
    kind, nl, p = FRAG[fid]
    if kind == "putln":
        return ('\n#line %d "src"\n' % p if nl == 3 else "") + "F%d;" % fid + "\n"
    return "F%d;" % fid + "\n" * nl

def posval(p):
    return None if p == 0 else (SRC, p, 0)
def marker(p):
    return [None, 0] if p == 0 else ["src", p]
def normm(m):
    return [None if m[0] is None else ("src" if m[0] is SRC else m[0]), m[1]]

class TreeLevel:
    """drives raw StringIOTree objects the way CCodeWriter does"""
    def __init__(self):
        self.h = {1: StringIOTree()}
        self.pos = {1: 0}
    def write(self, h, fid, nl, p):
        t = self.h[h]
        t.markers.extend([marker(p)] * nl)
        t.write(text(fid, nl))
    def putln(self, h, fid, nl, p):
        t = self.h[h]
        if nl == 3:
            t.markers.extend([marker(p)] * 2)
            t.write('\n#line %d "src"\n' % p)
        t.write("F%d;" % fid)
        t.markers.extend([marker(p)])
        t.write("\n")
    def mark(self, h, p):
        self.pos[h] = p
    def ip(self, h, h2):
        self.h[h2] = self.h[h].insertion_point(); self.pos[h2] = self.pos[h]
    def new(self, h, h2):
        self.h[h2] = StringIOTree(); self.pos[h2] = self.pos[h]
    def insert(self, h, t):
        self.h[h].insert(self.h[t])
    def commit(self, h):
        self.h[h].commit()
    def value(self, h):
        t = self.h[h]
        v = t.getvalue()
        out = StringIO(); t.copyto(out)
        if out.getvalue() != v:
            return ("copyto!=getvalue", out.getvalue(), v)
        return v
    def markers(self, h):
        return [normm(m) for m in self.h[h].allmarkers()]
    def empty(self, h):
        return self.h[h].empty()

class WriterLevel(TreeLevel):
    """drives CCodeWriter.write / insertion_point / new_writer / insert"""
    def __init__(self):
        class _CC(object):
            emit_linenums = True
            emit_code_comments = False
        class _GS(object):
            code_config = _CC()
        w = CCodeWriter()
        w.set_global_state(_GS())
        self.h = {1: w}
    def write(self, h, fid, nl, p):
        self.h[h].write(text(fid, nl))
    def putln(self, h, fid, nl, p):
        self.h[h].putln("F%d;" % fid)
    def mark(self, h, p):
        self.h[h].last_marked_pos = posval(p)
    def ip(self, h, h2):
        self.h[h2] = self.h[h].insertion_point()
    def new(self, h, h2):
        self.h[h2] = self.h[h].new_writer()
    def insert(self, h, t):
        self.h[h].insert(self.h[t])
    def commit(self, h):
        self.h[h].buffer.commit()
    def value(self, h):
        w = self.h[h]
        v = w.getvalue()
        out = StringIO(); w.copyto(out)
        if out.getvalue() != v:
            return ("copyto!=getvalue", out.getvalue(), v)
        return v
    def markers(self, h):
        return [normm(m) for m in self.h[h].buffer.allmarkers()]
    def empty(self, h):
        return self.h[h].buffer.empty()

def replay(hist, level):
    d = level()
    nf = 0
    nls = {}
    for k, st in enumerate(hist):
        op, h, a, b = st["op"], st["h"], st["a"], st["b"]
        try:
            if op == "write":
                nf += 1; nls[nf] = a; FRAG[nf] = ("write", a, b)
                d.write(h, nf, a, b)
            elif op == "putln":
                nf += 1; nls[nf] = a; FRAG[nf] = ("putln", a, b)
                d.putln(h, nf, a, b)
            elif op == "mark": d.mark(h, a)
            elif op == "ip": d.ip(h, a)
            elif op == "new": d.new(h, a)
            elif op == "insert": d.insert(h, a)
            elif op == "commit": d.commit(h)
            else: raise ValueError(op)
            for i, e in enumerate(st["exp"]):
                hh = i + 1
                want_v = "".join(text(f, nls[f]) for f in e["v"])
                want_m = [marker(p) for p in e["m"]]
                got_v = d.value(hh); got_m = d.markers(hh)
                if got_v != want_v:
                    return {"step": k, "op": op, "handle": hh, "what": "value", "got": got_v, "want": want_v}
                if got_m != want_m:
                    return {"step": k, "op": op, "handle": hh, "what": "markers", "got": got_m, "want": want_m}
                if d.empty(hh) != (want_v == ""):
                    return {"step": k, "op": op, "handle": hh, "what": "empty", "got": d.empty(hh), "want": want_v == ""}
        except Exception as ex:
            return {"step": k, "op": op, "handle": h, "what": "exception", "got": type(ex).__name__ + ": " + str(ex)[:200], "want": None}
    return None

n = 0
with open(sys.argv[1]) as f, open(sys.argv[2], "w") as out:
    for line in f:
        hist = json.loads(line)
        n += 1
        for name, level in (("tree", TreeLevel), ("writer", WriterLevel)):
            r = replay(hist, level)
            if r is not None:
                r["level"] = name; r["hist"] = [{k: s[k] for k in ("op", "h", "a", "b")} for s in hist]
                out.write(json.dumps(r) + "\n")
print("@@" + json.dumps({"replayed": n}))
'''


def selfcorrupt(hists, rng):
    """binding demonstration: flip one expected fragment order -> replay must reject"""
    out = []
    for h in hists:
        for st in h:
            for e in st["exp"]:
                if len(e["v"]) >= 2:
                    e["v"][0], e["v"][1] = e["v"][1], e["v"][0]
                    out.append(h)
                    break
            else:
                continue
            break
        if len(out) >= 20:
            break
    return out


def replay_all(hists, tag, rep):
    wd = core.subdir("c49")
    hf = os.path.join(wd, tag + ".ndjson")
    of = os.path.join(wd, tag + ".out")
    core.write_ndjson(hf, hists)
    ch = core.run_child(_CHILD, [hf, of], with_snapshot=True, timeout=1800, mem_mb=8192)
    if ch.rc != 0 or not ch.json_lines():
        rep.disagree({"level": "harness-child", "what": "child-failed"}, "crash",
                     {"rc": ch.rc, "stderr": ch.err[-3000:]})
        return 0, []
    mism = core.read_ndjson(of)
    return ch.json_lines()[-1]["replayed"], mism


def run(tier, seed):
    t0 = time.time()
    rng = random.Random(seed)
    rep = core.Reporter(PROP)
    cov = {"tlc": []}
    # 1. exhaustive model check (deeper bound, no dump)
    deep = core.tlc_or_die("CodeBuf", cfg="CodeBuf" if tier == "quick" else "CodeBuf_deep", coverage=True, timeout=3000)
    cov["tlc"].append(dict(deep.summary(), config="MaxH=3 MaxLen=%d NLs={0,1} Poses={0,1}" % (5 if tier == "quick" else 6)))
    for act in ("DoWrite", "DoPutLn", "DoMark", "DoIP", "DoNew", "DoInsert", "DoCommit"):
        if deep.coverage.get(act, (0, 0))[1] == 0:
            core.die("vacuous model: action %s never taken" % act)
    # 2. exhaustive histories for replay
    dump = core.tlc_or_die("CodeBuf", cfg="CodeBuf_dump" if tier == "quick" else "CodeBuf_dump5", timeout=3000)
    hists = dump.printed
    cov["tlc"].append(dict(dump.summary(), config="dump of all histories of length %d" % (4 if tier == "quick" else 5)))
    if len(hists) < 1000:
        core.die("history dump too small: %d" % len(hists))
    # 3. long random behaviours of the same spec
    sim = core.tlc_simulate("CodeBuf", "CodeBuf_sim", seconds=240 if tier == "quick" else 900, depth=31,
                            seed=seed, max_records=300 if tier == "quick" else 30000)
    if not sim.ok:
        sys.stderr.write(sim.out[-3000:])
        core.die("TLC simulation reported %s" % sim.violation)
    # the number of simulated behaviours depends on the machine; the exhaustive part does not
    n1, m1 = replay_all(hists, "exh", rep)
    n2, m2 = replay_all(sim.printed, "sim", rep)
    for m in m1 + m2:
        rep.disagree({"level": m["level"], "what": m["what"], "op": m["op"]}, "mismatch", m)
    # binding demonstration
    bad = selfcorrupt([json.loads(json.dumps(h)) for h in hists[:3000]], rng)
    nb, mb = replay_all(bad, "corrupt", core.Reporter(PROP))
    rejected = len({json.dumps(m["hist"]) for m in mb})
    if bad and rejected != len(bad):
        core.die("binding self-test failed: %d corrupted expectations, %d rejected" % (len(bad), rejected))
    nontrivial = sum(1 for h in hists + sim.printed
                     if any(s["op"] in ("ip", "insert") for s in h) and any(s["op"] == "write" for s in h))
    cov.update({
        "states": deep.generated + dump.generated, "distinct_states": deep.distinct + dump.distinct,
        "transitions": deep.generated + dump.generated,
        "traces_validated_against_impl": n1 + n2,
        "evaluations": (n1 + n2) * 2, "distinct_nontrivial": nontrivial,
        "exhaustive": True,
        "rule": "histories = all action sequences of the spec up to the dump bound (exhaustive) + TLC -simulate behaviours of "
                "length 30 over 6 handles; each replayed on raw StringIOTree and on CCodeWriter; non-trivial = contains an "
                "insertion point or a subtree insertion and at least one write",
        "action_coverage": {k: v[1] for k, v in deep.coverage.items() if k in ("DoWrite", "DoPutLn", "DoMark", "DoIP", "DoNew", "DoInsert", "DoCommit")},
        "simulated_behaviours": len(sim.printed),
        "binding_selftest": {"corrupted": len(bad), "rejected": rejected},
        "samples": [[{k: s[k] for k in ("op", "h", "a", "b")} for s in h] for h in rng.sample(hists, 2) + sim.printed[:1]],
    })
    rc = rep.finish()
    cov["known_findings"] = rep.kf_summary()
    core.write_evidence(PROP, tier, seed, "model_checking", cov, time.time() - t0,
                        assumptions=["inserting a tree twice or into itself is outside the documented domain (spec precondition of Insert)",
                                     "reset() is not modelled"],
                        violations=rep.n_violations())
    return rc
