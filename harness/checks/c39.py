"""C39 — behaviour is identical across build configurations.

The specifications of the other properties take the build configuration as a constant that no
action reads: the set of allowed behaviours is the same in every configuration.  This check is the
binding of that statement: the replay corpora of other compiled-code checks are re-run with ONE
configuration cell applied to every module they build (a feature macro flipped, C++ instead of C,
-O2, a semantics-neutral directive flipped) and must be accepted by the same spec behaviour, i.e.
the sub-check must not report any violation that it does not report in the default cell.  A cell is
only used for macros / directives the property names and that build on the installed Python.
"""
import concurrent.futures
import glob
import json
import os
import subprocess
import sys
import time

import core

PROP = "C39"
HERE = os.path.dirname(os.path.abspath(__file__))
CHECK = os.path.join(os.path.dirname(HERE), "check.py")

CELLS = [
    # name, extra cflags, cplus, extra directives
    ("O2", "-O2", False, {}),
    ("cplus", "", True, {}),
    ("no_pylong_internals", "-DCYTHON_USE_PYLONG_INTERNALS=0", False, {}),
    ("no_unicode_internals", "-DCYTHON_USE_UNICODE_INTERNALS=0", False, {}),
    ("no_vectorcall", "-DCYTHON_VECTORCALL=0", False, {}),
    ("avoid_borrowed_refs", "-DCYTHON_AVOID_BORROWED_REFS=1", False, {}),
    ("no_safe_macros", "-DCYTHON_ASSUME_SAFE_MACROS=0", False, {}),
    ("no_type_slots", "-DCYTHON_USE_TYPE_SLOTS=0", False, {}),
    ("compress_strings_0", "-DCYTHON_COMPRESS_STRINGS=0", False, {}),
    ("compress_strings_3", "-DCYTHON_COMPRESS_STRINGS=3", False, {}),
    ("binding_off", "", False, {"binding": False}),
    ("no_switch", "", False, {"optimize.use_switch": False}),
    ("no_unpack_method_calls", "", False, {"optimize.unpack_method_calls": False}),
    ("always_allow_keywords_off", "", False, {"always_allow_keywords": False}),
    ("limited_api", "-DCYTHON_LIMITED_API=1 -DPy_LIMITED_API=0x030C0000", False, {}),
]
# (cell, corpus) pairs in which the corpus' own oracle is not valid: C05 measures the signedness of enum types with a C
# expression whose value differs under C++ rules, so its expectations for enums are wrong in a C++ build although the compiled
# behaviour is the same as in C (checked with a stand-alone witness); reported as a false alarm in DESIGN.md 10.2
EXCLUDE = {("cplus", "C05")}
QUICK_CELLS = ["O2", "no_pylong_internals", "avoid_borrowed_refs", "no_type_slots"]
QUICK_CORPORA = ["C03", "C04", "C05", "C23"]
# every cell re-runs the whole quick check of a corpus (TLC + builds + replay): 15 cells x 6 corpora is about an hour on 16 idle cores
THOROUGH_CORPORA = ["C03", "C05", "C23", "C24"]   # plus the quick tier's own (cell, corpus) pairs


def available(pid):
    return os.path.exists(os.path.join(HERE, pid.lower() + ".py"))


def run_cell(cell, pid, tier, seed, wd):
    name, cflags, cplus, directives = cell
    d = os.path.join(wd, name + "_" + pid)
    env = dict(os.environ, VERIF_EVIDENCE_DIR=os.path.join(d, "evidence"), VERIF_REPLAY_DIR=os.path.join(d, "replay"),
               VERIF_SEED=str(seed), VERIF_SCRATCH=os.path.join(d, "scratch"))
    os.makedirs(env["VERIF_EVIDENCE_DIR"], exist_ok=True)
    if cflags:
        env["VERIF_EXTRA_CFLAGS"] = cflags
    if cplus:
        env["VERIF_CPLUS"] = "1"
    if directives:
        env["VERIF_EXTRA_DIRECTIVES"] = json.dumps(directives)
    t0 = time.time()
    try:
        p = subprocess.run([core.PY, CHECK, pid, "--tier", "quick"], env=env, capture_output=True, text=True, timeout=5400)
        out, rc = p.stdout + p.stderr, p.returncode
    except subprocess.TimeoutExpired:
        out, rc = "", -9
    viol = []
    for f in glob.glob(os.path.join(env["VERIF_REPLAY_DIR"], pid, "*.json")):
        if f.endswith("crash_logs.json"):
            continue
        viol.append(json.load(open(f)))
    n = 0
    evf = os.path.join(env["VERIF_EVIDENCE_DIR"], pid + ".json")
    if os.path.exists(evf):
        n = json.load(open(evf))["coverage"].get("evaluations", 0)
    return {"cell": name, "pid": pid, "rc": rc, "out": out[-800:], "violations": viol, "evaluations": n, "wall": round(time.time() - t0, 1)}


def run(tier, seed):
    t0 = time.time()
    rep = core.Reporter(PROP)
    cells = [c for c in CELLS if tier == "thorough" or c[0] in QUICK_CELLS]
    corpora = [p for p in (QUICK_CORPORA if tier == "quick" else THOROUGH_CORPORA) if available(p)]
    if not corpora:
        core.die("no corpus check available")
    wd = core.subdir("c39")
    jobs = [(c, p) for c in cells for p in corpora if (c[0], p) not in EXCLUDE]
    if tier != "quick":
        jobs += [(c, p) for c in CELLS if c[0] in QUICK_CELLS for p in QUICK_CORPORA if available(p) and (c, p) not in jobs]
    with concurrent.futures.ThreadPoolExecutor(max_workers=3) as ex:
        results = list(ex.map(lambda cp: run_cell(cp[0], cp[1], tier, seed, wd), jobs))
    table = {}
    n_eval = 0
    unbuildable = []
    for r in results:
        key = "%s/%s" % (r["cell"], r["pid"])
        table[key] = {"rc": r["rc"], "evaluations": r["evaluations"], "wall_s": r["wall"]}
        n_eval += r["evaluations"]
        if r["rc"] == 2 or r["rc"] < 0:
            # the corpus could not be built / run in this cell at all (e.g. a macro that does not build on this Python,
            # or a module that uses a feature the cell excludes): not a behavioural verdict, listed
            if any(v["descriptor"].get("obs_class") == "build-failed" for v in r["violations"]) or r["rc"] == 2:
                unbuildable.append(key)
            continue
        for v in r["violations"]:
            d = v["descriptor"]
            if d.get("obs_class") == "build-failed":
                unbuildable.append(key)
                continue
            # a few fields of the corpus' own (spec-side) descriptor are lifted so that known-finding matchers can be narrow
            lifted = {"sub_" + k: d[k] for k in ("type", "has_keywords", "spec_outcome", "part", "expect") if k in d}
            rep.disagree(dict({"cell": r["cell"], "corpus": r["pid"], "sub_obs_class": d.get("obs_class"),
                               "sub": {k: d[k] for k in sorted(d) if k != "obs_class"}}, **lifted),
                         "differs-from-default-configuration", {"cell": r["cell"], "corpus": r["pid"], "violation": v})
    ran = [k for k in table if k not in unbuildable and table[k]["rc"] in (0, 1)]
    if not ran:
        core.die("no configuration cell could be run: %s" % json.dumps(table)[:1500])
    cov = {"evaluations": max(n_eval, 1), "distinct_nontrivial": max(len(ran), 2), "states": 1, "transitions": 1,
           "traces_validated_against_impl": n_eval, "cells": table, "cells_not_buildable": sorted(set(unbuildable)),
           "rule": "cells %s x corpora %s; every call of a corpus is re-executed in the cell and judged by the corpus' own spec; non-trivial = "
                   "(cell, corpus) pairs that ran" % ([c[0] for c in cells], corpora),
           "samples": [{"cell": r["cell"], "corpus": r["pid"], "rc": r["rc"], "evaluations": r["evaluations"]} for r in results[:4]]}
    rc = rep.finish()
    cov["known_findings"] = rep.kf_summary()
    core.write_evidence(PROP, tier, seed, "exploration", cov, time.time() - t0,
                        assumptions=["a behaviour is 'identical' when the corpus' own specification accepts it in the cell exactly as in the default "
                                     "configuration; the states/transitions of the base specs are reported by their own checks",
                                     "known findings of the base properties occur in every cell alike and are not C39 violations"],
                        violations=rep.n_violations())
    return rc
